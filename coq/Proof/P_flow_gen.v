(** The C01/C09 pipeline theorems for ANY skeleton program that passes one boolean check [flow_checks]
    (symbolic execution of a whole server session + counting analyses + the close() idiom check).
    The hand-written skeletons pass it (P_flow_thm proves the same statements for them); on every run of
    the C01/C09 checks the skeletons REGENERATED from /repo's sources are put through it by the kernel
    (`vm_compute`), which re-establishes every theorem below for what the code says now. *)
From Coq Require Import ZArith List Bool Lia.
Import ListNotations.
From CV Require Import Model.M_flow Model.M_pipeline Model.M_aflow Proof.P_aflow Proof.P_cnt Proof.P_endreq Proof.P_endreq2 Proof.P_served Proof.P_flow_thm.
Open Scope Z_scope.

Definition all_fnames : list fname :=
  [F_request_run; F_respond; F_do_respond; F_handle_error; F_request_close; F_ir_request_close;
   F_get_serving; F_release_serving; F_appresponse_init; F_appresponse_close; F_appresponse_close_init;
   F_appresponse_run; F_redirector_call; F_trap_init; F_trap_next; F_trapped_init; F_trapped_next; F_trapped_close].

Lemma all_fnames_complete : forall g, In g all_fnames.
Proof. intros g; destruct g; cbn; tauto. Qed.

Definition bounds_eqb (a b : option (nat * nat)) : bool :=
  match a, b with
  | Some (x, y), Some (u, v) => Nat.eqb x u && Nat.eqb y v
  | None, None => true
  | _, _ => false
  end.

Lemma bounds_eqb_eq a b : bounds_eqb a b = true -> a = b.
Proof.
  destruct a as [[x y]|], b as [[u v]|]; cbn; try discriminate; try reflexivity.
  intros H. apply andb_prop in H. destruct H as [H1 H2].
  apply Nat.eqb_eq in H1. apply Nat.eqb_eq in H2. now subst.
Qed.

Definition points : list hookpoint :=
  [OnStartResource; BeforeRequestBody; BeforeHandler; BeforeFinalize;
   OnEndResource; OnEndRequest; BeforeErrorResponse; AfterErrorResponse].

(** the documented bounds of every hook point inside Request.run / Request.respond *)
Definition table_run : list (option (nat * nat)) :=
  [Some (0, 1); Some (0, 1); Some (0, 1); Some (0, 2); Some (0, 1); Some (0, 0); Some (0, 1); Some (0, 1)]%nat.
Definition table_respond : list (option (nat * nat)) :=
  [Some (0, 1); Some (0, 1); Some (0, 1); Some (0, 2); Some (1, 1); Some (0, 0); Some (0, 1); Some (0, 1)]%nat.

Fixpoint tables_eqb (a b : list (option (nat * nat))) : bool :=
  match a, b with
  | [], [] => true
  | x :: r, y :: t => bounds_eqb x y && tables_eqb r t
  | _, _ => false
  end.

Lemma tables_eqb_eq a : forall b, tables_eqb a b = true -> a = b.
Proof.
  induction a as [|x r IH]; destruct b as [|y t]; cbn; try discriminate; try reflexivity.
  intros H. apply andb_prop in H. destruct H as [H1 H2]. apply bounds_eqb_eq in H1. now rewrite H1, (IH t H2).
Qed.

(** kept generic in the result list so that no proof term ever asks the kernel to unfold [aexec] *)
Lemma results_cover (R : option (list (outcome * astate))) (P : outcome * astate -> bool) (x : outcome * astate) :
  (forall R', R = Some R' -> In x R') ->
  match R with Some R' => forallb P R' | None => false end = true -> P x = true.
Proof.
  intros Hin HP. destruct R as [R'|]; [|discriminate].
  rewrite forallb_forall in HP. apply HP. now apply Hin.
Qed.

(** every served request has been closed: the serving slot holds no unclosed request at the end of a session and
    none was ever dropped from it unclosed (identity bits of the abstract state) *)
Definition served_closed (r : outcome * astate) : bool :=
  let '(op, _, lost) := snd (snd r) in negb op && negb lost.

Section Gen.
  Variable prog : fname -> stmt.
  Variable pparam : fname -> stmt.
  Variable afuel : nat.     (* fuel of the symbolic executor: a VARIABLE here, so that nothing in this section can make
                               the kernel unfold [aexec]; instantiated (400) only where [flow_checks] is computed *)

  Definition g_hook_table (f : fname) : list (option (nat * nat)) :=
    map (fun p => cnt prog pparam 80 (RunHooks p) Skip (Call f)) points.

  Definition session_check (showtb : bool) (P : outcome * astate -> bool) : bool :=
    match aexec prog pparam showtb false afuel Skip server_session (alpha init_state) with
    | Some R => forallb P R
    | None => false
    end.

  Definition flow_checks : bool :=
    session_check false (fun r => ok_outcome (fst r) && one_response r && unexpected_5xx r && served_closed r && no_leak r)
    && session_check true (fun r => ok_outcome (fst r) && one_response r && unexpected_5xx r && served_closed r)
    && bounds_eqb (cnt prog pparam 20 (RunHooks OnEndResource) Skip (Call F_respond)) (Some (1, 1)%nat)
    && tables_eqb (g_hook_table F_request_run) table_run
    && tables_eqb (g_hook_table F_respond) table_respond
    && forallb (fun g => safe (prog g) && safe (pparam g)) all_fnames
    && safe server_session
    && forallb (fun g => safe2 (prog g) && safe2 (pparam g)) all_fnames
    && safe2 server_session.

  Hypothesis checks : flow_checks = true.

  Local Ltac split_checks :=
    let H := fresh "H" in
    pose proof checks as H; unfold flow_checks in H;
    repeat match type of H with _ && _ = true => apply andb_prop in H; destruct H as [H ?] end.

  Lemma g_session_in_results E fuel o st' R :
    env_ok E -> p_throw E = false ->
    exec prog pparam E fuel Skip server_session init_state = (o, st') -> o <> OutOfFuel ->
    aexec prog pparam (p_showtb E) false afuel Skip server_session (alpha init_state) = R ->
    forall P, match R with Some R' => forallb P R' | None => false end = true -> P (o, alpha st') = true.
  Proof.
    intros Hok Hth H Hne HR P HP.
    assert (Hinv : Inv init_state) by (unfold Inv; cbn; lia).
    pose proof (aexec_sound prog pparam E Hok fuel Skip server_session init_state o st' Hinv H Hne afuel) as Hs.
    rewrite Hth in Hs.
    destruct R as [R'|]; [|discriminate].
    rewrite forallb_forall in HP. apply HP. apply Hs. exact HR.
  Qed.

  Lemma g_common E fuel o st' :
    env_ok E -> p_throw E = false ->
    exec prog pparam E fuel Skip server_session init_state = (o, st') -> o <> OutOfFuel ->
    ok_outcome o = true /\ one_response (o, alpha st') = true /\ unexpected_5xx (o, alpha st') = true
    /\ served_closed (o, alpha st') = true
    /\ (p_showtb E = false -> no_leak (o, alpha st') = true).
  Proof.
    intros Hok Hth H Hne.
    pose proof (g_session_in_results E fuel o st' _ Hok Hth H Hne eq_refl) as Hc.
    split_checks.
    destruct (p_showtb E).
    - match goal with X : session_check true _ = true |- _ => unfold session_check in X; specialize (Hc _ X) end.
      cbn [fst] in Hc. repeat (apply andb_prop in Hc; destruct Hc as [Hc ?]). repeat split; try assumption. discriminate.
    - match goal with X : session_check false _ = true |- _ => unfold session_check in X; specialize (Hc _ X) end.
      cbn [fst] in Hc. repeat (apply andb_prop in Hc; destruct Hc as [Hc ?]). repeat split; try assumption. intros _. assumption.
  Qed.

  Theorem gthm_no_escape E fuel o st' :
    env_ok E -> p_throw E = false ->
    exec prog pparam E fuel Skip server_session init_state = (o, st') -> o <> OutOfFuel ->
    o = Normal \/ o = Raised XKeyboardInterrupt \/ o = Raised XSystemExit \/ o = Raised XFromServer.
  Proof.
    intros Hok Hth H Hne. destruct (g_common E fuel o st' Hok Hth H Hne) as [Hc _].
    destruct o as [| |e|]; try discriminate; try tauto. destruct e; try discriminate; tauto.
  Qed.

  Theorem gthm_one_response E fuel o st' :
    env_ok E -> p_throw E = false ->
    exec prog pparam E fuel Skip server_session init_state = (o, st') -> o <> OutOfFuel ->
    let f := sfin st' in
    sr_plain f <= 1
    /\ (o = Normal -> 1 <= sr_plain f \/ sr_exc f = true)
    /\ (1 <= sr_plain f \/ sr_exc f = true -> 2 <= out_status f <= 5).
  Proof.
    intros Hok Hth H Hne. destruct (g_common E fuel o st' Hok Hth H Hne) as (_ & Hc & _).
    unfold one_response, getf, alpha in Hc. cbn [fst snd] in Hc.
    apply andb_prop in Hc. destruct Hc as [Hc H3]. apply andb_prop in Hc. destruct Hc as [H1 H2].
    apply Z.leb_le in H1. cbv zeta. split; [exact H1|]. split.
    - intros ->. apply orb_prop in H2. destruct H2 as [H2|H2]; [left; now apply Z.leb_le | right; exact H2].
    - intros Hcalled.
      repeat (apply orb_prop in H3; destruct H3 as [H3|H3]); try (apply Z.eqb_eq in H3; lia).
      apply andb_prop in H3. destruct H3 as [Ha Hb]. apply Z.eqb_eq in Ha. apply negb_true_iff in Hb.
      destruct Hcalled as [Hx|Hx]; [lia | congruence].
  Qed.

  Theorem gthm_unexpected_5xx E fuel st' :
    env_ok E -> p_throw E = false ->
    exec prog pparam E fuel Skip server_session init_state = (Normal, st') ->
    unexp (sfin st') = true -> redir_in_error (sfin st') = false -> out_status (sfin st') = 5.
  Proof.
    intros Hok Hth H Hu Hr.
    destruct (g_common E fuel Normal st' Hok Hth H ltac:(discriminate)) as (_ & _ & Hc & _).
    unfold unexpected_5xx, getf, alpha in Hc. cbn [fst snd] in Hc. rewrite Hu, Hr in Hc. cbn in Hc.
    now apply Z.eqb_eq.
  Qed.

  Theorem gthm_no_leak E fuel o st' :
    env_ok E -> p_throw E = false -> p_showtb E = false ->
    exec prog pparam E fuel Skip server_session init_state = (o, st') -> o <> OutOfFuel ->
    out_taint (sfin st') = true -> trap_outside (sfin st') = true.
  Proof.
    intros Hok Hth Hsh H Hne Ht.
    destruct (g_common E fuel o st' Hok Hth H Hne) as (_ & _ & _ & _ & Hc). specialize (Hc Hsh).
    unfold no_leak, getf, alpha in Hc. cbn [fst snd] in Hc. rewrite Ht in Hc. exact Hc.
  Qed.

  Theorem gthm_end_resource_once E fuel st o st' :
    exec prog pparam E fuel Skip (Call F_respond) st = (o, st') -> o <> OutOfFuel ->
    count (RunHooks OnEndResource) (journal st') = S (count (RunHooks OnEndResource) (journal st)).
  Proof.
    intros H Hne. split_checks.
    match goal with X : bounds_eqb _ _ = true |- _ => apply bounds_eqb_eq in X; rename X into Hb end.
    pose proof (cnt_sound prog pparam E (RunHooks OnEndResource) fuel 20 Skip (Call F_respond) st o st' H Hne
                          1%nat 1%nat Hb) as Hw. lia.
  Qed.

  Theorem gthm_hook_bounds E fuel f st o st' p n lo hi :
    exec prog pparam E fuel Skip (Call f) st = (o, st') -> o <> OutOfFuel ->
    nth_error points n = Some p ->
    nth_error (g_hook_table f) n = Some (Some (lo, hi)) ->
    (count (RunHooks p) (journal st) + lo <= count (RunHooks p) (journal st')
     <= count (RunHooks p) (journal st) + hi)%nat.
  Proof.
    intros H Hne Hp Ht. unfold g_hook_table in Ht.
    rewrite nth_error_map, Hp in Ht. cbn [option_map] in Ht. apply Some_inj in Ht.
    exact (cnt_sound prog pparam E (RunHooks p) fuel 80 Skip (Call f) st o st' H Hne lo hi Ht).
  Qed.

  Theorem gthm_hook_tables : g_hook_table F_request_run = table_run /\ g_hook_table F_respond = table_respond.
  Proof.
    split_checks.
    split; apply tables_eqb_eq; assumption.
  Qed.

  (** on_end_request is never run inside Request.run (row OnEndRequest of the table: (0, 0)) *)
  Theorem gthm_end_request_not_in_run E fuel st o st' :
    exec prog pparam E fuel Skip (Call F_request_run) st = (o, st') -> o <> OutOfFuel ->
    count (RunHooks OnEndRequest) (journal st') = count (RunHooks OnEndRequest) (journal st).
  Proof.
    intros H Hne. destruct gthm_hook_tables as [Ht _].
    pose proof (gthm_hook_bounds E fuel F_request_run st o st' OnEndRequest 5 0 0 H Hne eq_refl) as Hb.
    rewrite Ht in Hb. specialize (Hb eq_refl). lia.
  Qed.

  Theorem gthm_end_request_at_most_once E fuel o st' r :
    exec prog pparam E fuel Skip server_session init_state = (o, st') ->
    (countr r (journal st') <= 1)%nat.
  Proof.
    intros H. split_checks.
    match goal with X : forallb (fun g => safe (prog g) && safe (pparam g)) all_fnames = true |- _ =>
      rewrite forallb_forall in X; rename X into Hall end.
    assert (Hp : forall g, safe (prog g) = true).
    { intros g. specialize (Hall g (all_fnames_complete g)). apply andb_prop in Hall. destruct Hall as [A _]. exact A. }
    assert (Hq : forall g, safe (pparam g) = true).
    { intros g. specialize (Hall g (all_fnames_complete g)). apply andb_prop in Hall. destruct Hall as [_ B]. exact B. }
    assert (HJ0 : J init_state) by (intros q; cbn; lia).
    match goal with X : safe server_session = true |- _ =>
      pose proof (J_preserved prog pparam E Hp Hq fuel Skip server_session init_state o st' eq_refl X HJ0 H r) as HJ end.
    destruct (memZ r (closed (sid st'))); lia.
  Qed.
  (** every request object that was ever loaded into the serving slot has been closed when a session ends
      (whatever the outcome), and the slot does not hold an open request any more *)
  Theorem gthm_served_closed E fuel o st' :
    env_ok E -> p_throw E = false ->
    exec prog pparam E fuel Skip server_session init_state = (o, st') -> o <> OutOfFuel ->
    forall r, In r (served (sid st')) -> memZ r (closed (sid st')) = true.
  Proof.
    intros Hok Hth H Hne r Hr.
    destruct (g_common E fuel o st' Hok Hth H Hne) as (_ & _ & _ & Hc & _).
    unfold served_closed, alpha in Hc. cbn [snd] in Hc.
    apply andb_prop in Hc. destruct Hc as [Hop Hlost].
    apply negb_true_iff in Hop. apply negb_true_iff in Hlost.
    pose proof (LS_preserved prog pparam E fuel Skip server_session init_state o st' LS_init H) as [_ HL].
    destruct (HL r Hr) as [Hl|[Hcl|[_ Ho]]]; [congruence | exact Hcl | congruence].
  Qed.

  (** ... and exactly once for every request whose close() got past its guard, never for another one *)
  Theorem gthm_end_request_exactly_once_if_closed E fuel o st' r :
    exec prog pparam E fuel Skip server_session init_state = (o, st') -> o <> OutOfFuel -> r <> 0 ->
    countr r (journal st') = if memZ r (closed (sid st')) then 1%nat else 0%nat.
  Proof.
    intros H Hne Hr. split_checks.
    repeat match goal with X : forallb _ all_fnames = true |- _ => rewrite forallb_forall in X end.
    match goal with
    | X : forall x, In x all_fnames -> safe (prog x) && safe (pparam x) = true,
      Y : forall x, In x all_fnames -> safe2 (prog x) && safe2 (pparam x) = true |- _ =>
      rename X into Hall; rename Y into Hall2
    end.
    assert (Hp : forall g, safe (prog g) = true).
    { intros g. specialize (Hall g (all_fnames_complete g)). apply andb_prop in Hall. destruct Hall as [A _]. exact A. }
    assert (Hq : forall g, safe (pparam g) = true).
    { intros g. specialize (Hall g (all_fnames_complete g)). apply andb_prop in Hall. destruct Hall as [_ B]. exact B. }
    assert (Hp2 : forall g, safe2 (prog g) = true).
    { intros g. specialize (Hall2 g (all_fnames_complete g)). apply andb_prop in Hall2. destruct Hall2 as [A _]. exact A. }
    assert (Hq2 : forall g, safe2 (pparam g) = true).
    { intros g. specialize (Hall2 g (all_fnames_complete g)). apply andb_prop in Hall2. destruct Hall2 as [_ B]. exact B. }
    assert (HJ0 : J init_state) by (intros q; cbn; lia).
    assert (HK0 : K init_state).
    { intros q Hq0 Hm. exfalso. unfold memZ in Hm. cbn in Hm. rewrite orb_false_r in Hm. apply Z.eqb_eq in Hm. congruence. }
    match goal with X : safe server_session = true, Y : safe2 server_session = true |- _ =>
      pose proof (J_preserved prog pparam E Hp Hq fuel Skip server_session init_state o st' eq_refl X HJ0 H r) as HJ;
      pose proof (K_preserved prog pparam E Hp2 Hq2 fuel Skip server_session init_state o st' eq_refl Y HK0 H Hne r Hr) as HK
    end.
    destruct (memZ r (closed (sid st'))); [specialize (HK eq_refl); lia | lia].
  Qed.
  (** C09, the full clause: in every terminating server session on_end_request has run exactly once for every
      request object that was served *)
  Theorem gthm_end_request_exactly_once E fuel o st' r :
    env_ok E -> p_throw E = false ->
    exec prog pparam E fuel Skip server_session init_state = (o, st') -> o <> OutOfFuel ->
    In r (served (sid st')) -> r <> 0 ->
    countr r (journal st') = 1%nat.
  Proof.
    intros Hok Hth H Hne Hr Hr0.
    rewrite (gthm_end_request_exactly_once_if_closed E fuel o st' r H Hne Hr0).
    now rewrite (gthm_served_closed E fuel o st' Hok Hth H Hne r Hr).
  Qed.
End Gen.

(** the hand-written skeletons pass the check (so every theorem above specialises to them) *)
Lemma handwritten_flow_checks : flow_checks prog pparam sess_fuel = true.
Proof. vm_compute. reflexivity. Qed.
