(** C13, part (a): every step of every thread of the repaired system preserves [Inv]. *)
From Coq Require Import ZArith List Bool Lia.
From CV Require Import Lib.Sx Lib.ListZ LibP.ListZ_facts Model.M_locks Proof.P_locks Proof.P_locks_inv.
Import ListNotations.
Open Scope Z_scope.

(** what the continuations do to the lock-relevant state: they move the program counter *)
Lemma finish_lk tid t s : lk (finish tid t s) = lk (put tid (set_pc RDone t) s).
Proof. reflexivity. Qed.

Lemma do_close_lk tid t s :
  lk (do_close tid t s) = lk (put tid (set_pc (if r_locked t then RRelLook AfClose else RDone) t) s).
Proof. unfold do_close. destruct (r_locked t); reflexivity. Qed.

Lemma do_save_lk tid t s :
  lk (do_save tid t s) =
  lk (put tid (set_pc (if r_loaded t then RSave else if r_locked t then RRelLook AfSave else RDone) t) s).
Proof. unfold do_save, do_close. destruct (r_loaded t); [reflexivity|]. destruct (r_locked t); reflexivity. Qed.

Ltac fin_pc := unfold pc_ok; cbn; repeat split; auto; try congruence.

Lemma rstep_Inv cf s tid t lab s' :
  c_fixed cf = true -> Inv s -> nthZ tid (reqs s) = Some t -> rstep cf tid t s = Some (lab, s') -> Inv s'.
Proof.
  intros FX HI Hn H. pose proof HI as (HT & HL & HS). destruct (HT tid t Hn) as (A1 & A2 & A3).
  unfold rstep in H. unfold pc_ok in A3. destruct (r_pc t) eqn:Pc.
  - (* RBegin *)
    destruct A3 as (O & C). injection H as <- <-. destruct (c_cookie cf) as [id|].
    + eapply (Inv_put_local s _ tid t (set_pc (RExists true) (set_sid id t)) HI Hn);
        [reflexivity|cbn; congruence|fin_pc|reflexivity].
    + eapply (Inv_put_local s _ tid t (set_pc (RExists false) (new_id tid t)) HI Hn);
        [reflexivity|cbn; congruence|fin_pc|reflexivity].
  - (* RExists *)
    destruct A3 as (O & C). injection H as <- <-. unfold start_acquire.
    destruct (ahas (r_sid t) (cache s)); destruct first.
    + eapply (Inv_put_local s _ tid t (set_pc RSetdef (set_locked true t)) HI Hn);
        [reflexivity|cbn; congruence|fin_pc|reflexivity].
    + eapply (Inv_put_local s _ tid t (new_id tid t) HI Hn);
        [reflexivity|cbn; congruence|unfold pc_ok; cbn; rewrite Pc; auto|reflexivity].
    + eapply (Inv_put_local s _ tid t (set_pc (RExists false) (new_id tid t)) HI Hn);
        [reflexivity|cbn; congruence|fin_pc|reflexivity].
    + eapply (Inv_put_local s _ tid t (set_pc RSetdef (set_locked true t)) HI Hn);
        [reflexivity|cbn; congruence|fin_pc|reflexivity].
  - (* RSetdef *)
    destruct A3 as (O & C & Lk). injection H as <- <-.
    destruct (aget (r_sid t) (table s)) as [l|] eqn:Tb.
    + eapply (Inv_put_local s _ tid t (set_pc (RAcquire l) t) HI Hn);
        [reflexivity|cbn; congruence|fin_pc|reflexivity].
    + eapply (Inv_install s _ tid t (set_pc (RAcquire (lenZ (objs s))) t) HI Hn Tb);
        [reflexivity|exact C|fin_pc|reflexivity].
  - (* RAcquire *)
    destruct A3 as (O & C & Lk).
    destruct (nthZ l (objs s)) as [o|] eqn:Ho; [|discriminate].
    destruct (free_for tid o) eqn:F; [|discriminate]. rewrite FX in H. injection H as <- <-.
    eapply (Inv_acquire s _ tid t l o (set_pc (RCheck l) (set_own (Some l) t)) HI Hn O Ho F);
      [reflexivity|exact C|fin_pc|reflexivity].
  - (* RCheck *)
    destruct A3 as (O & C & Lk). injection H as <- <-.
    assert (Stay : Inv (put tid (set_pc (RUndo l) t) s)).
    { eapply (Inv_put_local s _ tid t (set_pc (RUndo l) t) HI Hn);
        [reflexivity|cbn; congruence|fin_pc|reflexivity]. }
    destruct (aget (r_sid t) (table s)) as [l'|] eqn:Tb; [|exact Stay].
    destruct (l' =? l) eqn:El; [|exact Stay]. apply Z.eqb_eq in El. subst l'.
    (* acquire_lock returns: the critical section begins *)
    unfold after_acquire.
    assert (CS : forall t', r_own t' = r_own t -> r_sid t' = r_sid t ->
                            r_cs t' = true -> exists l0, r_own t' = Some l0 /\ aget (r_sid t') (table s) = Some l0).
    { intros t' E1 E2 _. exists l. rewrite E1, E2. auto. }
    cbn [r_regen set_cs r_kind].
    destruct (r_regen t).
    + eapply (Inv_put_local s _ tid t _ HI Hn); [| | |rewrite do_save_lk; reflexivity].
      * reflexivity.
      * apply CS; reflexivity.
      * unfold pc_ok. cbn. rewrite Lk. destruct (r_loaded t); auto.
    + destruct (r_kind t =? 3).
      * eapply (Inv_put_local s _ tid t _ HI Hn); [| | |rewrite do_save_lk; reflexivity].
        -- reflexivity.
        -- apply CS; reflexivity.
        -- unfold pc_ok. cbn. rewrite Lk. destruct (r_loaded t); auto.
      * eapply (Inv_put_local s _ tid t (set_pc RLoad (set_cs true t)) HI Hn);
          [reflexivity|apply CS; reflexivity|fin_pc|reflexivity].
  - (* RUndo *)
    destruct A3 as (O & C & Lk). injection H as <- <-.
    eapply (Inv_release s _ tid t l (set_pc RSetdef (set_own None t)) HI Hn O);
      [reflexivity|exact C|fin_pc|reflexivity].
  - (* RLoad *)
    destruct A3 as (C & Lk).
    assert (G : forall d s0, lk s0 = lk s -> forall v e,
      Inv (if r_kind t =? 0 then do_save tid (set_rd (Some (r_sid t, v)) (set_loaded d t)) (emit e s0)
           else if r_kind t =? 1 then do_close tid (set_rd (Some (r_sid t, v)) (set_loaded d t)) (emit e s0)
           else put tid (set_pc RDelete (set_regen true (set_rd (Some (r_sid t, v)) (set_loaded d t)))) (emit e s0))).
    { intros d s0 E0 v e. unfold lk in E0. injection E0 as E1 E2 E3 E4.
      destruct (r_kind t =? 0); [|destruct (r_kind t =? 1)].
      - eapply (Inv_put_same s _ tid t _ HI Hn); [| | | |rewrite do_save_lk; unfold lk; cbn; rewrite E1, E2, E3, E4; reflexivity].
        + reflexivity.
        + reflexivity.
        + reflexivity.
        + unfold pc_ok. cbn. rewrite C, Lk. auto.
      - eapply (Inv_put_same s _ tid t _ HI Hn); [| | | |rewrite do_close_lk; unfold lk; cbn; rewrite E1, E2, E3, E4; reflexivity].
        + reflexivity.
        + reflexivity.
        + reflexivity.
        + unfold pc_ok. cbn. rewrite C, Lk. auto.
      - eapply (Inv_put_same s _ tid t _ HI Hn); [| | | |unfold lk; cbn; rewrite E1, E2, E3, E4; reflexivity].
        + reflexivity.
        + reflexivity.
        + reflexivity.
        + unfold pc_ok. cbn. rewrite C, Lk. auto. }
    destruct (aget (r_sid t) (cache s)) as [e|]; [destruct (c_exp e)|]; injection H as <- <-; apply G; reflexivity.
  - (* RDelete *)
    destruct A3 as (C & Lk). injection H as <- <-.
    eapply (Inv_put_same s _ tid t (set_pc (RRelLook AfRegen) (set_rd None t)) HI Hn);
      [reflexivity|reflexivity|reflexivity|fin_pc|].
    destruct (ahas (r_sid t) (cache s)); reflexivity.
  - (* RRelLook: under the invariant the lookup finds the thread's own lock object *)
    destruct A3 as (C & Lk). destruct (A2 C) as (l & O & Tb). destruct (A1 l O) as (o & Ho & Wo).
    rewrite Tb, Ho in H. apply owned_by_true in Wo. rewrite Wo in H. injection H as <- <-.
    eapply (Inv_put_same s _ tid t (set_pc (RRelease l a) t) HI Hn);
      [reflexivity|reflexivity|reflexivity|fin_pc|reflexivity].
  - (* RRelease *)
    destruct A3 as (C & Lk & O). injection H as <- <-. unfold rel_done.
    destruct a.
    + eapply (Inv_release s _ tid t l _ HI Hn O); [| | |reflexivity]; [reflexivity|reflexivity|fin_pc].
    + eapply (Inv_release s _ tid t l _ HI Hn O); [| | |rewrite do_close_lk; reflexivity];
        [reflexivity|reflexivity|fin_pc].
    + eapply (Inv_release s _ tid t l _ HI Hn O); [| | |rewrite finish_lk; reflexivity];
        [reflexivity|reflexivity|fin_pc].
  - (* RSave *)
    destruct A3 as (C & Lk). injection H as <- <-. cbn [r_locked set_rd]. rewrite Lk.
    eapply (Inv_put_same s _ tid t (set_pc (RRelLook AfSave) (set_rd None t)) HI Hn);
      [reflexivity|reflexivity|reflexivity|fin_pc|reflexivity].
  - discriminate.
Qed.

(* ------------------------------------------------------------------ *)
(** * the sweeper *)

(** program counters at which the sweeper holds no lock object and [sw_ok] asks nothing *)
Definition idle_pc (p : spc) : Prop :=
  match p with
  | SBegin | SIdle | SCopy | SDel _ | SLook1 _ | SList | SIn _ | SLook2 _ | SDone => True
  | _ => False
  end.

Lemma idle_quiet w : idle_pc (s_pc w) -> quiet w.
Proof. intros H l X. unfold sw_owns in X. destruct (s_pc w); cbn in H; auto. Qed.

Lemma idle_sw_ok w s : idle_pc (s_pc w) -> sw_ok (set_sw w s).
Proof. intros H. unfold sw_ok. cbn [set_sw sw]. destruct (s_pc w); cbn in H; try exact Logic.I; contradiction. Qed.

Lemma sweep_end_idle w : idle_pc (s_pc (sweep_end w)).
Proof. unfold sweep_end. cbn [s_pc]. destruct (0 <? s_left w); exact Logic.I. Qed.

Lemma next1_idle w : idle_pc (s_pc (next1 w)).
Proof. unfold next1. destruct (skip_live (s_todo1 w)) as [|[id b] r]; exact Logic.I. Qed.

Lemma next2_idle w : idle_pc (s_pc (next2 w)).
Proof. unfold next2. destruct (s_todo2 w) as [|id r]; [apply sweep_end_idle|exact Logic.I]. Qed.

Lemma Inv_sw_idle s s' w' :
  Inv s -> quiet (sw s) -> idle_pc (s_pc w') -> lk s' = lk (set_sw w' s) -> Inv s'.
Proof.
  intros HI Q P E.
  exact (Inv_sw_local s s' w' HI Q (idle_quiet w' P) (idle_sw_ok w' s P) E).
Qed.

Lemma try_quiet w id l : (s_pc w = STry1 id l \/ s_pc w = STry2 id l) -> quiet w.
Proof. intros [H|H] l0 X; unfold sw_owns in X; rewrite H in X; exact X. Qed.

Lemma sstep_Inv s lab s' : Inv s -> sstep (lenZ (reqs s)) s = Some (lab, s') -> Inv s'.
Proof.
  intros HI H. pose proof HI as (HT & HL & HS). unfold sstep in H. unfold sw_ok in HS.
  destruct (s_pc (sw s)) eqn:Pc.
  - (* SBegin *) injection H as <- <-.
    eapply Inv_sw_idle; [exact HI|apply idle_quiet; rewrite Pc; exact Logic.I|apply sweep_end_idle|reflexivity].
  - (* SIdle *) injection H as <- <-.
    eapply Inv_sw_idle; [exact HI|apply idle_quiet; rewrite Pc; exact Logic.I| |reflexivity]. exact Logic.I.
  - (* SCopy *) injection H as <- <-.
    eapply Inv_sw_idle; [exact HI|apply idle_quiet; rewrite Pc; exact Logic.I|apply next1_idle|reflexivity].
  - (* SDel *) injection H as <- <-.
    eapply (Inv_sw_idle s _ (sw_pc (SLook1 id) (sw s)));
      [exact HI|apply idle_quiet; rewrite Pc; exact Logic.I|exact Logic.I|].
    destruct (ahas id (cache s)); reflexivity.
  - (* SLook1 *) injection H as <- <-. destruct (aget id (table s)) as [l|] eqn:Tb.
    + eapply (Inv_sw_local s _ (sw_pc (STry1 id l) (sw s)));
        [exact HI|apply idle_quiet; rewrite Pc; exact Logic.I| | |reflexivity].
      * eapply try_quiet. left. reflexivity.
      * unfold sw_ok. cbn. exact Tb.
    + eapply Inv_sw_idle; [exact HI|apply idle_quiet; rewrite Pc; exact Logic.I|apply next1_idle|reflexivity].
  - (* STry1 *) injection H as <- <-. unfold try_lock.
    assert (Q : quiet (sw s)) by (eapply try_quiet; left; exact Pc).
    destruct (nthZ l (objs s)) as [o|] eqn:Ho; [destruct (free_for (lenZ (reqs s)) o) eqn:F|].
    + eapply (Inv_sw_acquire s _ id l o (SPop1 id l) HI Q HS Ho F); [left; reflexivity|reflexivity].
    + eapply Inv_sw_idle; [exact HI|exact Q|apply next1_idle|reflexivity].
    + eapply Inv_sw_idle; [exact HI|exact Q|apply next1_idle|reflexivity].
  - (* SPop1 *) injection H as <- <-. destruct HS as (Tb & o & Ho & Wo). unfold sw_pop.
    rewrite Tb, Ho. apply owned_by_true in Wo. rewrite Wo.
    eapply (Inv_sw_pop s _ id l (SRel1 l) HI); [left; exact Pc|left; reflexivity|reflexivity].
  - (* SRel1 *) injection H as <- <-.
    eapply (Inv_sw_release s _ l (next1 (sw s)) HI); [left; exact Pc| | |reflexivity].
    + apply idle_quiet, next1_idle.
    + apply idle_sw_ok, next1_idle.
  - (* SList *) injection H as <- <-.
    eapply Inv_sw_idle; [exact HI|apply idle_quiet; rewrite Pc; exact Logic.I|apply next2_idle|reflexivity].
  - (* SIn *) injection H as <- <-. destruct (ahas id (cache s)).
    + eapply Inv_sw_idle; [exact HI|apply idle_quiet; rewrite Pc; exact Logic.I|apply next2_idle|reflexivity].
    + eapply (Inv_sw_idle s _ (sw_pc (SLook2 id) (sw s)));
        [exact HI|apply idle_quiet; rewrite Pc; exact Logic.I|exact Logic.I|reflexivity].
  - (* SLook2 *) injection H as <- <-. destruct (aget id (table s)) as [l|] eqn:Tb.
    + eapply (Inv_sw_local s _ (sw_pc (STry2 id l) (sw s)));
        [exact HI|apply idle_quiet; rewrite Pc; exact Logic.I| | |reflexivity].
      * eapply try_quiet. right. reflexivity.
      * unfold sw_ok. cbn. exact Tb.
    + eapply (Inv_sw_idle s _ (SW SDone 0 [] []));
        [exact HI|apply idle_quiet; rewrite Pc; exact Logic.I|exact Logic.I|reflexivity].
  - (* STry2 *) injection H as <- <-. unfold try_lock.
    assert (Q : quiet (sw s)) by (eapply try_quiet; right; exact Pc).
    destruct (nthZ l (objs s)) as [o|] eqn:Ho; [destruct (free_for (lenZ (reqs s)) o) eqn:F|].
    + eapply (Inv_sw_acquire s _ id l o (SPop2 id l) HI Q HS Ho F); [right; reflexivity|reflexivity].
    + eapply Inv_sw_idle; [exact HI|exact Q|apply next2_idle|reflexivity].
    + eapply Inv_sw_idle; [exact HI|exact Q|apply next2_idle|reflexivity].
  - (* SPop2 *) injection H as <- <-. destruct HS as (Tb & o & Ho & Wo). unfold sw_pop.
    rewrite Tb, Ho. apply owned_by_true in Wo. rewrite Wo.
    eapply (Inv_sw_pop s _ id l (SRel2 l) HI); [right; exact Pc|right; reflexivity|reflexivity].
  - (* SRel2 *) injection H as <- <-.
    eapply (Inv_sw_release s _ l (next2 (sw s)) HI); [right; exact Pc| | |reflexivity].
    + apply idle_quiet, next2_idle.
    + apply idle_sw_ok, next2_idle.
  - discriminate.
Qed.

Lemma step_Inv cf tid s lab s' : c_fixed cf = true -> Inv s -> step cf tid s = Some (lab, s') -> Inv s'.
Proof.
  intros FX HI H. unfold step in H. destruct (nthZ tid (reqs s)) as [t|] eqn:Hn.
  - eapply rstep_Inv; eauto.
  - destruct (tid =? lenZ (reqs s)) eqn:E; [|discriminate]. apply Z.eqb_eq in E. subst tid.
    eapply sstep_Inv; eauto.
Qed.

Theorem reach_Inv cf kinds sweeps pre s :
  c_fixed cf = true -> reach cf (init kinds sweeps pre) s -> Inv s.
Proof.
  intros FX R. induction R; [apply Inv_init|eapply step_Inv; eauto].
Qed.
