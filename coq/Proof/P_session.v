(** Facts about the session model: association lists, id generation, the
    adoption rule, sweeps, unreadable files. *)
From Coq Require Import ZArith List Bool Lia.
From CV Require Import Lib.Sx Lib.ListZ Model.M_session.
Import ListNotations.
Open Scope Z_scope.

(* ---------- association lists ---------- *)

Lemma lookup_remove {A} (i j : Z) (s : list (Z * A)) :
  lookup i (remove j s) = if j =? i then None else lookup i s.
Proof.
  unfold remove. induction s as [|[k c] r IH]; cbn [filter fst lookup negb].
  - destruct (j =? i); reflexivity.
  - destruct (k =? j) eqn:Ekj; cbn [negb lookup].
    + apply Z.eqb_eq in Ekj. subst k. rewrite IH. destruct (j =? i); reflexivity.
    + rewrite IH. destruct (k =? i) eqn:Eki; [|reflexivity].
      apply Z.eqb_eq in Eki. subst k. rewrite Z.eqb_sym in Ekj. rewrite Ekj. reflexivity.
Qed.

Lemma lookup_put {A} (i j : Z) (c : A) (s : list (Z * A)) :
  lookup i (put j c s) = if j =? i then Some c else lookup i s.
Proof.
  unfold put. cbn [lookup]. destruct (j =? i) eqn:E; [reflexivity|].
  rewrite lookup_remove, E. reflexivity.
Qed.

Lemma lookup_In {A} (i : Z) (c : A) (s : list (Z * A)) :
  lookup i s = Some c -> In (i, c) s.
Proof.
  induction s as [|[k x] r IH]; cbn [lookup]; [discriminate|].
  destruct (k =? i) eqn:E; intro H.
  - apply Z.eqb_eq in E. subst k. injection H as ->. left. reflexivity.
  - right. auto.
Qed.

Lemma In_mem {A} (i : Z) (c : A) (s : list (Z * A)) : In (i, c) s -> mem i s = true.
Proof.
  unfold mem. induction s as [|[k x] r IH]; cbn [lookup In]; [tauto|].
  intros [H|H].
  - injection H as -> ->. rewrite Z.eqb_refl. reflexivity.
  - destruct (k =? i); [reflexivity|auto].
Qed.

Lemma lookup_filter_keep {A} (p : Z * A -> bool) (i : Z) (c : A) (s : list (Z * A)) :
  lookup i s = Some c -> p (i, c) = true -> lookup i (filter p s) = Some c.
Proof.
  induction s as [|[k x] r IH]; cbn [lookup filter]; [discriminate|].
  intros H Hp. destruct (k =? i) eqn:E.
  - injection H as ->. apply Z.eqb_eq in E. subst k. rewrite Hp. cbn [lookup].
    rewrite Z.eqb_refl. reflexivity.
  - destruct (p (k, x)); cbn [lookup]; rewrite ?E; auto.
Qed.

Lemma remove_In {A} (i : Z) (e : Z * A) (s : list (Z * A)) : In e (remove i s) -> In e s.
Proof. unfold remove. intro H. apply filter_In in H. tauto. Qed.

Lemma mem_lookup_true {A} (i : Z) (s : list (Z * A)) :
  mem i s = true -> exists c, lookup i s = Some c.
Proof. unfold mem. destruct (lookup i s); [eauto|discriminate]. Qed.

(* ---------- id generation ---------- *)

(** the id produced is the first candidate of the stream that is not a key *)
Lemma gen_id_spec (s : store) (rng : list Z) (i : Z) (r : list Z) :
  gen_id s rng = (Some i, r) ->
  mem i s = false /\
  exists pre, rng = pre ++ i :: r /\ forall x, In x pre -> mem x s = true.
Proof.
  revert i r. induction rng as [|c rest IH]; cbn [gen_id]; intros i r H; [discriminate|].
  destruct (mem c s) eqn:E.
  - destruct (IH _ _ H) as [Hf [pre [Hr Hp]]]. split; [exact Hf|].
    exists (c :: pre). split; [cbn; rewrite Hr; reflexivity|].
    intros x [<-|Hx]; auto.
  - injection H as <- <-. split; [exact E|]. exists []. split; [reflexivity|]. intros x [].
Qed.

Lemma gen_id_suffix (s : store) (rng : list Z) (o : option Z) (r : list Z) :
  gen_id s rng = (o, r) -> exists pre, rng = pre ++ r /\ (forall i, o = Some i -> In i pre).
Proof.
  revert o r. induction rng as [|c rest IH]; cbn [gen_id]; intros o r H.
  - injection H as <- <-. exists []. split; [reflexivity|discriminate].
  - destruct (mem c s).
    + destruct (IH _ _ H) as [pre [Hr Hi]]. exists (c :: pre). split; [cbn; rewrite Hr; reflexivity|].
      intros i Ho. right. auto.
    + injection H as <- <-. exists [c]. split; [reflexivity|]. intros i Hi. injection Hi as <-. left. reflexivity.
Qed.

(* ---------- the adoption rule (Session.__init__) ---------- *)

Lemma begin_spec (w : world) (cookie : option Z) (w1 : world) (i : Z) :
  begin_req w cookie = (SOk, w1, i) ->
  (exists p, cookie = Some p /\ mem p (w_store w) = true /\ i = p /\ w1 = w)
  \/ ((forall p, cookie = Some p -> mem p (w_store w) = false)
      /\ mem i (w_store w) = false
      /\ (exists pre, w_rng w = pre ++ i :: w_rng w1
                      /\ forall x, In x pre -> mem x (w_store w) = true)
      /\ w_store w1 = w_store w /\ w_now w1 = w_now w).
Proof.
  unfold begin_req. intro H.
  assert (G : forall (Hc : forall p, cookie = Some p -> mem p (w_store w) = false),
             match gen_id (w_store w) (w_rng w) with
             | (Some i0, r) => (SOk, W (w_store w) (w_now w) r, i0)
             | (None, r) => (SRngOut, W (w_store w) (w_now w) r, 0)
             end = (SOk, w1, i) ->
             (forall p, cookie = Some p -> mem p (w_store w) = false)
             /\ mem i (w_store w) = false
             /\ (exists pre, w_rng w = pre ++ i :: w_rng w1
                             /\ forall x, In x pre -> mem x (w_store w) = true)
             /\ w_store w1 = w_store w /\ w_now w1 = w_now w).
  { intros Hc G. destruct (gen_id (w_store w) (w_rng w)) as [[i0|] r] eqn:E; [|discriminate].
    injection G as <- <-. destruct (gen_id_spec _ _ _ _ E) as [Hf [pre [Hr Hp]]].
    split; [exact Hc|]. split; [exact Hf|]. split; [exists pre; cbn [w_rng]; auto|]. split; reflexivity. }
  destruct cookie as [p|].
  - destruct (mem p (w_store w)) eqn:E.
    + injection H as <- <-. left. exists p. auto.
    + right. apply G; [|exact H]. intros q Hq. injection Hq as <-. exact E.
  - right. apply G; [|exact H]. intros q Hq. discriminate.
Qed.

(** the client's value cannot influence the id it is given *)
Lemma req_indep (c : cfg) (w : world) (p1 p2 : Z) (acts : list act) :
  mem p1 (w_store w) = false -> mem p2 (w_store w) = false ->
  do_req c w (Some p1) acts = do_req c w (Some p2) acts
  /\ do_req c w (Some p1) acts = do_req c w None acts.
Proof. intros H1 H2. unfold do_req, begin_req. rewrite H1, H2. split; reflexivity. Qed.

(* ids of a whole request: presented-and-held, or drawn from the stream *)

Definition suffix (r r0 : list Z) : Prop := exists pre, r0 = pre ++ r.

Lemma suffix_refl r : suffix r r.
Proof. exists []. reflexivity. Qed.

Lemma suffix_trans a b c : suffix a b -> suffix b c -> suffix a c.
Proof. intros [p1 H1] [p2 H2]. exists (p2 ++ p1). rewrite H2, H1, app_assoc. reflexivity. Qed.

Lemma suffix_In a b x : suffix a b -> In x a -> In x b.
Proof. intros [p H] Hx. rewrite H. apply in_or_app. right. exact Hx. Qed.

Lemma act_ids (c : cfg) (a : act) (w : world) (x : sess) st w1 x1 o :
  do_act c a w x = (st, w1, x1, o) ->
  suffix (w_rng w1) (w_rng w) /\ (x_id x1 = x_id x \/ In (x_id x1) (w_rng w)).
Proof.
  destruct a; cbn [do_act]; intro H.
  - destruct (ensure_loaded c w x) as [st' x'] eqn:E. injection H as <- <- <- <-.
    split; [apply suffix_refl|left].
    unfold ensure_loaded in E. destruct (x_loaded x); [injection E as <- <-; reflexivity|].
    destruct (load_raw c (x_id x) (w_store w)); injection E as <- <-; reflexivity.
  - destruct (ensure_loaded c w x) as [st' x'] eqn:E.
    assert (Hid : x_id x' = x_id x).
    { unfold ensure_loaded in E. destruct (x_loaded x); [injection E as <- <-; reflexivity|].
      destruct (load_raw c (x_id x) (w_store w)); injection E as <- <-; reflexivity. }
    destruct st'; injection H as <- <- <- <-; (split; [apply suffix_refl|left; exact Hid]).
  - destruct (ensure_loaded c w x) as [st' x'] eqn:E.
    assert (Hid : x_id x' = x_id x).
    { unfold ensure_loaded in E. destruct (x_loaded x); [injection E as <- <-; reflexivity|].
      destruct (load_raw c (x_id x) (w_store w)); injection E as <- <-; reflexivity. }
    destruct st'; injection H as <- <- <- <-; (split; [apply suffix_refl|left; exact Hid]).
  - destruct (gen_id (remove (x_id x) (w_store w)) (w_rng w)) as [[i|] r] eqn:E;
      injection H as <- <- <- <-; destruct (gen_id_suffix _ _ _ _ E) as [pre [Hr Hi]]; cbn [w_rng x_id].
    + split; [exists pre; exact Hr|]. right. rewrite Hr. apply in_or_app. left. auto.
    + split; [exists pre; exact Hr|]. left. reflexivity.
  - injection H as <- <- <- <-. split; [apply suffix_refl|left; reflexivity].
  - injection H as <- <- <- <-. split; [apply suffix_refl|left; reflexivity].
Qed.

Lemma acts_ids (c : cfg) (acts : list act) : forall w x outs st w1 x1 outs1,
  do_acts c acts w x outs = (st, w1, x1, outs1) ->
  suffix (w_rng w1) (w_rng w) /\ (x_id x1 = x_id x \/ In (x_id x1) (w_rng w)).
Proof.
  induction acts as [|a r IH]; cbn [do_acts]; intros w x outs st w1 x1 outs1 H.
  - injection H as <- <- <- <-. split; [apply suffix_refl|left; reflexivity].
  - destruct (do_act c a w x) as [[[st' w'] x'] o] eqn:E.
    destruct (act_ids _ _ _ _ _ _ _ _ E) as [Hs Hi].
    assert (K : st' = SOk \/ (st, w1, x1) = (st', w', x')).
    { destruct st'; [left; reflexivity| |]; right; injection H as <- <- <- <-; reflexivity. }
    destruct K as [->|K].
    + destruct (IH _ _ _ _ _ _ _ H) as [Hs2 Hi2]. split; [eapply suffix_trans; eauto|].
      destruct Hi2 as [Hi2|Hi2].
      * rewrite Hi2. exact Hi.
      * right. eapply suffix_In; eauto.
    + injection K as -> -> ->. split; assumption.
Qed.

Lemma resp_id (c : cfg) (w : world) (cookie : option Z) (acts : list act) rp w' :
  do_req c w cookie acts = (rp, w') -> r_status rp = SOk ->
  (exists p, cookie = Some p /\ r_id rp = p /\ mem p (w_store w) = true)
  \/ In (r_id rp) (w_rng w).
Proof.
  unfold do_req. destruct (begin_req w cookie) as [[st0 w1] i] eqn:B.
  destruct st0; [|intros H; injection H as <- <-; cbn; discriminate
                 |intros H; injection H as <- <-; cbn; discriminate].
  destruct (do_acts c acts w1 (Sess i [] false false) []) as [[[st w2] x] outs] eqn:E.
  destruct (acts_ids _ _ _ _ _ _ _ _ _ E) as [_ Hi]. cbn [x_id] in Hi.
  intros H Hst.
  assert (Hr : r_id rp = x_id x) by (destruct st; injection H as <- <-; reflexivity).
  rewrite Hr.
  destruct (begin_spec _ _ _ _ B) as [[p [Hc [Hm [-> ->]]]]|[_ [_ [[pre [Hp _]] _]]]].
  - destruct Hi as [Hi|Hi]; [left; exists p; rewrite Hi; auto|right; exact Hi].
  - right. destruct Hi as [Hi|Hi].
    + rewrite Hi, Hp. apply in_or_app. right. left. reflexivity.
    + rewrite Hp. apply in_or_app. right. right. exact Hi.
Qed.

(* ---------- sweeps ---------- *)

(** what the file sweep keeps: "if expiration_time < now: unlink" *)
Definition file_keep (now : Z) (e : Z * content) : bool :=
  match snd e with Good _ ex => negb (ex <? now) | Bad _ => true end.

Lemma sweep_file_ok (c : cfg) (now : Z) (l : store) : forall l',
  sweep_file c now l = (SOk, l') -> l' = filter (file_keep now) l.
Proof.
  induction l as [|[i ct] r IH]; cbn [sweep_file filter]; intros l' H.
  - injection H as <-. reflexivity.
  - destruct ct as [d e|cls]; unfold file_keep at 1; cbn [snd].
    + destruct (sweep_file c now r) as [st r'] eqn:E. injection H as -> <-.
      rewrite (IH _ eq_refl). destruct (e <? now); reflexivity.
    + destruct (caught c cls); [|discriminate].
      destruct (sweep_file c now r) as [st r'] eqn:E. injection H as -> <-.
      rewrite (IH _ eq_refl). reflexivity.
Qed.

(** an entry that is not yet expired survives the file sweep whether or not the
    sweep is cut short by an exception *)
Lemma sweep_file_keeps (c : cfg) (now : Z) (l : store) (i : Z) (ct : content) :
  lookup i l = Some ct -> file_keep now (i, ct) = true ->
  lookup i (snd (sweep_file c now l)) = Some ct.
Proof.
  induction l as [|[k x] r IH]; cbn [lookup sweep_file]; [discriminate|].
  intros H Hk. destruct (k =? i) eqn:E.
  - injection H as ->. apply Z.eqb_eq in E. subst k. destruct ct as [d e|cls].
    + destruct (sweep_file c now r) as [st r']. cbn [snd]. unfold file_keep in Hk. cbn [snd] in Hk.
      destruct (e <? now); [discriminate|]. cbn [lookup]. rewrite Z.eqb_refl. reflexivity.
    + destruct (caught c cls); [destruct (sweep_file c now r) as [st r']|]; cbn [snd lookup];
        rewrite Z.eqb_refl; reflexivity.
  - specialize (IH H Hk). destruct x as [d e|cls].
    + destruct (sweep_file c now r) as [st r']. cbn [snd] in *.
      destruct (e <? now); [exact IH|]. cbn [lookup]. rewrite E. exact IH.
    + destruct (caught c cls).
      * destruct (sweep_file c now r) as [st r']. cbn [snd lookup] in *. rewrite E. exact IH.
      * cbn [snd lookup]. rewrite E. exact H.
Qed.

Lemma sweep_exact (c : cfg) (w : world) (w' : world) :
  sweep c w = (SOk, w') ->
  (forall i d e, In (i, Good d e) (w_store w') -> w_now w <= e)
  /\ (forall i ct, lookup i (w_store w) = Some ct ->
        (forall d e, ct = Good d e -> w_now w < e) -> lookup i (w_store w') = Some ct)
  /\ (forall en, In en (w_store w') -> In en (w_store w))
  /\ w_now w' = w_now w /\ w_rng w' = w_rng w.
Proof.
  unfold sweep. destruct (c_file c).
  - destruct (sweep_file c (w_now w) (w_store w)) as [st s'] eqn:E. intro H. injection H as -> <-.
    cbn [w_store w_now w_rng]. rewrite (sweep_file_ok _ _ _ _ E).
    split; [|split; [|split; [|split; reflexivity]]].
    + intros i d e H. apply filter_In in H. destruct H as [_ H]. unfold file_keep in H. cbn [snd] in H.
      destruct (e <? w_now w) eqn:L; [discriminate|]. apply Z.ltb_ge in L. exact L.
    + intros i ct H Hg. apply lookup_filter_keep; [exact H|]. unfold file_keep. cbn [snd].
      destruct ct as [d e|cls]; [|reflexivity]. specialize (Hg d e eq_refl).
      destruct (e <? w_now w) eqn:L; [apply Z.ltb_lt in L; lia|reflexivity].
    + intros en H. apply filter_In in H. tauto.
  - intro H. injection H as <-. cbn [w_store w_now w_rng]. unfold sweep_ram.
    split; [|split; [|split; [|split; reflexivity]]].
    + intros i d e H. apply filter_In in H. destruct H as [_ H]. unfold ram_keep in H. cbn [snd] in H.
      destruct (e <=? w_now w) eqn:L; [discriminate|]. apply Z.leb_gt in L. lia.
    + intros i ct H Hg. apply lookup_filter_keep; [exact H|]. unfold ram_keep. cbn [snd].
      destruct ct as [d e|cls]; [|reflexivity]. specialize (Hg d e eq_refl).
      destruct (e <=? w_now w) eqn:L; [apply Z.leb_le in L; lia|reflexivity].
    + intros en H. apply filter_In in H. tauto.
Qed.

(* ---------- unreadable files under the repaired handler ---------- *)

(** the assumed raise-set of pickle.load: every unreadable file makes it raise
    a subclass of Exception (classes 0..3) *)
Definition raise_set_ok (s : store) : Prop := forall i cls, In (i, Bad cls) s -> 0 <= cls <= 3.

Lemma caught_repaired (c : cfg) (cls : Z) : c_repaired c = true -> 0 <= cls <= 3 -> caught c cls = true.
Proof.
  intros R H. unfold caught. rewrite R. apply andb_true_intro. split; [apply Z.leb_le|apply Z.leb_le]; lia.
Qed.

Lemma load_raw_no_raise (c : cfg) (i : Z) (s : store) :
  c_repaired c = true -> raise_set_ok s -> forall cls, load_raw c i s <> LRaise cls.
Proof.
  intros R H cls. unfold load_raw. destruct (lookup i s) as [[d e|k]|] eqn:E; try discriminate.
  rewrite (caught_repaired c k R (H _ _ (lookup_In _ _ _ E))). discriminate.
Qed.

Lemma load_raw_torn (c : cfg) (i : Z) (s : store) (cls : Z) :
  c_repaired c = true -> raise_set_ok s -> lookup i s = Some (Bad cls) -> load_raw c i s = LNone.
Proof.
  intros R H E. unfold load_raw. rewrite E.
  rewrite (caught_repaired c cls R (H _ _ (lookup_In _ _ _ E))). reflexivity.
Qed.

Definition not_raised (st : status) : Prop := forall cls, st <> SRaised cls.

Lemma ensure_loaded_no_raise (c : cfg) (w : world) (x : sess) :
  c_repaired c = true -> raise_set_ok (w_store w) -> not_raised (fst (ensure_loaded c w x)).
Proof.
  intros R H cls. unfold ensure_loaded. destruct (x_loaded x); [discriminate|].
  destruct (load_raw c (x_id x) (w_store w)) eqn:E; try discriminate.
  exfalso. exact (load_raw_no_raise c _ _ R H _ E).
Qed.

Lemma raise_set_remove (i : Z) (s : store) : raise_set_ok s -> raise_set_ok (remove i s).
Proof. intros H j cls Hin. apply (H j cls). eapply remove_In; eauto. Qed.

Lemma raise_set_put_good (i : Z) d e (s : store) : raise_set_ok s -> raise_set_ok (put i (Good d e) s).
Proof.
  intros H j cls [Hin|Hin]; [discriminate|]. apply (H j cls). eapply remove_In; eauto.
Qed.

Lemma raise_set_put_bad (i : Z) k (s : store) :
  0 <= k <= 3 -> raise_set_ok s -> raise_set_ok (put i (Bad k) s).
Proof.
  intros Hk H j cls [Hin|Hin]; [injection Hin as <- <-; exact Hk|]. apply (H j cls). eapply remove_In; eauto.
Qed.

Lemma act_no_raise (c : cfg) (a : act) (w : world) (x : sess) st w1 x1 o :
  c_repaired c = true -> raise_set_ok (w_store w) ->
  do_act c a w x = (st, w1, x1, o) -> not_raised st /\ raise_set_ok (w_store w1).
Proof.
  intros R H. pose proof (ensure_loaded_no_raise c w x R H) as NL.
  destruct a; cbn [do_act]; intro E.
  - destruct (ensure_loaded c w x) as [st' x']. injection E as <- <- <- <-. split; [exact NL|exact H].
  - destruct (ensure_loaded c w x) as [st' x']. cbn [fst] in NL.
    destruct st'; injection E as <- <- <- <-; (split; [|exact H]); [discriminate|exact NL|discriminate].
  - destruct (ensure_loaded c w x) as [st' x']. cbn [fst] in NL.
    destruct st'; injection E as <- <- <- <-; (split; [|exact H]); [discriminate|exact NL|discriminate].
  - destruct (gen_id (remove (x_id x) (w_store w)) (w_rng w)) as [[i|] r];
      injection E as <- <- <- <-; cbn [w_store]; (split; [discriminate|apply raise_set_remove; exact H]).
  - injection E as <- <- <- <-. split; [discriminate|exact H].
  - injection E as <- <- <- <-. split; [discriminate|exact H].
Qed.

Lemma acts_no_raise (c : cfg) (acts : list act) : forall w x outs st w1 x1 outs1,
  c_repaired c = true -> raise_set_ok (w_store w) ->
  do_acts c acts w x outs = (st, w1, x1, outs1) -> not_raised st /\ raise_set_ok (w_store w1).
Proof.
  induction acts as [|a r IH]; cbn [do_acts]; intros w x outs st w1 x1 outs1 R H E.
  - injection E as <- <- <- <-. split; [discriminate|exact H].
  - destruct (do_act c a w x) as [[[st' w'] x'] o] eqn:A.
    destruct (act_no_raise _ _ _ _ _ _ _ _ R H A) as [N H'].
    destruct st'.
    + eapply IH; eauto.
    + exfalso. exact (N cls eq_refl).
    + injection E as <- <- <- <-. split; [discriminate|exact H'].
Qed.

Lemma req_no_raise (c : cfg) (w : world) (cookie : option Z) (acts : list act) rp w' :
  c_repaired c = true -> raise_set_ok (w_store w) ->
  do_req c w cookie acts = (rp, w') -> not_raised (r_status rp) /\ raise_set_ok (w_store w').
Proof.
  intros R H. unfold do_req. destruct (begin_req w cookie) as [[st0 w1] i] eqn:B.
  assert (H1 : raise_set_ok (w_store w1)).
  { unfold begin_req in B. destruct cookie as [p|]; [destruct (mem p (w_store w))|];
      try (injection B as <- <- <-; exact H);
      destruct (gen_id (w_store w) (w_rng w)) as [[j|] r]; injection B as <- <- <-; exact H. }
  assert (N0 : not_raised st0).
  { unfold begin_req in B. destruct cookie as [p|]; [destruct (mem p (w_store w))|];
      try (injection B as <- <- <-; discriminate);
      destruct (gen_id (w_store w) (w_rng w)) as [[j|] r]; injection B as <- <- <-; discriminate. }
  destruct st0.
  - destruct (do_acts c acts w1 (Sess i [] false false) []) as [[[st w2] x] outs] eqn:E.
    destruct (acts_no_raise _ _ _ _ _ _ _ _ _ R H1 E) as [N H2].
    destruct st; intro K; injection K as <- <-; cbn [r_status].
    + split; [discriminate|]. unfold save. destruct (x_loaded x); [|exact H2].
      cbn [w_store]. apply raise_set_put_good. exact H2.
    + split; [exact N|exact H2].
    + split; [discriminate|exact H2].
  - exfalso. exact (N0 cls eq_refl).
  - intro K. injection K as <- <-. cbn [r_status]. split; [discriminate|exact H1].
Qed.

(** under the repaired handler the file sweep never stops *)
Lemma sweep_file_total (c : cfg) (now : Z) (l : store) :
  c_repaired c = true -> raise_set_ok l -> fst (sweep_file c now l) = SOk.
Proof.
  intros R. induction l as [|[i ct] r IH]; cbn [sweep_file]; intro H; [reflexivity|].
  assert (Hr : raise_set_ok r) by (intros j cls Hin; apply (H j cls); right; exact Hin).
  specialize (IH Hr). destruct ct as [d e|cls].
  - destruct (sweep_file c now r) as [st r']. exact IH.
  - rewrite (caught_repaired c cls R (H i cls (or_introl eq_refl))).
    destruct (sweep_file c now r) as [st r']. exact IH.
Qed.

Lemma sweep_total (c : cfg) (w : world) :
  c_repaired c = true -> raise_set_ok (w_store w) ->
  fst (sweep c w) = SOk /\ raise_set_ok (w_store (snd (sweep c w))).
Proof.
  intros R H. unfold sweep. destruct (c_file c).
  - pose proof (sweep_file_total c (w_now w) (w_store w) R H) as T.
    destruct (sweep_file c (w_now w) (w_store w)) as [st s'] eqn:E. cbn [fst snd w_store] in *.
    split; [exact T|]. subst st. rewrite (sweep_file_ok _ _ _ _ E).
    intros j cls Hin. apply filter_In in Hin. apply (H j cls). tauto.
  - cbn [fst snd w_store]. split; [reflexivity|]. unfold sweep_ram.
    intros j cls Hin. apply filter_In in Hin. apply (H j cls). tauto.
Qed.

(** histories: no operation of any history ever fails with an escaped
    exception, provided the damage inflicted stays inside the raise-set *)
Fixpoint tears_ok (ops : list op) : Prop :=
  match ops with
  | [] => True
  | OTear _ cls :: r => 0 <= cls <= 3 /\ tears_ok r
  | _ :: r => tears_ok r
  end.

Lemma step_no_raise (c : cfg) (o : op) (w : world) rp w' :
  c_repaired c = true -> raise_set_ok (w_store w) -> tears_ok [o] ->
  step c o w = (rp, w') -> not_raised (r_status rp) /\ raise_set_ok (w_store w').
Proof.
  intros R H T. destruct o; cbn [step].
  - apply req_no_raise; assumption.
  - intro E. injection E as <- <-. split; [discriminate|exact H].
  - destruct (sweep_total c w R H) as [S1 S2]. destruct (sweep c w) as [st w1]. cbn [fst snd] in *.
    intro E. injection E as <- <-. cbn [r_status]. subst st. split; [discriminate|exact S2].
  - intro E. injection E as <- <-. split; [discriminate|].
    destruct (c_file c); [|exact H]. cbn [w_store]. apply raise_set_put_bad; [|exact H].
    cbn [tears_ok] in T. tauto.
Qed.

Lemma run_no_raise (c : cfg) (ops : list op) : forall w rs w',
  c_repaired c = true -> raise_set_ok (w_store w) -> tears_ok ops ->
  run c ops w = (rs, w') -> Forall (fun rp => not_raised (r_status rp)) rs /\ raise_set_ok (w_store w').
Proof.
  induction ops as [|o r IH]; cbn [run]; intros w rs w' R H T E.
  - injection E as <- <-. split; [constructor|exact H].
  - destruct (step c o w) as [rp w1] eqn:S. destruct (run c r w1) as [rs2 w2] eqn:E2.
    injection E as <- <-.
    assert (T1 : tears_ok [o]) by (destruct o; cbn [tears_ok] in *; tauto).
    assert (T2 : tears_ok r) by (destruct o; cbn [tears_ok] in *; tauto).
    destruct (step_no_raise _ _ _ _ _ R H T1 S) as [N H1].
    destruct (IH _ _ _ R H1 T2 E2) as [F H2]. split; [constructor; assumption|exact H2].
Qed.
