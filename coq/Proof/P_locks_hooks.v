(** C13, part (b): whatever way a request ends, its session lock is released after close().
    The quantifier domain (locking mode x outcome x fault placement) is finite; each case is
    evaluated by the kernel. *)
From Coq Require Import ZArith List Bool.
From CV Require Import Lib.Sx Lib.ListZ Model.M_locks.
Import ListNotations.
Open Scope Z_scope.

Definition released (b : bk) : Prop := b_locked b = false /\ b_count b = 0 /\ b_leak b = 0.

Theorem thm_released_pipeline : forall m o fl, released (run_request session_hooks m o fl).
Proof.
  intros m o [e sv f]. unfold released.
  destruct m, o, e, sv, f; vm_compute; repeat split; reflexivity.
Qed.

(** ... and when the body is not streamed and nothing fails, already at the end of before_finalize
    (probe 3 runs at before_finalize after sessions.save): the lock is not held while the response
    is written out *)
Definition probe3_free (b : bk) : bool :=
  forallb (fun e => match e with [p; l; c] => negb (p =? 3) || ((l =? 0) && (c =? 0)) | _ => true end) (b_obs b).

Theorem thm_released_before_body : forall m o,
  is_stream o = false -> probe3_free (run_request session_hooks m o (FL false false false)) = true.
Proof. intros m o. destruct m, o; intros H; try discriminate; vm_compute; reflexivity. Qed.

(** the theorem depends on the hook table: with close() not failsafe a failing earlier
    on_end_request hook leaves the lock held (used in Refuted/R_C13.v) *)
Definition hooks_close_not_failsafe : list hrow :=
  [ HR 0 1 1 50 false; HR 1 2 2 50 false; HR 2 1 2 60 false; HR 0 3 3 50 true; HR 0 5 4 90 false ].
