(** Lemmas about the header sinks of M_headers: control-character deletion,
    base64 alphabet and round trip, RFC 2047 words, finalize (repaired variant). *)
From Coq Require Import ZArith List Bool Lia.
From CV Require Import Lib.Sx Lib.ListZ LibP.ListZ_facts Model.M_headers.
Import ListNotations.
Open Scope Z_scope.

Ltac Zify.zify_post_hook ::= Z.to_euclidean_division_equations.

Ltac all_lia := repeat (apply Forall_cons; [lia|]); try apply Forall_nil.

(** a byte that may appear in a status line, header name or header value *)
Definition clean (b : Z) : Prop := 32 <= b /\ b <> 127.
Definition byte (b : Z) : Prop := 0 <= b < 256.

Lemma memZ_In x l : memZ x l = true <-> In x l.
Proof.
  induction l as [|y r IH]; cbn [memZ In].
  - split; [discriminate | tauto].
  - rewrite orb_true_iff, IH, Z.eqb_eq. split; intros [H|H]; auto.
Qed.

(** the checker of tie_deletechars: every control character is in the table *)
Definition ctl_covered (del : list Z) : bool := forallb (fun b => memZ b del) deletechars.

Lemma ctl_in_table b : 0 <= b < 32 \/ b = 127 -> In b deletechars.
Proof.
  intros H.
  assert (E : memZ b deletechars = true).
  { assert (C : b = 0 \/ b = 1 \/ b = 2 \/ b = 3 \/ b = 4 \/ b = 5 \/ b = 6 \/ b = 7 \/ b = 8 \/ b = 9
                \/ b = 10 \/ b = 11 \/ b = 12 \/ b = 13 \/ b = 14 \/ b = 15 \/ b = 16 \/ b = 17 \/ b = 18
                \/ b = 19 \/ b = 20 \/ b = 21 \/ b = 22 \/ b = 23 \/ b = 24 \/ b = 25 \/ b = 26 \/ b = 27
                \/ b = 28 \/ b = 29 \/ b = 30 \/ b = 31 \/ b = 127) by lia.
    repeat (destruct C as [->|C]; [reflexivity|]). subst b. reflexivity. }
  now apply memZ_In.
Qed.

Lemma ctl_covered_sound del : ctl_covered del = true ->
  forall b, 0 <= b < 32 \/ b = 127 -> In b del.
Proof.
  unfold ctl_covered. rewrite forallb_forall. intros H b Hb.
  apply memZ_In, H, ctl_in_table, Hb.
Qed.

Lemma ctl_covered_model : ctl_covered deletechars = true.
Proof. vm_compute. reflexivity. Qed.

Lemma delete_clean del bs : ctl_covered del = true ->
  Forall (fun b => 0 <= b) bs -> Forall clean (delete del bs).
Proof.
  intros Hc Hb. unfold delete. apply Forall_forall. intros b Hin.
  apply filter_In in Hin. destruct Hin as [Hin Hm].
  rewrite Forall_forall in Hb. specialize (Hb b Hin).
  apply negb_true_iff in Hm.
  unfold clean. split.
  - destruct (Z.lt_ge_cases b 32) as [Hlt|]; [|assumption].
    exfalso. assert (In b del) by (apply (ctl_covered_sound del Hc); lia).
    apply memZ_In in H. congruence.
  - intros ->. assert (In 127 del) by (apply (ctl_covered_sound del Hc); lia).
    apply memZ_In in H. congruence.
Qed.

Lemma delete_sub del bs b : In b (delete del bs) -> In b bs /\ ~ In b del.
Proof.
  unfold delete. intros H. apply filter_In in H. destruct H as [H1 H2]. split; [assumption|].
  intros Hd. apply memZ_In in Hd. rewrite Hd in H2. discriminate.
Qed.

(** * base64 *)
Definition b64alpha (c : Z) : Prop :=
  65 <= c <= 90 \/ 97 <= c <= 122 \/ 48 <= c <= 57 \/ c = 43 \/ c = 47.

Lemma b64char_alpha n : 0 <= n < 64 -> b64alpha (b64char n).
Proof.
  intros H. unfold b64char, b64alpha.
  destruct (n <? 26) eqn:E1; [apply Z.ltb_lt in E1; lia|apply Z.ltb_ge in E1].
  destruct (n <? 52) eqn:E2; [apply Z.ltb_lt in E2; lia|apply Z.ltb_ge in E2].
  destruct (n <? 62) eqn:E3; [apply Z.ltb_lt in E3; lia|apply Z.ltb_ge in E3].
  destruct (n =? 62); lia.
Qed.

Lemma b64val_char n : 0 <= n < 64 -> b64val (b64char n) = Some n.
Proof.
  intros H. unfold b64char.
  destruct (n <? 26) eqn:E1; [apply Z.ltb_lt in E1|apply Z.ltb_ge in E1].
  { unfold b64val. replace ((65 <=? 65 + n) && (65 + n <=? 90)) with true by (symmetry; apply andb_true_iff; split; apply Z.leb_le; lia).
    f_equal. lia. }
  destruct (n <? 52) eqn:E2; [apply Z.ltb_lt in E2|apply Z.ltb_ge in E2].
  { unfold b64val.
    replace ((65 <=? 71 + n) && (71 + n <=? 90)) with false by (symmetry; apply andb_false_iff; right; apply Z.leb_gt; lia).
    replace ((97 <=? 71 + n) && (71 + n <=? 122)) with true by (symmetry; apply andb_true_iff; split; apply Z.leb_le; lia).
    f_equal. lia. }
  destruct (n <? 62) eqn:E3; [apply Z.ltb_lt in E3|apply Z.ltb_ge in E3].
  { unfold b64val.
    replace ((65 <=? n - 4) && (n - 4 <=? 90)) with false by (symmetry; apply andb_false_iff; left; apply Z.leb_gt; lia).
    replace ((97 <=? n - 4) && (n - 4 <=? 122)) with false by (symmetry; apply andb_false_iff; left; apply Z.leb_gt; lia).
    replace ((48 <=? n - 4) && (n - 4 <=? 57)) with true by (symmetry; apply andb_true_iff; split; apply Z.leb_le; lia).
    f_equal. lia. }
  destruct (n =? 62) eqn:E4; [apply Z.eqb_eq in E4; subst n; reflexivity|apply Z.eqb_neq in E4].
  assert (n = 63) by lia. subst n. reflexivity.
Qed.

Lemma list_ind3 {A} (P : list A -> Prop) :
  P [] -> (forall a, P [a]) -> (forall a b, P [a; b]) ->
  (forall a b c r, P r -> P (a :: b :: c :: r)) -> forall l, P l.
Proof.
  intros H0 H1 H2 H3. fix IH 1.
  intros [|a [|b [|c r]]]; [apply H0|apply H1|apply H2|apply H3; apply IH].
Qed.

Lemma mod64 x : 0 <= x mod 64 < 64.
Proof. apply Z.mod_pos_bound. lia. Qed.

Lemma b64alpha_clean c : b64alpha c -> clean c /\ byte c.
Proof. unfold b64alpha, clean, byte. lia. Qed.

Lemma b64enc_alpha l : Forall (fun c => b64alpha c \/ c = 61) (b64enc l).
Proof.
  assert (A : forall x, b64alpha (b64char (x mod 64)) \/ b64char (x mod 64) = 61)
    by (intros x; left; apply b64char_alpha, mod64).
  assert (B : forall x : Z, b64alpha 61 \/ 61 = 61) by (intros; now right).
  induction l as [|a|a b|a b c r IH] using list_ind3; cbn [b64enc].
  - constructor.
  - apply Forall_cons; [apply A|]. apply Forall_cons; [apply A|].
    apply Forall_cons; [apply (B 0)|]. apply Forall_cons; [apply (B 0)|]. constructor.
  - apply Forall_cons; [apply A|]. apply Forall_cons; [apply A|].
    apply Forall_cons; [apply A|]. apply Forall_cons; [apply (B 0)|]. constructor.
  - apply Forall_cons; [apply A|]. apply Forall_cons; [apply A|].
    apply Forall_cons; [apply A|]. apply Forall_cons; [apply A|]. exact IH.
Qed.

(** the decoder inverts the encoder on byte strings *)
Lemma b64char_ne61 x : 0 <= x < 64 -> (b64char x =? 61) = false.
Proof.
  intros H. apply Z.eqb_neq. pose proof (b64char_alpha x H) as A. unfold b64alpha in A. lia.
Qed.

Lemma b64_roundtrip l : Forall byte l -> b64dec (b64enc l) = Some l.
Proof.
  induction l as [|a|a b|a b c r IH] using list_ind3; intros Hb.
  - reflexivity.
  - inversion Hb as [|? ? Ha _]; subst. unfold byte in Ha.
    cbn [b64enc b64dec]. rewrite !b64val_char by apply mod64.
    rewrite !Z.eqb_refl. cbn [andb]. f_equal. f_equal. lia.
  - inversion Hb as [|? ? Ha Hb']; subst. inversion Hb' as [|? ? Hb2 _]; subst.
    unfold byte in *. cbn [b64enc b64dec]. rewrite !b64val_char by apply mod64.
    rewrite (b64char_ne61 _ (mod64 (b mod 16 * 4))). rewrite !Z.eqb_refl. cbn [andb].
    f_equal. f_equal; [lia|]. f_equal. lia.
  - inversion Hb as [|? ? Ha Hb']; subst. inversion Hb' as [|? ? Hb2 Hb'']; subst.
    inversion Hb'' as [|? ? Hc Hr]; subst. unfold byte in *.
    assert (M : 0 <= c mod 64 < 64) by (apply Z.mod_pos_bound; lia).
    cbn [b64enc b64dec]. rewrite !b64val_char by (try apply mod64; exact M).
    rewrite (b64char_ne61 _ (mod64 (b mod 16 * 4 + c / 64))).
    rewrite (b64char_ne61 _ M). cbn [andb]. rewrite (IH Hr).
    f_equal. f_equal; [lia|]. f_equal; [lia|]. f_equal. lia.
Qed.

(** * UTF-8 produces bytes *)
Lemma Some_inj {A} (a b : A) : Some a = Some b -> a = b.
Proof. congruence. Qed.
Lemma Ok_inj {A} (a b : A) : Ok a = Ok b -> a = b.
Proof. congruence. Qed.

Lemma utf8_cp_bytes c bs : utf8_cp c = Some bs -> Forall byte bs.
Proof.
  unfold utf8_cp, byte.
  destruct (c <? 0) eqn:E0; [discriminate|apply Z.ltb_ge in E0].
  destruct (c <? 128) eqn:E1; [apply Z.ltb_lt in E1|apply Z.ltb_ge in E1].
  { intros H; apply Some_inj in H; subst bs. all_lia. }
  destruct (c <? 2048) eqn:E2; [apply Z.ltb_lt in E2|apply Z.ltb_ge in E2].
  { intros H; apply Some_inj in H; subst bs. all_lia. }
  destruct (c <? 65536) eqn:E3; [apply Z.ltb_lt in E3|apply Z.ltb_ge in E3].
  { destruct (is_surrogate c); [discriminate|].
    intros H; apply Some_inj in H; subst bs. all_lia. }
  destruct (c <? 1114112) eqn:E4; [apply Z.ltb_lt in E4|discriminate].
  intros H; apply Some_inj in H; subst bs. all_lia.
Qed.

Lemma utf8_bytes s bs : utf8 s = Some bs -> Forall byte bs.
Proof.
  revert bs; induction s as [|c r IH]; intros bs; cbn [utf8].
  - intros [= <-]. constructor.
  - destruct (utf8_cp c) as [a|] eqn:Ea; [|discriminate].
    destruct (utf8 r) as [b|] eqn:Eb; [|discriminate].
    intros [= <-]. apply Forall_app. split; [eapply utf8_cp_bytes; eassumption|now apply IH].
Qed.

(** * encode: the result is bytes; an encoded word is printable ASCII *)
Lemma is_latin1_bytes v : is_latin1 v = true -> Forall byte v.
Proof.
  unfold is_latin1. rewrite forallb_forall, Forall_forall. intros H x Hx.
  specialize (H x Hx). apply andb_true_iff in H. destruct H as [H1 H2].
  apply Z.leb_le in H1. apply Z.ltb_lt in H2. unfold byte. lia.
Qed.

Lemma word_bytes bs : Forall byte (ew_prefix ++ b64enc bs ++ ew_suffix).
Proof.
  apply Forall_app. split; [unfold ew_prefix, byte; all_lia|].
  apply Forall_app. split; [|unfold ew_suffix, byte; all_lia].
  eapply Forall_impl; [|apply b64enc_alpha]. intros c [H| ->]; [apply b64alpha_clean, H|unfold byte; lia].
Qed.

Lemma word_clean bs : Forall clean (ew_prefix ++ b64enc bs ++ ew_suffix).
Proof.
  apply Forall_app. split; [unfold ew_prefix, clean; all_lia|].
  apply Forall_app. split; [|unfold ew_suffix, clean; all_lia].
  eapply Forall_impl; [|apply b64enc_alpha]. intros c [H| ->]; [apply b64alpha_clean, H|unfold clean; lia].
Qed.

Lemma encode_bytes rfc v bs : encode rfc v = Ok bs -> Forall byte bs.
Proof.
  unfold encode. destruct (is_latin1 v) eqn:E.
  - intros [= <-]. now apply is_latin1_bytes.
  - destruct rfc; [|discriminate]. destruct (utf8 v); [|discriminate].
    intros [= <-]. apply word_bytes.
Qed.

Lemma byte_nonneg l : Forall byte l -> Forall (fun b => 0 <= b) l.
Proof. apply Forall_impl. unfold byte. intros; lia. Qed.

(** c12_header_items_clean *)
Lemma header_item_clean del isb item out :
  ctl_covered del = true ->
  (isb = true -> Forall (fun b => 0 <= b) item) ->
  encode_header_item del isb item = Ok out -> Forall clean out.
Proof.
  intros Hc Hb. unfold encode_header_item. destruct isb.
  - intros [= <-]. apply delete_clean; auto.
  - destruct (encode true item) as [bs| |] eqn:E; cbn [bind]; try discriminate.
    intros [= <-]. apply delete_clean; [assumption|]. apply byte_nonneg. eapply encode_bytes; eassumption.
Qed.

Definition item_wf (it : hitem) : Prop :=
  (h_nb it = true -> Forall (fun b => 0 <= b) (h_name it)) /\
  (h_vb it = true -> Forall (fun b => 0 <= b) (h_val it)).

Definition pair_clean (p : list Z * list Z) : Prop := Forall clean (fst p) /\ Forall clean (snd p).

Lemma output_clean del items out :
  ctl_covered del = true -> Forall item_wf items ->
  output del items = Ok out -> Forall pair_clean out.
Proof.
  intros Hc. revert out. induction items as [|it r IH]; intros out Hwf; cbn [output].
  - intros [= <-]. constructor.
  - inversion Hwf as [|? ? [Hn Hv] Hr]; subst.
    destruct (encode_header_item del (h_nb it) (h_name it)) as [n| |] eqn:En; cbn [bind]; try discriminate.
    destruct (encode_header_item del (h_vb it) (h_val it)) as [v| |] eqn:Ev; cbn [bind]; try discriminate.
    destruct (output del r) as [t| |] eqn:Et; cbn [bind]; try discriminate.
    intros [= <-]. constructor.
    + split; cbn [fst snd].
      * eapply header_item_clean; [exact Hc|exact Hn|exact En].
      * eapply header_item_clean; [exact Hc|exact Hv|exact Ev].
    + apply IH; auto.
Qed.

(** * finalize, repaired variant *)
Lemma dec3_clean code : 100 <= code <= 999 -> Forall clean (dec3 code).
Proof. intros H. unfold dec3, clean. all_lia. Qed.

Lemma status_line_clean del code reason st :
  ctl_covered del = true -> 100 <= code <= 999 ->
  status_line true del code reason = Ok st -> Forall clean st.
Proof.
  intros Hc Hcode. unfold status_line.
  destruct (encode_header_item del false reason) as [r| |] eqn:E; cbn [bind]; try discriminate.
  intros H; apply Ok_inj in H; subst st. apply Forall_app. split; [now apply dec3_clean|].
  constructor; [unfold clean; lia|]. eapply header_item_clean; [exact Hc| |exact E]. discriminate.
Qed.

Lemma cookie_lines_repaired_clean del morsels cs :
  ctl_covered del = true ->
  cookie_lines_repaired del morsels = Ok cs ->
  Forall pair_clean cs /\ map fst cs = map (fun _ => delete del set_cookie) morsels.
Proof.
  intros Hc. revert cs. induction morsels as [|m r IH]; intros cs; cbn [cookie_lines_repaired].
  - intros [= <-]. split; [constructor|reflexivity].
  - destruct (encode_header_item del false set_cookie) as [n| |] eqn:En; cbn [bind]; try discriminate.
    destruct (encode_header_item del false m) as [v| |] eqn:Ev; cbn [bind]; try discriminate.
    destruct (cookie_lines_repaired del r) as [t| |] eqn:Et; cbn [bind]; try discriminate.
    intros [= <-]. destruct (IH t eq_refl) as [IH1 IH2]. split.
    + constructor; [|assumption]. split; cbn [fst snd].
      * eapply header_item_clean; [exact Hc| |exact En]. discriminate.
      * eapply header_item_clean; [exact Hc| |exact Ev]. discriminate.
    + cbn [map fst]. rewrite IH2. f_equal.
      unfold encode_header_item, encode in En. cbn in En. now inversion En.
Qed.

Lemma finalize_repaired_clean del code reason items morsels st hs :
  ctl_covered del = true -> 100 <= code <= 999 -> Forall item_wf items ->
  finalize true del code reason items morsels = Ok (st, hs) ->
  Forall clean st /\ Forall pair_clean hs /\
  exists hs1 cs, hs = hs1 ++ cs /\ output del items = Ok hs1
                 /\ map fst cs = map (fun _ => delete del set_cookie) morsels.
Proof.
  intros Hc Hcode Hwf. unfold finalize.
  destruct (status_line true del code reason) as [st'| |] eqn:Es; cbn [bind]; try discriminate.
  destruct (output del items) as [hs1| |] eqn:Eo; cbn [bind]; try discriminate.
  unfold cookie_lines.
  destruct (cookie_lines_repaired del morsels) as [cs| |] eqn:Ec; cbn [bind]; try discriminate.
  intros [= <- <-]. destruct (cookie_lines_repaired_clean _ _ _ Hc Ec) as [C1 C2].
  split; [eapply status_line_clean; eauto|]. split.
  - apply Forall_app. split; [eapply output_clean; eauto|assumption].
  - exists hs1, cs. auto.
Qed.

(** * RFC 2047: non-Latin-1 text is emitted as an encoded word whose payload decodes to the original *)
Lemma encode_word v bs :
  is_latin1 v = false -> utf8 v = Some bs ->
  encode true v = Ok (ew_prefix ++ b64enc bs ++ ew_suffix) /\ b64dec (b64enc bs) = Some bs.
Proof.
  intros Hl Hu. unfold encode. rewrite Hl, Hu. split; [reflexivity|].
  apply b64_roundtrip. eapply utf8_bytes; eassumption.
Qed.

Lemma encode_total_cases v :
  (exists bs, encode true v = Ok bs) \/ (encode true v = EUnicode /\ utf8 v = None).
Proof.
  unfold encode. destruct (is_latin1 v); [left; eauto|].
  destruct (utf8 v); [left; eauto|right; auto].
Qed.
