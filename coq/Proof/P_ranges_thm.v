(** Statements about _serve_fileobj (Model.M_ranges.serve) in the repaired configuration. *)
From Coq Require Import ZArith List Bool Lia.
From CV Require Import Lib.Sx Lib.ListZ LibP.ListZ_facts Model.M_ranges Proof.P_ranges.
Import ListNotations.
Open Scope Z_scope.

Lemma thm_http10_whole : forall c range content ctype boundary,
  serve c false range content ctype boundary = SvWhole content.
Proof. reflexivity. Qed.

(** 'bytes a-(b-1)/len' *)
Definition content_range_text (a b len : Z) : list Z :=
  dec_Z a ++ [ch_dash] ++ dec_Z (b - 1) ++ [47] ++ dec_Z len.

(** one body part of a multipart/byteranges answer, spelled out *)
Definition part_text (boundary ctype content : list Z) (r : Z * Z) : list Z :=
  s_dd ++ boundary ++ s_ctype_hdr ++ ctype ++ s_crange_hdr
  ++ content_range_text (fst r) (snd r) (lenZ content) ++ s_crlf2
  ++ sliceZ (fst r) (snd r) content ++ s_crlf.

Lemma part_bytes_text boundary ctype content r :
  part_bytes boundary ctype content (lenZ content) r = part_text boundary ctype content r.
Proof. destruct r as [a b]. reflexivity. Qed.

Lemma lenZ_slice {A} (l : list A) a b : 0 <= a -> a <= b -> b <= lenZ l -> lenZ (sliceZ a b l) = b - a.
Proof.
  intros Ha Hab Hb. unfold sliceZ. rewrite lenZ_takeZ, lenZ_dropZ. lia.
Qed.

Lemma serve_cases_fixed h content ctype boundary :
  serve cfg_fixed true h content ctype boundary =
  match get_ranges cfg_fixed h (lenZ content) with
  | GrCrash w => SvCrash w
  | GrNone => SvWhole content
  | GrList [] => Sv416 (s_bytes_star ++ dec_Z (lenZ content))
  | GrList [(start, stop)] =>
    let stop := if lenZ content <? stop then lenZ content else stop in
    SvSingle (s_bytes_sp ++ range_text start stop (lenZ content)) (stop - start)
             (read_at content start (stop - start))
  | GrList rs => SvMulti (s_mp_ct ++ boundary) (multipart_body boundary ctype content (lenZ content) rs)
  end.
Proof. reflexivity. Qed.

(** single range: truthful Content-Range, exact slice, for EVERY header value *)
Theorem thm_206_single : forall h content ctype boundary cr n body,
  serve cfg_fixed true h content ctype boundary = SvSingle cr n body ->
  exists a b,
    get_ranges cfg_fixed h (lenZ content) = GrList [(a, b)]
    /\ 0 <= a /\ a < b /\ b <= lenZ content
    /\ cr = s_bytes_sp ++ content_range_text a b (lenZ content)
    /\ n = b - a
    /\ body = sliceZ a b content
    /\ lenZ body = b - a.
Proof.
  intros h content ctype boundary cr n body. rewrite serve_cases_fixed.
  destruct (get_ranges cfg_fixed h (lenZ content)) as [|w|l] eqn:E; try discriminate.
  pose proof (get_ranges_fixed_ok h (lenZ content) l (lenZ_nonneg content) E) as Hok.
  destruct l as [|[a b] [|r2 l]]; try discriminate.
  inversion Hok as [|x y Hab _]; subst. destruct Hab as (Ha & Hab & Hb). cbn [fst snd] in *.
  destruct (lenZ content <? b) eqn:C; [apply Z.ltb_lt in C; lia|].
  cbv zeta. intros [= <- <- <-].
  exists a, b. repeat split; try assumption; try reflexivity.
  unfold read_at. change (takeZ (b - a) (dropZ a content)) with (sliceZ a b content).
  apply lenZ_slice; lia.
Qed.

(** several ranges: every part announces and carries exactly its slice *)
Theorem thm_206_multi : forall h content ctype boundary ct body,
  serve cfg_fixed true h content ctype boundary = SvMulti ct body ->
  exists parts,
    get_ranges cfg_fixed h (lenZ content) = GrList parts
    /\ (2 <= length parts)%nat
    /\ Forall (fun r => 0 <= fst r /\ fst r < snd r /\ snd r <= lenZ content
                        /\ lenZ (sliceZ (fst r) (snd r) content) = snd r - fst r) parts
    /\ ct = s_mp_ct ++ boundary
    /\ body = s_crlf ++ concat (map (part_text boundary ctype content) parts)
              ++ s_dd ++ boundary ++ s_dd ++ s_crlf.
Proof.
  intros h content ctype boundary ct body. rewrite serve_cases_fixed.
  destruct (get_ranges cfg_fixed h (lenZ content)) as [|w|l] eqn:E; try discriminate.
  pose proof (get_ranges_fixed_ok h (lenZ content) l (lenZ_nonneg content) E) as Hok.
  destruct l as [|[a b] [|r2 l]]; try discriminate.
  intros [= <- <-]. exists ((a, b) :: r2 :: l). split; [reflexivity|].
  split; [cbn [length]; lia|]. split.
  - eapply Forall_impl; [|exact Hok]. intros r (H1 & H2 & H3). repeat split; try assumption.
    apply lenZ_slice; lia.
  - split; [reflexivity|]. unfold multipart_body. f_equal. f_equal. f_equal.
    apply map_ext. intros r. apply part_bytes_text.
Qed.

(** 416 always names the current length *)
Theorem thm_416 : forall h content ctype boundary cr,
  serve cfg_fixed true h content ctype boundary = Sv416 cr ->
  get_ranges cfg_fixed h (lenZ content) = GrList [] /\ cr = s_bytes_star ++ dec_Z (lenZ content).
Proof.
  intros h content ctype boundary cr. rewrite serve_cases_fixed.
  destruct (get_ranges cfg_fixed h (lenZ content)) as [|w|l] eqn:E; try discriminate.
  destruct l as [|[a b] [|r2 l]]; try discriminate.
  intros [= <-]. auto.
Qed.

Lemma slices_nil len ss : slices len ss = [] <-> Forall (fun s => spec_slice len s = None) ss.
Proof.
  unfold slices. induction ss as [|s r IH]; cbn [flat_map]; [split; [constructor | reflexivity]|].
  destruct (spec_slice len s) as [p|] eqn:E.
  - split; [discriminate|]. intros H. inversion H; congruence.
  - cbn [app]. rewrite IH. split; [now constructor | intros H; now inversion H].
Qed.

(** a header from the grammar is answered 416 exactly when no spec is invalid and no spec
    selects a byte *)
Theorem thm_416_grammar : forall u ts content ctype boundary,
  unit_is_bytes u = true -> ts <> [] -> forallb wf_tspec ts = true ->
  (serve cfg_fixed true (Some (render_header u ts)) content ctype boundary
   = Sv416 (s_bytes_star ++ dec_Z (lenZ content))
   <-> existsb (spec_invalid (lenZ content)) (map abs_spec ts) = false
       /\ Forall (fun s => spec_slice (lenZ content) s = None) (map abs_spec ts)).
Proof.
  intros u ts content ctype boundary Hu Hne Hwf. rewrite serve_cases_fixed.
  rewrite (thm_ranges_spec u ts (lenZ content) Hu Hne Hwf (lenZ_nonneg content)).
  unfold ranges_spec. rewrite <- slices_nil.
  destruct (existsb (spec_invalid (lenZ content)) (map abs_spec ts)).
  - split; [discriminate | intros [? _]; discriminate].
  - destruct (slices (lenZ content) (map abs_spec ts)) as [|[a b] [|r2 l]].
    + split; auto.
    + split; [discriminate | intros [_ ?]; discriminate].
    + split; [discriminate | intros [_ ?]; discriminate].
Qed.

(** a header from the grammar with an invalid spec (last < first) is ignored *)
Theorem thm_grammar_invalid_whole : forall u ts content ctype boundary,
  unit_is_bytes u = true -> ts <> [] -> forallb wf_tspec ts = true ->
  existsb (spec_invalid (lenZ content)) (map abs_spec ts) = true ->
  serve cfg_fixed true (Some (render_header u ts)) content ctype boundary = SvWhole content.
Proof.
  intros u ts content ctype boundary Hu Hne Hwf Hinv. rewrite serve_cases_fixed.
  rewrite (thm_ranges_spec u ts (lenZ content) Hu Hne Hwf (lenZ_nonneg content)).
  unfold ranges_spec. now rewrite Hinv.
Qed.

(** no header value whatsoever makes the repaired code raise *)
Theorem thm_no_crash : forall clamp p h content ctype boundary w,
  serve (RCfg true clamp) p h content ctype boundary <> SvCrash w.
Proof.
  intros clamp p h content ctype boundary w. unfold serve. destruct p; [|discriminate].
  pose proof (get_ranges_strict_no_crash clamp h (lenZ content)) as H.
  destruct (get_ranges (RCfg true clamp) h (lenZ content)) as [|w'|l]; try discriminate.
  - now specialize (H w').
  - destruct l as [|[a b] [|r2 l]]; discriminate.
Qed.

(** syntactically invalid => ignored: no "=", a unit other than bytes, or a list element that
    is not  OWS digits OWS "-" OWS digits OWS  with at least one number *)
Definition piece_invalid (p : list Z) : bool :=
  match scan_spec p with
  | None => true
  | Some ([], []) => true
  | Some _ => false
  end.

Definition header_invalid (h : list Z) : bool :=
  match split1 ch_eq h with
  | None => true
  | Some (u, rest) => negb (unit_is_bytes u) || existsb piece_invalid (split_on ch_comma rest)
  end.

Lemma piece_invalid_none clamp len p : piece_invalid p = true -> spec_strict clamp len p = SNone.
Proof.
  unfold piece_invalid, spec_strict. destruct (scan_spec p) as [[[|c1 d1] [|c2 d2]]|]; try discriminate; reflexivity.
Qed.

Theorem thm_invalid_ignored : forall h content ctype boundary,
  header_invalid h = true ->
  serve cfg_fixed true (Some h) content ctype boundary = SvWhole content.
Proof.
  intros h content ctype boundary H. rewrite serve_cases_fixed.
  assert (G : get_ranges cfg_fixed (Some h) (lenZ content) = GrNone); [|now rewrite G].
  unfold header_invalid in H. unfold get_ranges. destruct h as [|c hv]; [reflexivity|].
  destruct (split1 ch_eq (c :: hv)) as [[u rest]|]; cbn [cfg_fixed f_strict f_clamp]; [|reflexivity].
  destruct (unit_is_bytes u); cbn [negb orb] in H; [|reflexivity].
  apply existsb_exists in H as (p & Hin & Hp).
  eapply gr_loop_void; [intros q w'; apply spec_strict_no_crash | exact Hin | now apply piece_invalid_none].
Qed.

(* ------------------------------------------------------------------ *)
(** * Completeness: what is not rejected as invalid IS a header of the grammar *)

Lemma split1_sound sep s a b : split1 sep s = Some (a, b) -> s = a ++ sep :: b.
Proof.
  revert a. induction s as [|c s IH]; cbn [split1]; intros a; [discriminate|].
  destruct (c =? sep) eqn:E.
  - apply Z.eqb_eq in E. subst. intros [= <- <-]. reflexivity.
  - destruct (split1 sep s) as [[a' b']|]; [|discriminate]. intros [= <- <-].
    cbn [app]. f_equal. now apply IH.
Qed.

Lemma split_on_ne sep s : split_on sep s <> [].
Proof.
  destruct s as [|c s]; cbn [split_on]; [discriminate|].
  destruct (c =? sep); [discriminate|]. destruct (split_on sep s); discriminate.
Qed.

Lemma join_cons_cons c p ps : join ((c :: p) :: ps) = c :: join (p :: ps).
Proof. cbn [join]. destruct ps; reflexivity. Qed.

Lemma join_split s : join (split_on ch_comma s) = s.
Proof.
  induction s as [|c s IH]; cbn [split_on]; [reflexivity|].
  destruct (c =? ch_comma) eqn:E.
  - apply Z.eqb_eq in E. subst c. cbn [join].
    destruct (split_on ch_comma s) eqn:F; [now apply split_on_ne in F|]. cbn [app]. now rewrite IH.
  - destruct (split_on ch_comma s) as [|p ps] eqn:F; [now apply split_on_ne in F|].
    rewrite join_cons_cons. now rewrite IH.
Qed.

Lemma skip_ows_split s : exists w, all_ows w = true /\ s = w ++ skip_ows s.
Proof.
  induction s as [|c s (w & Hw & E)]; cbn [skip_ows]; [exists []; auto|].
  destruct (is_ows c) eqn:C.
  - exists (c :: w). split; [unfold all_ows in *; cbn [forallb]; now rewrite C | cbn [app]; now f_equal].
  - exists []. auto.
Qed.

Lemma span_digits_split s d t : span_digits s = (d, t) -> s = d ++ t /\ all_digits d = true.
Proof.
  revert d t. induction s as [|c s IH]; cbn [span_digits]; intros d t.
  - intros [= <- <-]. auto.
  - destruct (is_digit c) eqn:C.
    + destruct (span_digits s) as [d' t']. intros [= <- <-].
      destruct (IH d' t' eq_refl) as [E H]. split; [cbn [app]; now f_equal|].
      unfold all_digits in *. cbn [forallb]. now rewrite C.
    + intros [= <- <-]. auto.
Qed.

Lemma piece_valid_render p : piece_invalid p = false -> exists t, wf_tspec t = true /\ render_spec t = p.
Proof.
  unfold piece_invalid, scan_spec.
  destruct (skip_ows_split p) as (w1 & W1 & E1).
  destruct (span_digits (skip_ows p)) as [d1 s2] eqn:S1.
  apply span_digits_split in S1 as [E2 D1].
  destruct (skip_ows_split s2) as (w2 & W2 & E3).
  destruct (skip_ows s2) as [|c s3]; [discriminate|].
  destruct (c =? ch_dash) eqn:C; [|discriminate]. apply Z.eqb_eq in C. subst c.
  destruct (skip_ows_split s3) as (w3 & W3 & E4).
  destruct (span_digits (skip_ows s3)) as [d2 s4] eqn:S2.
  apply span_digits_split in S2 as [E5 D2].
  destruct (skip_ows_split s4) as (w4 & W4 & E6).
  destruct (skip_ows s4); [|discriminate].
  intros H. exists (TSpec w1 d1 w2 w3 d2 w4). split.
  - unfold wf_tspec. cbn [t_w1 t_first t_w2 t_w3 t_last t_w4]. rewrite W1, D1, W2, W3, D2, W4. cbn [andb].
    destruct d1; destruct d2; try reflexivity. discriminate.
  - unfold render_spec. cbn [t_w1 t_first t_w2 t_w3 t_last t_w4].
    symmetry. rewrite E1, E2, E3, E4, E5, E6. now rewrite app_nil_r.
Qed.

Lemma pieces_valid_render ps :
  existsb piece_invalid ps = false -> exists ts, forallb wf_tspec ts = true /\ map render_spec ts = ps.
Proof.
  induction ps as [|p r IH]; cbn [existsb]; intros H; [exists []; auto|].
  apply orb_false_iff in H as [H1 H2].
  destruct (piece_valid_render p H1) as (t & Ht & Et). destruct (IH H2) as (ts & Hts & Ets).
  exists (t :: ts). cbn [forallb map]. rewrite Ht, Hts, Et, Ets. auto.
Qed.

Theorem thm_grammar_complete : forall h,
  header_invalid h = false ->
  exists u ts, unit_is_bytes u = true /\ ts <> [] /\ forallb wf_tspec ts = true /\ h = render_header u ts.
Proof.
  intros h. unfold header_invalid.
  destruct (split1 ch_eq h) as [[u rest]|] eqn:E; [|discriminate].
  intros H. apply orb_false_iff in H as [Hu Hp]. apply negb_false_iff in Hu.
  destruct (pieces_valid_render _ Hp) as (ts & Hts & Ets).
  exists u, ts. repeat split; try assumption.
  - intros ->. cbn [map] in Ets. symmetry in Ets. now apply split_on_ne in Ets.
  - unfold render_header. rewrite Ets, join_split. now apply split1_sound.
Qed.
