(** A verified occurrence-counting analysis for the skeleton language: [cnt d a s = Some (lo, hi)]
    means every terminating execution of [s], whatever the environment does, logs action [a]
    between lo and hi times.  Used for "runs exactly once" properties (C09). *)
From Coq Require Import ZArith List Bool Lia Arith.
Import ListNotations.
From CV Require Import Model.M_flow Proof.P_aflow.

Fixpoint count (a : action) (j : list (Z * action)) : nat :=
  match j with
  | [] => O
  | (_, b) :: r => (if action_eq_dec a b then 1 else 0) + count a r
  end.

Definition jn (o1 o2 : option (nat * nat)) : option (nat * nat) :=   (* alternatives *)
  match o1, o2 with
  | Some (l1, h1), Some (l2, h2) => Some (Nat.min l1 l2, Nat.max h1 h2)
  | _, _ => None
  end.
Definition sq (o1 o2 : option (nat * nat)) : option (nat * nat) :=   (* one after the other *)
  match o1, o2 with
  | Some (l1, h1), Some (l2, h2) => Some (l1 + l2, h1 + h2)%nat
  | _, _ => None
  end.

Section Cnt.
  Variable prog : fname -> stmt.
  Variable pparam : fname -> stmt.

  Fixpoint cnt (d : nat) (a : action) (param : stmt) (s : stmt) : option (nat * nat) :=
    match d with
    | O => None
    | S d' =>
      match s with
      | Skip | Assign _ | Raise _ | Return => Some (0, 0)%nat
      | Act b => if action_eq_dec a b then Some (1, 1)%nat else Some (0, 0)%nat
      | Seq s1 s2 =>
        (* s2 runs only if s1 completes normally *)
        sq (cnt d' a param s1) (jn (Some (0, 0)%nat) (cnt d' a param s2))
      | Try body hs orelse fin =>
        let mid := fold_right (fun h acc => jn (cnt d' a param (snd h)) acc)
                              (jn (Some (0, 0)%nat) (cnt d' a param orelse)) hs in
        sq (sq (cnt d' a param body) mid) (cnt d' a param fin)
      | If _ s1 s2 => jn (cnt d' a param s1) (cnt d' a param s2)
      | Loop body | ForLoop body =>
        match cnt d' a param body with Some (O, O) => Some (0, 0)%nat | _ => None end
      | Call g => cnt d' a (pparam g) (prog g)
      | CallParam => cnt d' a Skip param
      end
    end.

  Variable E : env.
  Notation EX := (exec prog pparam E).

  Definition within (a : action) (st st' : state) (r : option (nat * nat)) : Prop :=
    forall lo hi, r = Some (lo, hi) ->
      (count a (journal st) + lo <= count a (journal st') <= count a (journal st) + hi)%nat.

  Lemma within_refl a st : within a st st (Some (0, 0)%nat).
  Proof. intros lo hi H. inversion H; subst. lia. Qed.

  Lemma within_same a st st' : journal st = journal st' -> within a st st' (Some (0, 0)%nat).
  Proof. intros Hj lo hi H. inversion H; subst. rewrite Hj. lia. Qed.

  Lemma within_jn_l a st st' r1 r2 : within a st st' r1 -> within a st st' (jn r1 r2).
  Proof.
    intros H lo hi Hj. destruct r1 as [[l1 h1]|]; [|discriminate]. destruct r2 as [[l2 h2]|]; [|discriminate].
    cbn in Hj. inversion Hj; subst. specialize (H l1 h1 eq_refl). lia.
  Qed.
  Lemma within_jn_r a st st' r1 r2 : within a st st' r2 -> within a st st' (jn r1 r2).
  Proof.
    intros H lo hi Hj. destruct r1 as [[l1 h1]|]; [|discriminate]. destruct r2 as [[l2 h2]|]; [|discriminate].
    cbn in Hj. inversion Hj; subst. specialize (H l2 h2 eq_refl). lia.
  Qed.
  Lemma within_sq a st st1 st2 r1 r2 :
    within a st st1 r1 -> within a st1 st2 r2 -> within a st st2 (sq r1 r2).
  Proof.
    intros H1 H2 lo hi Hj. destruct r1 as [[l1 h1]|]; [|discriminate]. destruct r2 as [[l2 h2]|]; [|discriminate].
    cbn in Hj. inversion Hj; subst. specialize (H1 l1 h1 eq_refl). specialize (H2 l2 h2 eq_refl). lia.
  Qed.

  Lemma journal_with_self r k st : journal (with_self r k st) = journal st.
  Proof. reflexivity. Qed.
  Lemma journal_with_cur e st : journal (with_cur e st) = journal st.
  Proof. reflexivity. Qed.

  Lemma within_ext a st1 st1' st2 st2' r :
    journal st1 = journal st1' -> journal st2 = journal st2' -> within a st1 st2 r -> within a st1' st2' r.
  Proof. unfold within. intros <- <- H. exact H. Qed.

  Lemma fold_handlers_in d a param (hs : list (pat * stmt)) base h st st' :
    In h hs -> within a st st' (cnt d a param (snd h)) ->
    within a st st' (fold_right (fun (h : pat * stmt) acc => jn (cnt d a param (snd h)) acc) base hs).
  Proof.
    induction hs as [|x r IH]; intros Hin Hw; [destruct Hin|]. cbn [fold_right].
    destruct Hin as [->|Hin]; [apply within_jn_l; exact Hw | apply within_jn_r; apply IH; assumption].
  Qed.
  Lemma fold_handlers_base d a param (hs : list (pat * stmt)) base st st' :
    within a st st' base ->
    within a st st' (fold_right (fun (h : pat * stmt) acc => jn (cnt d a param (snd h)) acc) base hs).
  Proof.
    induction hs as [|x r IH]; intros Hw; [exact Hw|]. cbn [fold_right]. apply within_jn_r. now apply IH.
  Qed.

  Lemma find_handler_in hs e h : find_handler hs e = Some h -> exists p, In (p, h) hs.
  Proof.
    induction hs as [|[p x] r IH]; cbn [find_handler]; [discriminate|].
    destruct (matches p e).
    - intros H; inversion H; subst. exists p. now left.
    - intros H. destruct (IH H) as [q Hq]. exists q. now right.
  Qed.

  Theorem cnt_sound a : forall fuel d param s st o st',
    EX fuel param s st = (o, st') -> o <> OutOfFuel -> within a st st' (cnt d a param s).
  Proof.
    induction fuel as [fuel IH] using lt_wf_ind.
    intros d param s st o st' H Hne.
    destruct fuel as [|f]; [cbn in H; inversion H; subst; congruence|].
    assert (IHf : forall d param s st o st', EX f param s st = (o, st') -> o <> OutOfFuel ->
                                            within a st st' (cnt d a param s)) by (apply IH; lia).
    destruct d as [|d]; [intros lo hi Hc; discriminate|].
    destruct s as [|b|s1 s2|body hs orelse fin|c s1 s2|fl|e| |body|body|g|]; cbn [exec] in H; cbn [cnt].
    - inversion H; subst. apply within_refl.
    - (* Act *)
      assert (Hj : exists st1, st' = st1 /\ journal st1 = (self_req (sid st), b) :: journal st).
      { destruct (action_eq_dec b SetClosed) as [->|Hns].
        - inversion H; subst. eexists; split; reflexivity.
        - assert (H' : (match e_act E (occ b (journal st)) b with
                        | None => (Normal, effect E b (log_action b st))
                        | Some e => (Raised e, log_raise b e (log_action b st))
                        end) = (o, st')) by (destruct b; try exact H; congruence).
          destruct (e_act E (occ b (journal st)) b); inversion H'; subst; eexists; split; reflexivity. }
      destruct Hj as (st1 & -> & Hj). intros lo hi Hc. rewrite Hj. cbn [count].
      destruct (action_eq_dec a b); inversion Hc; subst; lia.
    - (* Seq *)
      destruct (EX f param s1 st) as [o1 st1] eqn:H1.
      assert (Ho1 : o1 <> OutOfFuel) by (intros ->; inversion H; subst; congruence).
      pose proof (IHf d param s1 st o1 st1 H1 Ho1) as W1.
      destruct o1; try (inversion H; subst o st'; eapply within_sq; [exact W1 | apply within_jn_l, within_refl]); try congruence.
      eapply within_sq; [exact W1|]. apply within_jn_r. apply (IHf d param s2 st1 o st' H Hne).
    - (* Try *)
      destruct (EX f param body st) as [o1 st1] eqn:H1.
      remember (match o1 with
                | Normal => EX f param orelse st1
                | Raised e =>
                  match find_handler hs e with
                  | Some h =>
                    let saved := cur_exn (sfin st1) in
                    let '(oh, sth) := EX f param h (with_cur (Some e) st1) in
                    (oh, with_cur saved sth)
                  | None => (o1, st1)
                  end
                | _ => (o1, st1)
                end) as mid eqn:Hmid.
      destruct mid as [o2 st2].
      assert (Ho2 : o2 <> OutOfFuel) by (intros ->; inversion H; subst; congruence).
      assert (Ho1 : o1 <> OutOfFuel) by (intros ->; inversion Hmid; subst; congruence).
      pose proof (IHf d param body st o1 st1 H1 Ho1) as W1.
      set (base := jn (Some (0, 0)%nat) (cnt d a param orelse)).
      assert (W2 : within a st1 st2 (fold_right (fun (h : pat * stmt) acc => jn (cnt d a param (snd h)) acc) base hs)).
      { destruct o1.
        - symmetry in Hmid. apply fold_handlers_base. apply within_jn_r. apply (IHf d param orelse st1 o2 st2 Hmid Ho2).
        - inversion Hmid; subst. apply fold_handlers_base. apply within_jn_l, within_refl.
        - destruct (find_handler hs e) as [h|] eqn:Hfh.
          + cbv zeta in Hmid. destruct (EX f param h (with_cur (Some e) st1)) as [oh sth] eqn:Hh.
            inversion Hmid; subst o2 st2.
            destruct (find_handler_in _ _ _ Hfh) as [p Hp].
            apply (fold_handlers_in d a param hs base (p, h)); [exact Hp|]. cbn [snd].
            eapply within_ext; [apply journal_with_cur | symmetry; apply journal_with_cur |].
            apply (IHf d param h _ oh sth Hh Ho2).
          + inversion Hmid; subst. apply fold_handlers_base. apply within_jn_l, within_refl.
        - congruence. }
      assert (Hfin : (let '(o3, st3) := EX f param fin st2 in
                      match o3 with Normal => (o2, st3) | _ => (o3, st3) end) = (o, st'))
        by (destruct o2; try exact H; congruence).
      destruct (EX f param fin st2) as [o3 st3] eqn:H3.
      assert (Ho3 : o3 <> OutOfFuel) by (intros ->; inversion Hfin; subst; congruence).
      pose proof (IHf d param fin st2 o3 st3 H3 Ho3) as W3.
      assert (st' = st3) by (destruct o3; inversion Hfin; reflexivity). subst st'.
      eapply within_sq; [eapply within_sq; [exact W1 | exact W2] | exact W3].
    - (* If *)
      pose proof (IHf d param (if eval_cond E st c then s1 else s2) (upd_tick st) o st' H Hne) as W.
      apply (within_ext a (upd_tick st) st st' st') in W; [|reflexivity|reflexivity].
      destruct (eval_cond E st c); [apply within_jn_l | apply within_jn_r]; exact W.
    - inversion H; subst. apply within_same. reflexivity.
    - destruct e as [e|]; [inversion H; subst; apply within_refl|].
      destruct (cur_exn (sfin st)); inversion H; subst; apply within_refl.
    - inversion H; subst. apply within_refl.
    - (* Loop *)
      destruct (cnt d a param body) as [[[|l] [|h]]|] eqn:Hc; try (intros lo hi Hx; discriminate).
      assert (Hl : forall k, (k <= S f)%nat -> forall st o st', EX k param (Loop body) st = (o, st') ->
                   o <> OutOfFuel -> within a st st' (Some (0, 0)%nat)).
      { induction k as [|k IHk]; intros Hk st0 o0 st0' H0 Hne0; [cbn in H0; inversion H0; subst; congruence|].
        cbn [exec] in H0. destruct (EX k param body st0) as [o1 st1] eqn:Hb.
        assert (Ho1 : o1 <> OutOfFuel) by (intros ->; inversion H0; subst; congruence).
        assert (W1 : within a st0 st1 (Some (0, 0)%nat)).
        { rewrite <- Hc. apply (IH k ltac:(lia) d param body st0 o1 st1 Hb Ho1). }
        destruct o1; try (inversion H0; subst; exact W1); try congruence.
        pose proof (IHk ltac:(lia) st1 o0 st0' H0 Hne0) as W2.
        intros lo hi Hx. inversion Hx; subst. specialize (W1 _ _ eq_refl). specialize (W2 _ _ eq_refl). lia. }
      apply (Hl (S f) (le_n _) st o st'); [exact H | exact Hne].
    - (* ForLoop *)
      destruct (cnt d a param body) as [[[|l] [|h]]|] eqn:Hc; try (intros lo hi Hx; discriminate).
      assert (Hl : forall k, (k <= S f)%nat -> forall st o st', EX k param (ForLoop body) st = (o, st') ->
                   o <> OutOfFuel -> within a st st' (Some (0, 0)%nat)).
      { induction k as [|k IHk]; intros Hk st0 o0 st0' H0 Hne0; [cbn in H0; inversion H0; subst; congruence|].
        cbn [exec] in H0. destruct (e_cond E (tick st0) FLoopMore); [|inversion H0; subst; apply within_same; reflexivity].
        destruct (EX k param body (upd_tick st0)) as [o1 st1] eqn:Hb.
        assert (Ho1 : o1 <> OutOfFuel) by (intros ->; inversion H0; subst; congruence).
        assert (W1 : within a st0 st1 (Some (0, 0)%nat)).
        { rewrite <- Hc. apply (within_ext a (upd_tick st0) st0 st1 st1); [reflexivity|reflexivity|].
          apply (IH k ltac:(lia) d param body (upd_tick st0) o1 st1 Hb Ho1). }
        destruct o1; try (inversion H0; subst; exact W1); try congruence.
        pose proof (IHk ltac:(lia) st1 o0 st0' H0 Hne0) as W2.
        intros lo hi Hx. inversion Hx; subst. specialize (W1 _ _ eq_refl). specialize (W2 _ _ eq_refl). lia. }
      apply (Hl (S f) (le_n _) st o st'); [exact H | exact Hne].
    - (* Call *)
      destruct (EX f (pparam g) (prog g) (with_self (receiver g st) (recv_known g (rsk (sid st))) st)) as [o1 st1] eqn:H1.
      inversion H; subst o st'; clear H.
      assert (Ho1 : o1 <> OutOfFuel) by (intros ->; congruence).
      eapply within_ext; [apply journal_with_self | symmetry; apply journal_with_self |].
      apply (IHf d (pparam g) (prog g) _ o1 st1 H1 Ho1).
    - (* CallParam *) apply (IHf d Skip param st o st' H Hne).
  Qed.
End Cnt.
