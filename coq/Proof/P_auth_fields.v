(** HttpDigestAuthorization.__init__ reads nine named parameters of the header and
    nothing else: two parameter lists that agree on those nine keys give the same
    authorization object (with the request's own method in it), the same error and
    the same trace.  In particular a parameter called method, http_method, ha1,
    key ... - whatever it holds - cannot stand in for anything of the request. *)
From Coq Require Import ZArith List Bool.
From CV Require Import Lib.Sx Lib.ListZ Model.M_auth.
Import ListNotations.
Open Scope Z_scope.

Definition digest_keys : list str :=
  [k_realm; k_username; k_nonce; k_uri; k_response; k_algorithm; k_cnonce; k_qop; k_nc].

Definition agree (kv kv' : list (str * str)) : Prop :=
  forall key, In key digest_keys -> assoc key kv = assoc key kv'.

(** two parsers of the parameter list that fail alike and, where they succeed,
    agree on the nine keys *)
Definition pr_agree (r r' : parse_result) : Prop :=
  match r, r' with
  | PR_ok kv, PR_ok kv' => agree kv kv'
  | PR_value_error, PR_value_error | PR_index_error, PR_index_error
  | PR_other_error, PR_other_error => True
  | _, _ => False
  end.

Lemma parse_header_fields dec_accept pp pp' :
  (forall s, pr_agree (pp s) (pp' s)) ->
  forall header http_method,
    parse_header dec_accept pp header http_method = parse_header dec_accept pp' header http_method.
Proof.
  intros Hpp header http_method. unfold parse_header.
  destruct (negb (matches_digest header)); [reflexivity|].
  unfold bind. destruct (try_decode_header dec_accept header) as [[decoded|e] t]; [|reflexivity].
  destruct (split1 32 decoded) as [[x params]|]; [|reflexivity].
  unfold emit. specialize (Hpp params). unfold pr_agree in Hpp.
  destruct (pp params) as [kv| | |], (pp' params) as [kv'| | |]; try contradiction; try reflexivity.
  assert (Hk : forall key, In key digest_keys -> assoc key kv = assoc key kv') by exact Hpp.
  rewrite (Hk k_realm), (Hk k_username), (Hk k_nonce), (Hk k_uri), (Hk k_response), (Hk k_algorithm),
          (Hk k_cnonce), (Hk k_qop), (Hk k_nc); [reflexivity|unfold digest_keys; simpl; tauto ..].
Qed.

(** an extra parameter under any other name changes nothing *)
Lemma agree_extra name value kv :
  ~ In name digest_keys -> forall pre, agree (pre ++ (name, value) :: kv) (pre ++ kv).
Proof.
  intros Hn pre key Hkey. induction pre as [|[k' v'] r IH]; cbn [app assoc].
  - destruct (eqbZs key name) eqn:E; [|reflexivity].
    exfalso. apply Hn. assert (key = name) as <-; [|exact Hkey].
    revert E. clear. revert name. induction key as [|c key IH]; intros [|d name]; cbn; try discriminate; [reflexivity|].
    intros E. apply andb_prop in E as [E1 E2]. apply Z.eqb_eq in E1. subst. f_equal. now apply IH.
  - now rewrite IH.
Qed.

(** the parameter the code stores as [self.method] is one of those extras *)
Lemma method_is_extra : ~ In k_method digest_keys.
Proof. unfold digest_keys, In. intros H. repeat (destruct H as [H|H]; [discriminate H|]). exact H. Qed.
