(** on_end_request runs EXACTLY once for every request object whose close() got past its guard, and never for
    any other: in every terminating execution of a skeleton program in which `self.closed = True` and
    `hooks.run('on_end_request')` occur only together, in the idiom of Request.close().
    (P_endreq proves "at most once" for every execution, out-of-fuel ones included; the "at least once" half
    needs termination: in the middle of the idiom the flag is already set and the hooks have not run yet.) *)
From Coq Require Import ZArith List Bool Lia.
Import ListNotations.
From CV Require Import Model.M_flow Model.M_pipeline Proof.P_endreq.
Open Scope Z_scope.

Definition is_setclosed (a : action) : bool := match a with SetClosed => true | _ => false end.

(** [safe2 s]: on_end_request is run, and the closed flag is set, only inside the idiom *)
Fixpoint safe2 (s : stmt) : bool :=
  match s with
  | If (CNot (CFlag FClosed)) (Seq (Act SetClosed) (Act (RunHooks OnEndRequest))) Skip => true
  | Act a => negb (is_oerq a) && negb (is_setclosed a)
  | Seq a b => safe2 a && safe2 b
  | Try b hs o f =>
    safe2 b && (fix sh (l : list (pat * stmt)) := match l with [] => true | h :: r => safe2 (snd h) && sh r end) hs
    && safe2 o && safe2 f
  | If _ a b => safe2 a && safe2 b
  | Loop b | ForLoop b => safe2 b
  | _ => true
  end.

(** closed => the hooks ran (request 0 is the class-default request, closed from the start) *)
Definition K (st : state) : Prop :=
  forall r, r <> 0 -> memZ r (closed (sid st)) = true -> (1 <= countr r (journal st))%nat.

Lemma safe2_If_cases c s1 s2 :
  safe2 (If c s1 s2) = true -> If c s1 s2 = close_idiom \/ (safe2 s1 = true /\ safe2 s2 = true).
Proof.
  intros H.
  assert (Hgen : safe2 s1 && safe2 s2 = true -> safe2 s1 = true /\ safe2 s2 = true) by (intros X; now apply andb_prop).
  destruct c as [|f|c'|]; try (right; apply Hgen; exact H).
  destruct c' as [|f|c''|]; try (right; apply Hgen; exact H).
  destruct f; try (right; apply Hgen; exact H).
  destruct s1 as [|a|a b|? ? ? ?|? ? ?|?|?| |?|?|?|]; try (right; apply Hgen; exact H).
  destruct a as [|x|? ?|? ? ? ?|? ? ?|?|?| |?|?|?|]; try (right; apply Hgen; exact H).
  destruct x; try (right; apply Hgen; exact H).
  destruct b as [|y|? ?|? ? ? ?|? ? ?|?|?| |?|?|?|]; try (right; apply Hgen; exact H).
  destruct y; try (right; apply Hgen; exact H).
  match goal with p : hookpoint |- _ => destruct p end; try (right; apply Hgen; exact H).
  destruct s2; try (right; apply Hgen; exact H).
  left. reflexivity.
Qed.

Section EndReq2.
  Variable prog : fname -> stmt.
  Variable pparam : fname -> stmt.
  Variable E : env.
  Notation EX := (exec prog pparam E).

  Lemma countr_mono r x j : (countr r j <= countr r (x :: j))%nat.
  Proof. destruct x as [q a]. cbn [countr]. lia. Qed.

  Lemma K_same st st' : journal st' = journal st -> closed (sid st') = closed (sid st) -> K st -> K st'.
  Proof. intros Hj Hc HK r Hr Hm. rewrite Hj. rewrite Hc in Hm. now apply HK. Qed.

  Lemma closed_effect_other a i : is_setclosed a = false -> closed (ids_effect a i) = closed i.
  Proof. destruct a; try reflexivity. discriminate. Qed.

  Lemma K_act f param a st o st' :
    is_setclosed a = false -> K st -> EX (S f) param (Act a) st = (o, st') -> K st'.
  Proof.
    intros Ha HK H. cbn [exec] in H.
    assert (Hc : (journal st' = (self_req (sid st), a) :: journal st) /\ closed (sid st') = closed (sid st)).
    { destruct (e_act E (occ a (journal st)) a) as [e|] eqn:He.
      - destruct a; try discriminate; inversion H; subst; split; reflexivity.
      - destruct a; try discriminate; inversion H; subst; split; try reflexivity. }
    destruct Hc as [Hj Hc]. intros r Hr Hm. rewrite Hc in Hm. specialize (HK r Hr Hm).
    rewrite Hj. pose proof (countr_mono r (self_req (sid st), a) (journal st)). lia.
  Qed.

  Lemma K_idiom f param st o st' : K st -> EX f param close_idiom st = (o, st') -> o <> OutOfFuel -> K st'.
  Proof.
    intros HK H Hne.
    destruct f as [|f]; [cbn in H; inversion H; subst; congruence|].
    unfold close_idiom in H. cbn [exec eval_cond eval_flag] in H.
    destruct (memZ (self_req (sid st)) (closed (sid st))) eqn:Hcl; cbn [negb] in H.
    - destruct f as [|f]; cbn in H; inversion H; subst; [congruence|].
      eapply K_same; [| |exact HK]; reflexivity.
    - destruct f as [|f]; [cbn in H; inversion H; subst; congruence|].
      cbn [exec] in H.
      destruct f as [|f]; [cbn in H; inversion H; subst; congruence|].
      cbn [exec] in H.
      set (st1 := effect E SetClosed (log_action SetClosed (upd_tick st))) in *.
      assert (Hres : journal st' = (self_req (sid st), RunHooks OnEndRequest) :: (self_req (sid st), SetClosed) :: journal st
                     /\ closed (sid st') = self_req (sid st) :: closed (sid st)).
      { destruct (e_act E (occ (RunHooks OnEndRequest) (journal st1)) (RunHooks OnEndRequest)) as [e|]; inversion H; subst;
          split; reflexivity. }
      destruct Hres as [Hj Hc]. intros r Hr Hm. rewrite Hj. rewrite Hc in Hm.
      unfold memZ in Hm. cbn [existsb] in Hm. cbn [countr is_oerq]. rewrite andb_true_r, andb_false_r.
      destruct (r =? self_req (sid st)) eqn:Er.
      + apply Z.eqb_eq in Er. subst r. rewrite Z.eqb_refl. lia.
      + cbn [orb] in Hm. specialize (HK r Hr Hm). lia.
  Qed.

  Hypothesis prog_safe : forall g, safe2 (prog g) = true.
  Hypothesis pparam_safe : forall g, safe2 (pparam g) = true.

  Lemma sh2_in (hs : list (pat * stmt)) p h :
    (fix sh (l : list (pat * stmt)) := match l with [] => true | h :: r => safe2 (snd h) && sh r end) hs = true ->
    In (p, h) hs -> safe2 h = true.
  Proof.
    induction hs as [|x r IH]; intros Hs Hin; [destruct Hin|].
    apply andb_prop in Hs. destruct Hs as [H1 H2]. destruct Hin as [->|Hin]; [exact H1 | now apply IH].
  Qed.

  Lemma find_handler_in2 hs e h : find_handler hs e = Some h -> exists p, In (p, h) hs.
  Proof.
    induction hs as [|[p x] r IH]; cbn [find_handler]; [discriminate|].
    destruct (matches p e).
    - intros H; inversion H; subst. exists p. now left.
    - intros H. destruct (IH H) as [q Hq]. exists q. now right.
  Qed.

  Theorem K_preserved : forall fuel param s st o st',
    safe2 param = true -> safe2 s = true -> K st -> EX fuel param s st = (o, st') -> o <> OutOfFuel -> K st'.
  Proof.
    induction fuel as [|f IH]; intros param s st o st' Hsp Hs HK H Hne; [cbn in H; inversion H; subst; congruence|].
    destruct s as [|a|s1 s2|body hs orelse fin|c s1 s2|fl|e| |body|body|g|].
    - cbn in H. inversion H; subst; exact HK.
    - cbn [safe2] in Hs. apply andb_prop in Hs. destruct Hs as [_ Hs]. apply negb_true_iff in Hs. eapply K_act; eassumption.
    - cbn [safe2] in Hs. apply andb_prop in Hs. destruct Hs as [Hs1 Hs2]. cbn [exec] in H.
      destruct (EX f param s1 st) as [o1 st1] eqn:H1.
      destruct o1.
      + assert (HK1 : K st1) by (eapply IH; [exact Hsp|exact Hs1|exact HK|exact H1|discriminate]).
        exact (IH param s2 st1 o st' Hsp Hs2 HK1 H Hne).
      + inversion H; subst. eapply IH; [exact Hsp|exact Hs1|exact HK|exact H1|discriminate].
      + inversion H; subst. eapply IH; [exact Hsp|exact Hs1|exact HK|exact H1|discriminate].
      + inversion H; subst. congruence.
    - cbn [safe2] in Hs. apply andb_prop in Hs. destruct Hs as [Hs Hsf]. apply andb_prop in Hs. destruct Hs as [Hs Hso].
      apply andb_prop in Hs. destruct Hs as [Hsb Hsh]. cbn [exec] in H.
      destruct (EX f param body st) as [o1 st1] eqn:H1.
      assert (H2 : exists o2 st2, (o2 <> OutOfFuel -> K st2) /\
                 (match o2 with OutOfFuel => (OutOfFuel, st2)
                  | _ => let '(o3, st3) := EX f param fin st2 in
                         match o3 with Normal => (o2, st3) | _ => (o3, st3) end end) = (o, st')).
      { destruct o1.
        - assert (HK1 : K st1) by (eapply IH; [exact Hsp|exact Hsb|exact HK|exact H1|discriminate]).
          destruct (EX f param orelse st1) as [o2 st2] eqn:H2. exists o2, st2. split; [|exact H].
          intros Ho2. exact (IH param orelse st1 o2 st2 Hsp Hso HK1 H2 Ho2).
        - exists Returned, st1. split; [|exact H]. intros _. eapply IH; [exact Hsp|exact Hsb|exact HK|exact H1|discriminate].
        - assert (HK1 : K st1) by (eapply IH; [exact Hsp|exact Hsb|exact HK|exact H1|discriminate]).
          destruct (find_handler hs e) as [h|] eqn:Hfh.
          + destruct (EX f param h (with_cur (Some e) st1)) as [oh sth] eqn:Hh.
            exists oh, (with_cur (cur_exn (sfin st1)) sth). split; [|exact H].
            intros Hoh.
            destruct (find_handler_in2 _ _ _ Hfh) as [p Hp]. pose proof (sh2_in hs p h Hsh Hp) as Hsafeh.
            assert (HKw : K (with_cur (Some e) st1)) by (eapply K_same; [| |exact HK1]; reflexivity).
            pose proof (IH _ _ _ _ _ Hsp Hsafeh HKw Hh Hoh) as HKh.
            eapply K_same; [| |exact HKh]; reflexivity.
          + exists (Raised e), st1. split; [intros _; exact HK1 | exact H].
        - exists OutOfFuel, st1. split; [congruence | exact H]. }
      destruct H2 as (o2 & st2 & HK2 & H2).
      destruct o2; try (destruct (EX f param fin st2) as [o3 st3] eqn:H3;
                        assert (HK3 : o3 <> OutOfFuel -> K st3)
                          by (intros Ho3; eapply IH; [exact Hsp|exact Hsf|apply HK2; discriminate|exact H3|exact Ho3]);
                        destruct o3; inversion H2; subst; try (apply HK3; discriminate); congruence).
      inversion H2; subst; congruence.
    - destruct (safe2_If_cases _ _ _ Hs) as [Heq|[Hs1 Hs2]].
      + rewrite Heq in H. eapply K_idiom; eassumption.
      + cbn [exec] in H.
        assert (HKu : K (upd_tick st)) by (eapply K_same; [| |exact HK]; reflexivity).
        destruct (eval_cond E st c); [exact (IH param s1 _ o st' Hsp Hs1 HKu H Hne) | exact (IH param s2 _ o st' Hsp Hs2 HKu H Hne)].
    - cbn in H. inversion H; subst. eapply K_same; [| |exact HK]; reflexivity.
    - cbn [exec] in H. destruct e as [e|]; [inversion H; subst; exact HK|].
      destruct (cur_exn (sfin st)); inversion H; subst; exact HK.
    - cbn in H. inversion H; subst; exact HK.
    - cbn [safe2] in Hs. cbn [exec] in H.
      destruct (EX f param body st) as [o1 st1] eqn:H1.
      destruct o1.
      + assert (HK1 : K st1) by (eapply IH; [exact Hsp|exact Hs|exact HK|exact H1|discriminate]).
        exact (IH param (Loop body) st1 o st' Hsp Hs HK1 H Hne).
      + inversion H; subst. eapply IH; [exact Hsp|exact Hs|exact HK|exact H1|discriminate].
      + inversion H; subst. eapply IH; [exact Hsp|exact Hs|exact HK|exact H1|discriminate].
      + inversion H; subst. congruence.
    - cbn [safe2] in Hs. cbn [exec] in H.
      destruct (e_cond E (tick st) FLoopMore).
      + assert (HKu : K (upd_tick st)) by (eapply K_same; [| |exact HK]; reflexivity).
        destruct (EX f param body (upd_tick st)) as [o1 st1] eqn:H1.
        destruct o1.
        * assert (HK1 : K st1) by (eapply IH; [exact Hsp|exact Hs|exact HKu|exact H1|discriminate]).
          exact (IH param (ForLoop body) st1 o st' Hsp Hs HK1 H Hne).
        * inversion H; subst. eapply IH; [exact Hsp|exact Hs|exact HKu|exact H1|discriminate].
        * inversion H; subst. eapply IH; [exact Hsp|exact Hs|exact HKu|exact H1|discriminate].
        * inversion H; subst. congruence.
      + inversion H; subst. eapply K_same; [| |exact HK]; reflexivity.
    - cbn [exec] in H.
      destruct (EX f (pparam g) (prog g) (with_self (receiver g st) (recv_known g (rsk (sid st))) st)) as [o1 st1] eqn:H1.
      inversion H; subst o st'.
      assert (HKw : K (with_self (receiver g st) (recv_known g (rsk (sid st))) st)) by (eapply K_same; [| |exact HK]; reflexivity).
      assert (Ho1 : o1 <> OutOfFuel) by (intros ->; congruence).
      pose proof (IH _ _ _ _ _ (pparam_safe g) (prog_safe g) HKw H1 Ho1) as HK1.
      eapply K_same; [| |exact HK1]; reflexivity.
    - cbn [exec] in H. eapply (IH Skip param); [reflexivity | exact Hsp | exact HK | exact H | exact Hne].
  Qed.
End EndReq2.
