(** Non-interference of expired data: two worlds that differ only in the DATA
    of entries whose expiry already lies in the past answer every history
    identically, and stay related.  So what was saved under an id can never be
    returned (or influence anything observable) once its timeout has elapsed. *)
From Coq Require Import ZArith List Bool Lia.
From CV Require Import Lib.Sx Lib.ListZ Model.M_session Proof.P_session.
Import ListNotations.
Open Scope Z_scope.

Definition csim (now : Z) (c1 c2 : content) : Prop :=
  c1 = c2 \/ exists d1 d2 e, c1 = Good d1 e /\ c2 = Good d2 e /\ e < now.

Definition esim (now : Z) (a b : Z * content) : Prop := fst a = fst b /\ csim now (snd a) (snd b).

Definition ssim (now : Z) (s1 s2 : store) : Prop := Forall2 (esim now) s1 s2.

Definition wsim (w1 w2 : world) : Prop :=
  w_now w1 = w_now w2 /\ w_rng w1 = w_rng w2 /\ ssim (w_now w1) (w_store w1) (w_store w2).

Lemma ssim_refl now s : ssim now s s.
Proof. induction s; constructor; [split; [reflexivity|left; reflexivity]|assumption]. Qed.

Lemma wsim_refl w : wsim w w.
Proof. repeat split. apply ssim_refl. Qed.

Lemma csim_mono n n' c1 c2 : n <= n' -> csim n c1 c2 -> csim n' c1 c2.
Proof.
  intros L [H|[d1 [d2 [e [H1 [H2 H3]]]]]]; [left; exact H|right]. exists d1, d2, e. repeat split; auto; lia.
Qed.

Lemma ssim_mono n n' s1 s2 : n <= n' -> ssim n s1 s2 -> ssim n' s1 s2.
Proof.
  intros L H. induction H; constructor; [|assumption].
  destruct H as [H1 H2]. split; [exact H1|eapply csim_mono; eauto].
Qed.

Lemma ssim_lookup now s1 s2 (i : Z) : ssim now s1 s2 ->
  match lookup i s1, lookup i s2 with
  | None, None => True
  | Some c1, Some c2 => csim now c1 c2
  | _, _ => False
  end.
Proof.
  intro H. induction H as [|[k1 c1] [k2 c2] r1 r2 [Hk Hc] _ IH]; cbn [lookup]; [exact Logic.I|].
  cbn [fst snd] in *. subst k2. destruct (k1 =? i); [exact Hc|exact IH].
Qed.

Lemma ssim_mem now s1 s2 (i : Z) : ssim now s1 s2 -> mem i s1 = mem i s2.
Proof.
  intro H. pose proof (ssim_lookup now s1 s2 i H) as K. unfold mem.
  destruct (lookup i s1), (lookup i s2); tauto.
Qed.

Lemma ssim_gen now s1 s2 rng : ssim now s1 s2 -> gen_id s1 rng = gen_id s2 rng.
Proof.
  intro H. induction rng as [|c r IH]; cbn [gen_id]; [reflexivity|].
  rewrite (ssim_mem now s1 s2 c H), IH. reflexivity.
Qed.

Lemma Forall2_filter {A} (R : A -> A -> Prop) (p : A -> bool) l1 l2 :
  (forall a b, R a b -> p a = p b) -> Forall2 R l1 l2 -> Forall2 R (filter p l1) (filter p l2).
Proof.
  intros Hp H. induction H as [|a b r1 r2 Hab _ IH]; cbn [filter]; [constructor|].
  rewrite <- (Hp a b Hab). destruct (p a); [constructor|]; assumption.
Qed.

Lemma ssim_remove now s1 s2 (i : Z) : ssim now s1 s2 -> ssim now (remove i s1) (remove i s2).
Proof.
  intro H. unfold remove. apply Forall2_filter; [|exact H].
  intros a b [Hk _]. rewrite Hk. reflexivity.
Qed.

Lemma ssim_put now s1 s2 (i : Z) (ct : content) : ssim now s1 s2 -> ssim now (put i ct s1) (put i ct s2).
Proof.
  intro H. unfold put. constructor; [split; [reflexivity|left; reflexivity]|apply ssim_remove; exact H].
Qed.

Lemma sim_ensure_loaded (c : cfg) (w1 w2 : world) (x : sess) :
  wsim w1 w2 -> ensure_loaded c w1 x = ensure_loaded c w2 x.
Proof.
  intros [Hn [_ Hs]]. unfold ensure_loaded, load_raw. destruct (x_loaded x); [reflexivity|].
  pose proof (ssim_lookup _ _ _ (x_id x) Hs) as K. rewrite <- Hn.
  destruct (lookup (x_id x) (w_store w1)) as [c1|], (lookup (x_id x) (w_store w2)) as [c2|]; try tauto.
  destruct K as [->|[d1 [d2 [e [-> [-> L]]]]]]; [reflexivity|].
  destruct (e <? w_now w1) eqn:E; [reflexivity|apply Z.ltb_ge in E; lia].
Qed.

Lemma sim_act (c : cfg) (a : act) (w1 w2 : world) (x : sess) st w1' x' o :
  wsim w1 w2 -> do_act c a w1 x = (st, w1', x', o) ->
  exists w2', do_act c a w2 x = (st, w2', x', o) /\ wsim w1' w2'.
Proof.
  intros S. pose proof (sim_ensure_loaded c w1 w2 x S) as EL. destruct S as [Hn [Hr Hs]].
  destruct a; cbn [do_act]; rewrite <- ?EL; intro H.
  - destruct (ensure_loaded c w1 x) as [st' x1]. injection H as <- <- <- <-.
    exists w2. split; [reflexivity|repeat split; assumption].
  - destruct (ensure_loaded c w1 x) as [st' x1].
    destruct st'; injection H as <- <- <- <-; (exists w2; split; [reflexivity|repeat split; assumption]).
  - destruct (ensure_loaded c w1 x) as [st' x1].
    destruct st'; injection H as <- <- <- <-; (exists w2; split; [reflexivity|repeat split; assumption]).
  - pose proof (ssim_remove _ _ _ (x_id x) Hs) as Hrm.
    rewrite <- Hr, <- Hn, <- (ssim_gen _ _ _ (w_rng w1) Hrm).
    destruct (gen_id (remove (x_id x) (w_store w1)) (w_rng w1)) as [[j|] r];
      injection H as <- <- <- <-; (eexists; split; [reflexivity|repeat split; exact Hrm]).
  - injection H as <- <- <- <-. exists w2. split; [reflexivity|repeat split; assumption].
  - injection H as <- <- <- <-. eexists. split; [reflexivity|].
    unfold wsim. cbn [w_now w_store w_rng]. split; [lia|]. split; [exact Hr|].
    eapply ssim_mono; [|exact Hs]. lia.
Qed.

Lemma sim_acts (c : cfg) (acts : list act) : forall w1 w2 x outs st w1' x' outs',
  wsim w1 w2 -> do_acts c acts w1 x outs = (st, w1', x', outs') ->
  exists w2', do_acts c acts w2 x outs = (st, w2', x', outs') /\ wsim w1' w2'.
Proof.
  induction acts as [|a r IH]; cbn [do_acts]; intros w1 w2 x outs st w1' x' outs' S H.
  - injection H as <- <- <- <-. exists w2. split; [reflexivity|exact S].
  - destruct (do_act c a w1 x) as [[[st1 wa] xa] o] eqn:E.
    destruct (sim_act _ _ _ _ _ _ _ _ _ S E) as [wb [Eb Sb]]. rewrite Eb.
    destruct st1.
    + eapply IH; eauto.
    + injection H as <- <- <- <-. exists wb. split; [reflexivity|exact Sb].
    + injection H as <- <- <- <-. exists wb. split; [reflexivity|exact Sb].
Qed.

Lemma sim_begin (w1 w2 : world) (cookie : option Z) st w1' i :
  wsim w1 w2 -> begin_req w1 cookie = (st, w1', i) ->
  exists w2', begin_req w2 cookie = (st, w2', i) /\ wsim w1' w2'.
Proof.
  intros [Hn [Hr Hs]]. unfold begin_req.
  rewrite <- Hr, <- Hn, <- (ssim_gen _ _ _ (w_rng w1) Hs).
  assert (Hm : forall p, mem p (w_store w2) = mem p (w_store w1))
    by (intro p; symmetry; eapply ssim_mem; eauto).
  destruct cookie as [p|]; [rewrite Hm; destruct (mem p (w_store w1))|].
  - intro H. injection H as <- <- <-. exists w2. split; [reflexivity|repeat split; assumption].
  - destruct (gen_id (w_store w1) (w_rng w1)) as [[j|] r]; intro H; injection H as <- <- <-;
      (eexists; split; [reflexivity|repeat split; exact Hs]).
  - destruct (gen_id (w_store w1) (w_rng w1)) as [[j|] r]; intro H; injection H as <- <- <-;
      (eexists; split; [reflexivity|repeat split; exact Hs]).
Qed.

Lemma sim_save (c : cfg) (w1 w2 : world) (x : sess) : wsim w1 w2 -> wsim (save c w1 x) (save c w2 x).
Proof.
  intros [Hn [Hr Hs]]. unfold save. destruct (x_loaded x); [|repeat split; assumption].
  cbn [w_now w_rng w_store]. rewrite <- Hn. split; [reflexivity|]. split; [exact Hr|].
  apply ssim_put. exact Hs.
Qed.

Lemma sim_req (c : cfg) (w1 w2 : world) (cookie : option Z) (acts : list act) rp w1' :
  wsim w1 w2 -> do_req c w1 cookie acts = (rp, w1') ->
  exists w2', do_req c w2 cookie acts = (rp, w2') /\ wsim w1' w2'.
Proof.
  intros S. unfold do_req. destruct (begin_req w1 cookie) as [[st0 wa] i] eqn:B.
  destruct (sim_begin _ _ _ _ _ _ S B) as [wb [Bb Sb]]. rewrite Bb.
  destruct st0; [|intro H; injection H as <- <-; exists wb; split; [reflexivity|exact Sb]
                 |intro H; injection H as <- <-; exists wb; split; [reflexivity|exact Sb]].
  destruct (do_acts c acts wa (Sess i [] false false) []) as [[[st wa2] x] outs] eqn:E.
  destruct (sim_acts _ _ _ _ _ _ _ _ _ _ Sb E) as [wb2 [Eb2 Sb2]]. rewrite Eb2.
  destruct st; intro H; injection H as <- <-; eexists; (split; [reflexivity|]);
    [apply sim_save; exact Sb2|exact Sb2|exact Sb2].
Qed.

Lemma sim_sweep_file (c : cfg) (now : Z) (l1 l2 : store) :
  ssim now l1 l2 ->
  fst (sweep_file c now l1) = fst (sweep_file c now l2)
  /\ ssim now (snd (sweep_file c now l1)) (snd (sweep_file c now l2)).
Proof.
  intro H. induction H as [|[k1 c1] [k2 c2] r1 r2 [Hk Hc] Hr IH]; cbn [sweep_file].
  - split; [reflexivity|constructor].
  - cbn [fst snd] in Hk, Hc. subst k2. destruct IH as [IH1 IH2].
    destruct Hc as [<-|[d1 [d2 [e [-> [-> L]]]]]].
    + destruct c1 as [d e|cls].
      * destruct (sweep_file c now r1) as [st1 r1'], (sweep_file c now r2) as [st2 r2']. cbn [fst snd] in *.
        split; [exact IH1|]. destruct (e <? now); [exact IH2|].
        constructor; [split; [reflexivity|left; reflexivity]|exact IH2].
      * destruct (caught c cls).
        -- destruct (sweep_file c now r1) as [st1 r1'], (sweep_file c now r2) as [st2 r2']. cbn [fst snd] in *.
           split; [exact IH1|]. constructor; [split; [reflexivity|left; reflexivity]|exact IH2].
        -- cbn [fst snd]. split; [reflexivity|].
           constructor; [split; [reflexivity|left; reflexivity]|exact Hr].
    + destruct (sweep_file c now r1) as [st1 r1'], (sweep_file c now r2) as [st2 r2']. cbn [fst snd] in *.
      split; [exact IH1|]. destruct (e <? now) eqn:E; [exact IH2|apply Z.ltb_ge in E; lia].
Qed.

Lemma sim_sweep (c : cfg) (w1 w2 : world) :
  wsim w1 w2 -> fst (sweep c w1) = fst (sweep c w2) /\ wsim (snd (sweep c w1)) (snd (sweep c w2)).
Proof.
  intros [Hn [Hr Hs]]. unfold sweep. destruct (c_file c).
  - rewrite <- Hn. destruct (sim_sweep_file c (w_now w1) _ _ Hs) as [S1 S2].
    destruct (sweep_file c (w_now w1) (w_store w1)) as [st1 s1'],
             (sweep_file c (w_now w1) (w_store w2)) as [st2 s2']. cbn [fst snd] in *.
    split; [exact S1|]. repeat split; assumption.
  - cbn [fst snd]. split; [reflexivity|]. rewrite <- Hn. split; [reflexivity|]. split; [exact Hr|].
    cbn [w_now w_store]. unfold sweep_ram. apply Forall2_filter; [|exact Hs].
    intros [k1 c1] [k2 c2] [_ Hc]. cbn [snd] in Hc. unfold ram_keep. cbn [snd].
    destruct Hc as [->|[d1 [d2 [e [-> [-> L]]]]]]; reflexivity.
Qed.

Lemma sim_step (c : cfg) (o : op) (w1 w2 : world) rp w1' :
  wsim w1 w2 -> step c o w1 = (rp, w1') ->
  exists w2', step c o w2 = (rp, w2') /\ wsim w1' w2'.
Proof.
  intros S. destruct o; cbn [step].
  - apply sim_req. exact S.
  - destruct S as [Hn [Hr Hs]]. intro H. injection H as <- <-. eexists. split; [reflexivity|].
    unfold wsim. cbn [w_now w_store w_rng]. split; [lia|]. split; [exact Hr|]. eapply ssim_mono; [|exact Hs]. lia.
  - destruct (sim_sweep c w1 w2 S) as [S1 S2].
    destruct (sweep c w1) as [st1 wa], (sweep c w2) as [st2 wb]. cbn [fst snd] in *.
    intro H. injection H as <- <-. subst st2. exists wb. split; [reflexivity|exact S2].
  - intro H. injection H as <- <-. eexists. split; [reflexivity|].
    destruct S as [Hn [Hr Hs]]. destruct (c_file c); [|repeat split; assumption].
    cbn [w_now w_store w_rng]. split; [exact Hn|]. split; [exact Hr|]. apply ssim_put. exact Hs.
Qed.

Lemma sim_run (c : cfg) (ops : list op) : forall w1 w2 rs w1',
  wsim w1 w2 -> run c ops w1 = (rs, w1') ->
  exists w2', run c ops w2 = (rs, w2') /\ wsim w1' w2'.
Proof.
  induction ops as [|o r IH]; cbn [run]; intros w1 w2 rs w1' S H.
  - injection H as <- <-. exists w2. split; [reflexivity|exact S].
  - destruct (step c o w1) as [rp wa] eqn:E. destruct (run c r wa) as [rs2 wa2] eqn:E2.
    injection H as <- <-.
    destruct (sim_step _ _ _ _ _ _ S E) as [wb [Eb Sb]]. rewrite Eb.
    destruct (IH _ _ _ _ Sb E2) as [wb2 [Eb2 Sb2]]. rewrite Eb2.
    exists wb2. split; [reflexivity|exact Sb2].
Qed.

(** the instance the property speaks of: replace the data of one expired
    entry by anything *)
Definition replace_data (i : Z) (d' : data) (s : store) : store :=
  map (fun en => match snd en with
                 | Good _ e => if fst en =? i then (fst en, Good d' e) else en
                 | Bad _ => en
                 end) s.

Lemma ssim_replace (now : Z) (i : Z) (d' : data) (s : store) :
  (forall d e, In (i, Good d e) s -> e < now) -> ssim now s (replace_data i d' s).
Proof.
  induction s as [|[k ct] r IH]; intro H; cbn [replace_data map]; [constructor|].
  constructor.
  - cbn [snd fst]. destruct ct as [d e|cls]; [|split; [reflexivity|left; reflexivity]].
    destruct (k =? i) eqn:E; [|split; [reflexivity|left; reflexivity]].
    apply Z.eqb_eq in E. subst k. split; [reflexivity|]. right. exists d, d', e.
    repeat split. apply (H d e). left. reflexivity.
  - apply IH. intros d e Hin. apply (H d e). right. exact Hin.
Qed.

Lemma expired_data_irrelevant (c : cfg) (ops : list op) (w : world) (i : Z) (d' : data) rs w' :
  (forall d e, In (i, Good d e) (w_store w) -> e < w_now w) ->
  run c ops w = (rs, w') ->
  exists w2', run c ops (W (replace_data i d' (w_store w)) (w_now w) (w_rng w)) = (rs, w2')
              /\ wsim w' w2'.
Proof.
  intros H R. eapply sim_run; [|exact R]. repeat split. cbn [w_store]. apply ssim_replace. exact H.
Qed.

(** non-vacuity of the hypothesis of [expired_data_irrelevant]: an expired
    entry that is still stored (not swept), presented again *)
Lemma ex_expired :
  let w := W [(8, Good [(0, 5)] 200); (7, Good [(1, 2)] 60)] 61 [9; 10] in
  (forall d e, In (7, Good d e) (w_store w) -> e < w_now w)
  /\ lookup 7 (w_store w) = Some (Good [(1, 2)] 60)
  /\ fst (do_req (Cfg false 60 true) w (Some 7) [ARead; AWrite 0 1]) = Resp SOk 7 false [[]]
  /\ lookup 7 (w_store (snd (do_req (Cfg false 60 true) w (Some 7) [ARead; AWrite 0 1])))
     = Some (Good [(0, 1)] 121).
Proof.
  cbv zeta. split.
  - intros d e Hin. cbn in Hin. destruct Hin as [Hin|[Hin|[]]]; [discriminate|].
    injection Hin as <- <-. reflexivity.
  - repeat split; vm_compute; reflexivity.
Qed.
