(** Lemmas about the gzip member construction: CRC incremental = whole, the
    loop computes the deflate stream / CRC / size of the concatenation, the
    32-bit fields round-trip, and gunzip (compress chunks) = concat chunks. *)
From Coq Require Import ZArith List Bool Lia.
From CV Require Import Lib.Sx Lib.ListZ LibP.ListZ_facts Model.M_gzipframe.
Import ListNotations.
Open Scope Z_scope.

(* ---------- CRC: incremental = whole ---------- *)

Lemma lxor_mask_invol x : Z.lxor (Z.lxor x mask32) mask32 = x.
Proof. now rewrite Z.lxor_assoc, Z.lxor_nilpotent, Z.lxor_0_r. Qed.

Lemma crc32_update_app c a b :
  crc32_update c (a ++ b) = crc32_update (crc32_update c a) b.
Proof.
  unfold crc32_update. rewrite fold_left_app, lxor_mask_invol. reflexivity.
Qed.

Lemma crc32_update_nil c : crc32_update c [] = c.
Proof. unfold crc32_update. cbn [fold_left]. apply lxor_mask_invol. Qed.

Lemma crc32_nil : crc32 [] = 0.
Proof. reflexivity. Qed.

(** chunk-wise update over any chunking = one update over the concatenation *)
Lemma crc32_chunks c (body : list (list Z)) :
  fold_left crc32_update body c = crc32_update c (concat body).
Proof.
  revert c; induction body as [|l r IH]; intros c; cbn [fold_left concat].
  - now rewrite crc32_update_nil.
  - rewrite IH, crc32_update_app. reflexivity.
Qed.

(* ---------- 32-bit fields ---------- *)

Lemma mask32_ones : mask32 = Z.ones 32.
Proof. reflexivity. Qed.

Lemma land_mask32 x : Z.land x mask32 = x mod 4294967296.
Proof. rewrite mask32_ones, Z.land_ones by lia. reflexivity. Qed.

Lemma land_mask32_range x : 0 <= Z.land x mask32 < 4294967296.
Proof. rewrite land_mask32. apply Z.mod_pos_bound. lia. Qed.

Lemma unle32_le32 v : 0 <= v < 4294967296 -> unle32 (le32 v) = Some v.
Proof.
  intros H. unfold le32, unle32. f_equal.
  pose proof (Z.div_mod v 256 ltac:(lia)) as H0.
  pose proof (Z.div_mod (v / 256) 256 ltac:(lia)) as H1.
  pose proof (Z.div_mod (v / 256 / 256) 256 ltac:(lia)) as H2.
  assert (0 <= v / 256 / 256 / 256 < 256) as H3.
  { split.
    - repeat apply Z.div_pos; lia.
    - repeat (apply Z.div_lt_upper_bound; [lia|]). lia. }
  rewrite (Z.mod_small (v / 256 / 256 / 256) 256) by lia.
  lia.
Qed.

Lemma le32_length v : lenZ (le32 v) = 4.
Proof. reflexivity. Qed.

Lemma take4_le32 a b : takeZ 4 (le32 a ++ le32 b) = le32 a.
Proof. reflexivity. Qed.

Lemma drop4_le32 a b : dropZ 4 (le32 a ++ le32 b) = le32 b.
Proof. reflexivity. Qed.

(* ---------- the loop ---------- *)

Section Zlib.
  Variable zst : Type.
  Variable zinit : Z -> zst.
  Variable zcompress : zst -> list Z -> list Z * zst.
  Variable zflush : zst -> list Z.
  Variable inflate : list Z -> option (list Z * list Z).

  Lemma gz_loop_spec body : forall z crc size outs zf crcf sizef,
    gz_loop zst zcompress z crc size body = (outs, zf, crcf, sizef) ->
    concat outs ++ zflush zf = zstream zst zcompress zflush z body
    /\ crcf = crc32_update crc (concat body)
    /\ sizef = size + lenZ (concat body).
  Proof.
    induction body as [|line rest IH]; intros z crc size outs zf crcf sizef H.
    - cbn [gz_loop] in H. inversion H; subst. cbn [concat zstream app].
      rewrite crc32_update_nil. change (lenZ (@nil Z)) with 0. repeat split; lia.
    - cbn [gz_loop] in H.
      destruct (zcompress z line) as [out z'] eqn:Ec.
      destruct (gz_loop zst zcompress z' (crc32_update crc line) (size + lenZ line) rest)
        as [[[outs' zf'] crcf'] sizef'] eqn:El.
      inversion H; subst. clear H.
      destruct (IH _ _ _ _ _ _ _ El) as (Hs & Hc & Hn).
      cbn [concat zstream]. rewrite Ec. rewrite <- app_assoc, Hs.
      rewrite crc32_update_app, lenZ_app. repeat split; [assumption | lia].
  Qed.

  (** the flattened output of the generator *)
  Lemma compress_flat level now body :
    concat (compress zst zinit zcompress zflush level now body) =
    [31; 139; 8; 0] ++ le32 (Z.land now mask32) ++ [xfl_of_level level; 255]
    ++ zstream zst zcompress zflush (zinit level) body
    ++ le32 (Z.land (crc32 (concat body)) mask32)
    ++ le32 (Z.land (lenZ (concat body)) mask32).
  Proof.
    unfold compress.
    destruct (gz_loop zst zcompress (zinit level) (crc32 []) 0 body) as [[[outs zf] crc] size] eqn:El.
    destruct (gz_loop_spec _ _ _ _ _ _ _ _ El) as (Hs & Hc & Hn).
    rewrite crc32_nil in Hc. subst crc size.
    unfold gz_header. rewrite !concat_app. cbn [concat]. rewrite !app_nil_r.
    rewrite <- Hs. cbn [app]. rewrite <- !app_assoc. reflexivity.
  Qed.

  (** every chunking is yielded as exactly ten header bytes first *)
  Lemma header_is_ten level now : lenZ (concat (gz_header level now)) = 10.
  Proof. reflexivity. Qed.

  Hypothesis inflate_spec : forall level body rest,
    inflate (zstream zst zcompress zflush (zinit level) body ++ rest) = Some (concat body, rest).

  Theorem thm_gzip_valid level now (chunks : list (list Z)) :
    gunzip inflate (concat (compress zst zinit zcompress zflush level now chunks))
    = GzOk (concat chunks).
  Proof.
    rewrite compress_flat.
    set (crc := Z.land (crc32 (concat chunks)) mask32).
    set (isz := Z.land (lenZ (concat chunks)) mask32).
    unfold le32 at 1. cbn [app]. unfold gunzip.
    change (negb ((31 =? 31) && (139 =? 139))) with false.
    change (negb (8 =? 8)) with false.
    change (negb (Z.land 0 224 =? 0)) with false.
    change (Z.testbit 0 2) with false. change (Z.testbit 0 3) with false.
    change (Z.testbit 0 4) with false. change (Z.testbit 0 1) with false.
    cbn [skip_if bind].
    rewrite inflate_spec.
    rewrite take4_le32, drop4_le32.
    rewrite !unle32_le32 by apply land_mask32_range.
    subst crc isz. rewrite Z.eqb_refl. cbn [negb].
    rewrite (land_mask32 (lenZ (concat chunks))), Z.eqb_refl. reflexivity.
  Qed.
End Zlib.

(* ---------- the hypothesis is satisfiable: a toy self-terminating codec ----------
   every byte b is sent as [1; b], the end of the stream as [0] *)

Definition toy_enc (l : list Z) : list Z := flat_map (fun b => [1; b]) l.
Definition toy_compress (z : unit) (line : list Z) : list Z * unit := (toy_enc line, tt).
Definition toy_flush (z : unit) : list Z := [0].
Fixpoint toy_inflate_go (acc b : list Z) (fuel : nat) : option (list Z * list Z) :=
  match fuel with
  | O => None
  | S f =>
    match b with
    | 0 :: r => Some (acc, r)
    | 1 :: x :: r => toy_inflate_go (acc ++ [x]) r f
    | _ => None
    end
  end.
Definition toy_inflate (b : list Z) : option (list Z * list Z) := toy_inflate_go [] b (S (length b)).

Lemma toy_enc_app a b : toy_enc (a ++ b) = toy_enc a ++ toy_enc b.
Proof. unfold toy_enc. now rewrite flat_map_app. Qed.

Lemma toy_zstream body : forall z,
  zstream unit toy_compress toy_flush z body = toy_enc (concat body) ++ [0].
Proof.
  induction body as [|l r IH]; intros z; cbn [zstream concat].
  - reflexivity.
  - unfold toy_compress at 1. rewrite IH, toy_enc_app, <- app_assoc. reflexivity.
Qed.

Lemma toy_inflate_go_spec data : forall acc rest fuel,
  (length (toy_enc data ++ 0%Z :: rest) < fuel)%nat ->
  toy_inflate_go acc (toy_enc data ++ 0 :: rest) fuel = Some (acc ++ data, rest).
Proof.
  induction data as [|x r IH]; intros acc rest fuel Hf.
  - cbn [toy_enc flat_map app] in *. destruct fuel; [cbn [length] in Hf; lia|].
    cbn [toy_inflate_go]. now rewrite app_nil_r.
  - change (toy_enc (x :: r)) with (1 :: x :: toy_enc r) in *. cbn [app] in *.
    destruct fuel; [cbn [length] in Hf; lia|]. cbn [toy_inflate_go].
    rewrite IH by (cbn [length] in Hf; lia).
    now rewrite <- app_assoc.
Qed.

Lemma toy_inflate_spec : forall (level : Z) body rest,
  toy_inflate (zstream unit toy_compress toy_flush ((fun _ => tt) level) body ++ rest)
  = Some (concat body, rest).
Proof.
  intros level body rest. rewrite toy_zstream, <- app_assoc. cbn [app].
  unfold toy_inflate. rewrite toy_inflate_go_spec by lia. reflexivity.
Qed.

(** non-vacuity: the generator instantiated with the toy codec, on a chunking
    with empty chunks, read back by the member reader *)
Lemma ex_gzip_nonvacuous :
  (forall (level : Z) body rest,
     toy_inflate (zstream unit toy_compress toy_flush ((fun _ => tt) level) body ++ rest)
     = Some (concat body, rest))
  /\ gunzip toy_inflate
       (concat (compress unit (fun _ => tt) toy_compress toy_flush 9 5000000000 [[97; 98]; []; [99]; []]))
     = GzOk [97; 98; 99]
  /\ concat (compress unit (fun _ => tt) toy_compress toy_flush 9 5000000000 [[97; 98]; []; [99]; []])
     = [31; 139; 8; 0; 0; 242; 5; 42; 2; 255] ++ [1; 97; 1; 98; 1; 99; 0]
       ++ [194; 65; 36; 53] ++ [3; 0; 0; 0].
Proof.
  split; [exact toy_inflate_spec|]. split; vm_compute; reflexivity.
Qed.

(** the stored-block codec used by run_C17 reads back what it writes (checked
    here on a concrete chunking; on every differential case by run_C17 itself) *)
Lemma ex_stored_roundtrip :
  gunzip_stored (concat (compress_stored 1 0 [[1; 2; 3]; []; [4]])) = GzOk [1; 2; 3; 4].
Proof. vm_compute. reflexivity. Qed.
