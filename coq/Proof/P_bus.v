(** P_bus - lemmas about the bus model: the priority sort, what one publish adds to the
    journal, what it leaves unchanged. *)
From Coq Require Import ZArith List Bool Lia Permutation Sorted.
From CV Require Import Lib.Sx Lib.ListZ Model.M_bus.
Import ListNotations.
Open Scope Z_scope.

(* ------------------------------------------------------------------ sort *)
Definition le_prio (a b : item) : Prop := fst a <= fst b.

Lemma insert_prio_perm : forall x l, Permutation (insert_prio x l) (x :: l).
Proof.
  intros x l. induction l as [|y r IH]; cbn [insert_prio]; [reflexivity|].
  destruct (fst x <=? fst y); [reflexivity|].
  rewrite IH. apply perm_swap.
Qed.

Lemma sort_prio_perm : forall l, Permutation (sort_prio l) l.
Proof.
  induction l as [|x r IH]; cbn [sort_prio]; [reflexivity|].
  rewrite insert_prio_perm. now constructor.
Qed.

Lemma insert_prio_sorted : forall x l,
  StronglySorted le_prio l -> StronglySorted le_prio (insert_prio x l).
Proof.
  intros x l H. induction H as [|y r Hs IH Hy]; cbn [insert_prio].
  - repeat constructor.
  - destruct (fst x <=? fst y) eqn:E.
    + apply Z.leb_le in E. constructor; [now constructor|].
      constructor; [exact E|].
      eapply Forall_impl; [|exact Hy]. intros a Ha. unfold le_prio in *. lia.
    + apply Z.leb_gt in E. constructor; [exact IH|].
      eapply Permutation_Forall; [symmetry; apply insert_prio_perm|].
      constructor; [unfold le_prio; lia|exact Hy].
Qed.

Lemma sort_prio_sorted : forall l, StronglySorted le_prio (sort_prio l).
Proof.
  induction l as [|x r IH]; cbn [sort_prio]; [constructor|].
  now apply insert_prio_sorted.
Qed.

(* stability: listeners of one priority keep the order of the snapshot (the set's order) *)
Lemma insert_prio_stable : forall p x l,
  filter (fun it => fst it =? p) (insert_prio x l) = filter (fun it => fst it =? p) (x :: l).
Proof.
  intros p x l. induction l as [|y r IH]; cbn [insert_prio]; [reflexivity|].
  destruct (fst x <=? fst y) eqn:E; [reflexivity|].
  apply Z.leb_gt in E.
  cbn [filter] in *. rewrite IH.
  destruct (fst x =? p) eqn:Ex, (fst y =? p) eqn:Ey; try reflexivity.
  apply Z.eqb_eq in Ex, Ey. lia.
Qed.

Lemma sort_prio_stable : forall p l,
  filter (fun it => fst it =? p) (sort_prio l) = filter (fun it => fst it =? p) l.
Proof.
  intros p l. induction l as [|x r IH]; cbn [sort_prio]; [reflexivity|].
  rewrite insert_prio_stable. cbn [filter]. now rewrite IH.
Qed.

(* ------------------------------------------------------------------ log listeners that do not raise *)
(* a quiet listener does nothing and returns; [logq]: every listener on the log channel is quiet;
   [log_subs_quiet]: no script ever subscribes a non-quiet listener to the log channel *)
Definition quietb (c : cfg) (id : Z) : bool :=
  match beh c id with ([], Ok) => true | _ => false end.
Definition quiet (c : cfg) (id : Z) : Prop := beh c id = ([], Ok).

Lemma quietb_quiet : forall c id, quietb c id = true -> quiet c id.
Proof.
  unfold quietb, quiet. intros c id H. destruct (beh c id) as [[|a l] [| | |]]; try discriminate. reflexivity.
Qed.

Definition subq (c : cfg) (s : sub) : Prop := s_ch s = CH_LOG -> quiet c (s_id s).
Definition logq (c : cfg) (w : world) : Prop := Forall (subq c) (w_subs w).

Definition act_logq (c : cfg) (a : action) : bool :=
  match a with ASub ch id _ => if ch =? CH_LOG then quietb c id else true | _ => true end.
Definition log_subs_quiet (c : cfg) : bool :=
  forallb (fun s : script => forallb (act_logq c) (fst s)) (c_behs c).

Lemma nthZ_In : forall A (l : list A) n x, nthZ n l = Some x -> In x l.
Proof.
  intros A l. induction l as [|y r IH]; intros n x H; cbn [nthZ] in H; [discriminate|].
  destruct (n =? 0); [inversion H; now left|].
  destruct (n <? 0); [discriminate|]. right. eauto.
Qed.

Lemma beh_logq : forall c id, log_subs_quiet c = true -> forallb (act_logq c) (fst (beh c id)) = true.
Proof.
  intros c id H. unfold beh. destruct (nthZ id (c_behs c)) eqn:E; [|reflexivity].
  unfold log_subs_quiet in H. rewrite forallb_forall in H. apply H. eapply nthZ_In; eauto.
Qed.

Lemma Forall_filter : forall A (P : A -> Prop) (g : A -> bool) l, Forall P l -> Forall P (filter g l).
Proof.
  intros A P g l H. induction H as [|x r Hx _ IH]; cbn [filter]; [constructor|].
  destruct (g x); [constructor|]; auto.
Qed.

Lemma Forall_ins_sub : forall c (P : sub -> Prop) x l, P x -> Forall P l -> Forall P (ins_sub c x l).
Proof.
  intros c P x l Hx H. induction H as [|y r Hy Hr IH]; cbn [ins_sub]; [repeat constructor; auto|].
  destruct (rank c (s_id x) <? rank c (s_id y)).
  - constructor; [exact Hx|]. constructor; assumption.
  - constructor; assumption.
Qed.

Lemma logq_unsub : forall c ch id w, logq c w -> logq c (set_subs (unsubscribe ch id (w_subs w)) w).
Proof. intros c ch id w H. unfold logq in *. cbn [set_subs w_subs]. now apply Forall_filter. Qed.

Lemma logq_sub : forall c ch id p w, (ch = CH_LOG -> quiet c id) ->
  logq c w -> logq c (set_subs (subscribe c ch id p (w_subs w)) w).
Proof.
  intros c ch id p w Hq H. unfold logq in *. cbn [set_subs w_subs]. unfold subscribe.
  apply Forall_ins_sub; [exact Hq|]. now apply Forall_filter.
Qed.

Lemma logq_snapshot : forall c w, logq c w -> Forall (fun it => quiet c (snd it)) (snapshot CH_LOG w).
Proof.
  intros c w H. unfold logq, snapshot in *. induction H as [|s r Hs _ IH]; cbn [filter map]; [constructor|].
  destruct (s_ch s =? CH_LOG) eqn:E; [|exact IH].
  cbn [map]. constructor; [|exact IH]. cbn [snd]. apply Hs. now apply Z.eqb_eq.
Qed.

(* ------------------------------------------------------------------ what a step may do *)
(* [St c P w w']: state and execv unchanged, the journal grew by entries that satisfy P, log
   listeners stay quiet *)
Definition St (c : cfg) (P : jent -> Prop) (w w' : world) : Prop :=
  w_state w' = w_state w /\ w_execv w' = w_execv w /\
  (exists new, w_journal w' = new ++ w_journal w /\ Forall P new) /\
  (log_subs_quiet c = true -> logq c w -> logq c w').

Lemma St_refl : forall c P w, St c P w w.
Proof. intros. repeat split; auto. exists []. split; [reflexivity|constructor]. Qed.

Lemma St_trans : forall c P w1 w2 w3, St c P w1 w2 -> St c P w2 w3 -> St c P w1 w3.
Proof.
  intros c P w1 w2 w3 (s1 & e1 & (n1 & j1 & f1) & l1) (s2 & e2 & (n2 & j2 & f2) & l2).
  repeat split; try congruence; auto.
  exists (n2 ++ n1). split; [rewrite j2, j1; now rewrite app_assoc|].
  apply Forall_app. now split.
Qed.

Lemma St_weaken : forall c (P Q : jent -> Prop) w w',
  (forall j, P j -> Q j) -> St c P w w' -> St c Q w w'.
Proof.
  intros c P Q w w' H (s & e & (n & j & f) & l). repeat split; auto.
  exists n. split; [exact j|]. eapply Forall_impl; eauto.
Qed.

(* an entry written by publish at depth d on channel ch while the bus was in state s *)
Definition newent (d ch s : Z) (j : jent) : Prop :=
  j_state j = s /\ (d < j_depth j \/ (j_depth j = d /\ j_ch j = ch)).
Definition deeper (d s : Z) (j : jent) : Prop := j_state j = s /\ d < j_depth j.

Definition rec_ok (c : cfg) (rec : Z -> Z -> world -> world * pres) : Prop :=
  forall d ch w w' r, rec d ch w = (w', r) -> St c (newent d ch (w_state w)) w w'.

Lemma newent_deeper : forall d ch s j, newent (d + 1) ch s j -> deeper d s j.
Proof. unfold newent, deeper. intros d ch s j [H1 H2]. split; [exact H1|lia]. Qed.

Lemma deeper_newent : forall d ch s j, deeper d s j -> newent d ch s j.
Proof. unfold newent, deeper. intros d ch s j [H1 H2]. split; [exact H1|now left]. Qed.

Lemma run_acts_ok : forall c rec, rec_ok c rec ->
  forall d acts fin w w' r,
  (log_subs_quiet c = true -> forallb (act_logq c) acts = true) ->
  run_acts c rec d acts fin w = (w', r) -> St c (deeper d (w_state w)) w w'.
Proof.
  intros c rec Hrec d acts. induction acts as [|a acts IH]; intros fin w w' r Hnl H; cbn [run_acts] in H.
  - inversion H; subst. apply St_refl.
  - assert (Hnl' : log_subs_quiet c = true -> forallb (act_logq c) acts = true).
    { intros Hc. specialize (Hnl Hc). cbn [forallb] in Hnl. now apply andb_true_iff in Hnl. }
    destruct a as [ch id p|ch id|ch].
    + apply IH in H; [|exact Hnl']. cbn [set_subs w_state] in H.
      eapply St_trans; [|exact H].
      repeat split; auto. { exists []. split; [reflexivity|constructor]. }
      intros Hc Hl. apply logq_sub; [|exact Hl]. intros Hch.
      specialize (Hnl Hc). cbn [forallb act_logq] in Hnl. apply andb_true_iff in Hnl.
      destruct Hnl as [Hn _]. subst ch. rewrite Z.eqb_refl in Hn. now apply quietb_quiet.
    + apply IH in H; [|exact Hnl']. cbn [set_subs w_state] in H.
      eapply St_trans; [|exact H].
      repeat split; auto. { exists []. split; [reflexivity|constructor]. }
      intros _ Hl. now apply logq_unsub.
    + destruct (rec (d + 1) ch w) as [w1 pr] eqn:E.
      pose proof (Hrec _ _ _ _ _ E) as H1.
      apply (St_weaken c _ (deeper d (w_state w))) in H1; [|intros j; apply newent_deeper].
      assert (Hs : w_state w1 = w_state w) by apply H1.
      destruct pr; try (inversion H; subst; exact H1).
      apply IH in H; [|exact Hnl']. rewrite Hs in H. eapply St_trans; eauto.
Qed.

Lemma log_call_St : forall c d ch id w,
  St c (newent d ch (w_state w)) w (log_call d ch id w).
Proof.
  intros. repeat split; auto.
  exists [J d ch id (w_state w)]. split; [reflexivity|].
  constructor; [|constructor]. split; [reflexivity|]. right. now split.
Qed.

Lemma call_listener_ok : forall c rec, rec_ok c rec ->
  forall d ch id w w' r, call_listener c rec d ch id w = (w', r) ->
  St c (newent d ch (w_state w)) w w'.
Proof.
  intros c rec Hrec d ch id w w' r H. unfold call_listener in H.
  apply run_acts_ok in H; [|exact Hrec|intros; now apply beh_logq].
  eapply St_trans; [apply log_call_St|].
  eapply St_weaken; [|exact H]. intros j. apply deeper_newent.
Qed.

Lemma pub_loop_ok : forall c rec, rec_ok c rec ->
  forall d ch items w fails outs w' r,
  pub_loop c rec d ch items w fails outs = (w', r) -> St c (newent d ch (w_state w)) w w'.
Proof.
  intros c rec Hrec d ch items. induction items as [|[p id] rest IH]; intros w fails outs w' r H;
    cbn [pub_loop] in H.
  - inversion H; subst. apply St_refl.
  - destruct (call_listener c rec d ch id w) as [w1 r1] eqn:E1.
    pose proof (call_listener_ok _ _ Hrec _ _ _ _ _ _ E1) as H1.
    assert (Hs : w_state w1 = w_state w) by apply H1.
    destruct r1.
    + apply IH in H. rewrite Hs in H. eapply St_trans; eauto.
    + destruct (ch =? CH_LOG).
      * apply IH in H. rewrite Hs in H. eapply St_trans; eauto.
      * destruct (rec (d + 1) CH_LOG w1) as [w2 lr] eqn:E2.
        pose proof (Hrec _ _ _ _ _ E2) as H2. rewrite Hs in H2.
        apply (St_weaken c _ (newent d ch (w_state w))) in H2;
          [|intros j Hj; apply deeper_newent; eapply newent_deeper; exact Hj].
        assert (Hs2 : w_state w2 = w_state w) by (destruct H2 as [H2 _]; congruence).
        assert (H12 : St c (newent d ch (w_state w)) w w2) by (eapply St_trans; eauto).
        destruct lr; try (inversion H; subst; exact H12).
        apply IH in H. rewrite Hs2 in H. eapply St_trans; eauto.
    + inversion H; subst. exact H1.
    + inversion H; subst. exact H1.
    + inversion H; subst. exact H1.
Qed.

Lemma publish_ok : forall c fuel, rec_ok c (publish c fuel).
Proof.
  intros c fuel. induction fuel as [|f IH]; intros d ch w w' r H; cbn [publish] in H.
  - inversion H; subst. apply St_refl.
  - eapply pub_loop_ok; eauto.
Qed.

(* ------------------------------------------------------------------ quiet listeners, the log publish *)
Lemma call_listener_quiet : forall c rec d ch id w, quiet c id ->
  call_listener c rec d ch id w = (log_call d ch id w, ROk).
Proof. intros c rec d ch id w H. unfold call_listener. rewrite H. reflexivity. Qed.

Lemma pub_loop_quiet : forall c rec d ch items w fails outs w' r,
  Forall (fun it : item => quiet c (snd it)) items ->
  pub_loop c rec d ch items w fails outs = (w', r) ->
  r = (if is_nil fails then POk (rev outs ++ map snd items) else PFail (rev fails)).
Proof.
  intros c rec d ch items. induction items as [|[p id] rest IH]; intros w fails outs w' r Hq H;
    cbn [pub_loop] in H.
  - inversion H; subst. cbn [map]. now rewrite app_nil_r.
  - inversion Hq as [|x l Hx Hl]; subst. cbn [snd] in Hx.
    rewrite (call_listener_quiet _ _ _ _ _ _ Hx) in H.
    apply IH in H; [|exact Hl]. rewrite H. cbn [rev map snd]. now rewrite <- app_assoc.
Qed.

Definition rec_logq (c : cfg) (rec : Z -> Z -> world -> world * pres) : Prop :=
  forall d w w' r, logq c w -> rec d CH_LOG w = (w', r) -> (exists o, r = POk o) \/ r = PFuel.
Definition rec_logq_strict (c : cfg) (rec : Z -> Z -> world -> world * pres) : Prop :=
  forall d w w' r, logq c w -> rec d CH_LOG w = (w', r) -> exists o, r = POk o.

Lemma sorted_log_quiet : forall c w, logq c w ->
  Forall (fun it : item => quiet c (snd it)) (sort_prio (snapshot CH_LOG w)).
Proof.
  intros c w H. eapply Permutation_Forall; [symmetry; apply sort_prio_perm|]. now apply logq_snapshot.
Qed.

Lemma publish_logq_strict : forall c fuel, rec_logq_strict c (publish c (S fuel)).
Proof.
  intros c fuel d w w' r Hq H. cbn [publish] in H.
  apply pub_loop_quiet in H; [|now apply sorted_log_quiet]. cbn [is_nil] in H. eauto.
Qed.

Lemma publish_logq : forall c fuel, rec_logq c (publish c fuel).
Proof.
  intros c [|f] d w w' r Hq H.
  - cbn [publish] in H. inversion H; subst. destruct (is_nil (snapshot CH_LOG w')); [left; eauto|now right].
  - left. eapply publish_logq_strict; eauto.
Qed.

(* ------------------------------------------------------------------ the journal of one publish *)
Definition at_depth (d : Z) (j : jent) : bool := j_depth j =? d.
Definition completed (r : pres) : Prop := (exists o, r = POk o) \/ (exists f, r = PFail f).
Definition log_quiet_or (c : cfg) (ch : Z) (w : world) : Prop :=
  ch = CH_LOG \/ (log_subs_quiet c = true /\ logq c w).

Lemma filter_none : forall A (f : A -> bool) l, Forall (fun x => f x = false) l -> filter f l = [].
Proof.
  intros A f l H. induction H as [|x r Hx _ IH]; cbn [filter]; [reflexivity|]. now rewrite Hx.
Qed.

Lemma St_deeper_filter : forall c d s w w',
  St c (deeper d s) w w' ->
  exists new, w_journal w' = new ++ w_journal w /\ filter (at_depth d) new = [].
Proof.
  intros c d s w w' (_ & _ & (n & j & f) & _). exists n. split; [exact j|].
  apply filter_none. eapply Forall_impl; [|exact f].
  intros a [_ Ha]. unfold at_depth. apply Z.eqb_neq. lia.
Qed.

Lemma log_quiet_or_step : forall c ch P w w', St c P w w' -> log_quiet_or c ch w -> log_quiet_or c ch w'.
Proof.
  intros c ch P w w' (_ & _ & _ & Hl) [H|[H1 H2]]; [now left|right]. split; auto.
Qed.

Definition entry (d ch s : Z) (it : item) : jent := J d ch (snd it) s.

Lemma not_completed_sys : forall k, ~ completed (PSys k).
Proof. intros k [[o H]|[f H]]; discriminate. Qed.
Lemma not_completed_kbd : ~ completed PKbd.
Proof. intros [[o H]|[f H]]; discriminate. Qed.
Lemma not_completed_fuel : ~ completed PFuel.
Proof. intros [[o H]|[f H]]; discriminate. Qed.

Lemma pub_loop_journal : forall c rec, rec_ok c rec -> rec_logq c rec ->
  forall d ch items w fails outs w' r,
  log_quiet_or c ch w ->
  pub_loop c rec d ch items w fails outs = (w', r) -> completed r ->
  exists new, w_journal w' = new ++ w_journal w /\
              filter (at_depth d) new = rev (map (entry d ch (w_state w)) items).
Proof.
  intros c rec Hrec Hlq d ch items. induction items as [|[p id] rest IH]; intros w fails outs w' r Hq H Hc;
    cbn [pub_loop] in H.
  - inversion H; subst. exists []. split; reflexivity.
  - destruct (call_listener c rec d ch id w) as [w1 r1] eqn:E1.
    pose proof (call_listener_ok _ _ Hrec _ _ _ _ _ _ E1) as Hst1.
    pose proof (log_quiet_or_step _ _ _ _ _ Hst1 Hq) as Hq1.
    unfold call_listener in E1.
    apply run_acts_ok in E1; [|exact Hrec|intros; now apply beh_logq].
    cbn [log_call w_state] in E1.
    assert (Hs : w_state w1 = w_state w) by (destruct E1 as [E _]; exact E).
    apply St_deeper_filter in E1. destruct E1 as (n1 & j1 & f1). cbn [log_call w_journal] in j1.
    assert (Hhead : forall newr w2 n2,
              w_journal w2 = n2 ++ w_journal w1 -> filter (at_depth d) n2 = [] ->
              w_journal w' = newr ++ w_journal w2 ->
              filter (at_depth d) newr = rev (map (entry d ch (w_state w)) rest) ->
              exists new, w_journal w' = new ++ w_journal w /\
                filter (at_depth d) new = rev (map (entry d ch (w_state w)) ((p, id) :: rest))).
    { intros newr w2 n2 j2 f2 jr fr.
      exists (newr ++ n2 ++ n1 ++ [J d ch id (w_state w)]). split.
      - rewrite jr, j2, j1. rewrite <- !app_assoc. reflexivity.
      - rewrite !filter_app, fr, f2, f1. cbn [filter]. unfold at_depth at 1. cbn [j_depth].
        rewrite Z.eqb_refl. cbn [map rev entry snd app]. reflexivity. }
    destruct r1.
    + destruct (IH _ _ _ _ _ Hq1 H Hc) as (newr & jr & fr). rewrite Hs in fr.
      eapply (Hhead newr w1 []); eauto.
    + destruct (ch =? CH_LOG) eqn:Ech.
      * destruct (IH _ _ _ _ _ Hq1 H Hc) as (newr & jr & fr). rewrite Hs in fr.
        eapply (Hhead newr w1 []); eauto.
      * destruct (rec (d + 1) CH_LOG w1) as [w2 lr] eqn:E2.
        pose proof (Hrec _ _ _ _ _ E2) as H2.
        pose proof (log_quiet_or_step _ _ _ _ _ H2 Hq1) as Hq2.
        apply (St_weaken c _ (deeper d (w_state w1))) in H2; [|intros j; apply newent_deeper].
        assert (Hs2 : w_state w2 = w_state w) by (destruct H2 as [H2 _]; congruence).
        apply St_deeper_filter in H2. destruct H2 as (n2 & j2 & f2).
        assert (Hlr : (exists o, lr = POk o) \/ lr = PFuel).
        { destruct Hq1 as [Hq1|[_ Hq1]]; [apply Z.eqb_neq in Ech; contradiction|].
          eapply Hlq; eauto. }
        destruct Hlr as [[o Ho]|Ho]; subst lr.
        -- destruct (IH _ _ _ _ _ Hq2 H Hc) as (newr & jr & fr). rewrite Hs2 in fr.
           eapply (Hhead newr w2 n2); eauto.
        -- inversion H; subst. now apply not_completed_fuel in Hc.
    + inversion H; subst. now apply not_completed_sys in Hc.
    + inversion H; subst. now apply not_completed_kbd in Hc.
    + inversion H; subst. now apply not_completed_fuel in Hc.
Qed.

(* ------------------------------------------------------------------ listeners that return or raise Exception *)
Definition no_pubb (a : action) : bool := match a with APub _ => false | _ => true end.
Definition simple (c : cfg) (id : Z) : Prop :=
  forallb no_pubb (fst (beh c id)) = true /\ (snd (beh c id) = Ok \/ snd (beh c id) = Exc).
Definition raises (c : cfg) (it : item) : bool :=
  match snd (beh c (snd it)) with Exc => true | _ => false end.
Definition returns (c : cfg) (it : item) : bool := negb (raises c it).

Lemma run_acts_nopub : forall c rec d acts fin w w' r,
  forallb no_pubb acts = true -> run_acts c rec d acts fin w = (w', r) -> r = sres_of_outcome fin.
Proof.
  intros c rec d acts. induction acts as [|a acts IH]; intros fin w w' r Hn H; cbn [run_acts] in H.
  - now inversion H.
  - cbn [forallb] in Hn. apply andb_true_iff in Hn. destruct Hn as [Ha Hn].
    destruct a; try discriminate; eapply IH; eauto.
Qed.

Lemma is_nil_rev : forall A (l : list A), is_nil (rev l) = is_nil l.
Proof.
  intros A [|x l]; [reflexivity|]. cbn [rev is_nil]. destruct (rev l); reflexivity.
Qed.

Lemma pub_loop_static : forall c rec, rec_ok c rec -> rec_logq_strict c rec ->
  forall d ch items w fails outs w' r,
  log_quiet_or c ch w ->
  Forall (fun it : item => simple c (snd it)) items ->
  pub_loop c rec d ch items w fails outs = (w', r) ->
  r = (let fl := rev fails ++ map snd (filter (raises c) items) in
       if is_nil fl then POk (rev outs ++ map snd (filter (returns c) items)) else PFail fl).
Proof.
  intros c rec Hrec Hlq d ch items. induction items as [|[p id] rest IH]; intros w fails outs w' r Hq Hsim H;
    cbn [pub_loop] in H.
  - inversion H; subst. cbn [filter map]. rewrite !app_nil_r. cbv zeta. now rewrite is_nil_rev.
  - inversion Hsim as [|x l Hx Hl]; subst. cbn [snd] in Hx. destruct Hx as [Hnp Hfin].
    destruct (call_listener c rec d ch id w) as [w1 r1] eqn:E1.
    pose proof (call_listener_ok _ _ Hrec _ _ _ _ _ _ E1) as Hst1.
    pose proof (log_quiet_or_step _ _ _ _ _ Hst1 Hq) as Hq1.
    unfold call_listener in E1. apply run_acts_nopub in E1; [|exact Hnp].
    cbn [filter].
    destruct Hfin as [Hfin|Hfin]; rewrite Hfin in E1; cbn [sres_of_outcome] in E1; subst r1.
    + assert (Hr : raises c (p, id) = false) by (unfold raises; cbn [snd]; now rewrite Hfin).
      assert (Ht : returns c (p, id) = true) by (unfold returns; now rewrite Hr).
      rewrite Hr, Ht.
      apply IH in H; auto. rewrite H. cbv zeta. cbn [rev map snd]. now rewrite <- !app_assoc.
    + assert (Hr : raises c (p, id) = true) by (unfold raises; cbn [snd]; now rewrite Hfin).
      assert (Ht : returns c (p, id) = false) by (unfold returns; now rewrite Hr).
      rewrite Hr, Ht.
      destruct (ch =? CH_LOG) eqn:Ech.
      * apply IH in H; auto. rewrite H. cbv zeta. cbn [rev map snd]. now rewrite <- !app_assoc.
      * destruct (rec (d + 1) CH_LOG w1) as [w2 lr] eqn:E2.
        pose proof (Hrec _ _ _ _ _ E2) as H2.
        pose proof (log_quiet_or_step _ _ _ _ _ H2 Hq1) as Hq2.
        assert (Hlr : exists o, lr = POk o).
        { destruct Hq1 as [Hq1|[_ Hq1]]; [apply Z.eqb_neq in Ech; contradiction|].
          eapply Hlq; eauto. }
        destruct Hlr as [o Ho]; subst lr.
        apply IH in H; auto. rewrite H. cbv zeta. cbn [rev map snd]. now rewrite <- !app_assoc.
Qed.
