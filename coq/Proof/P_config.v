(** Lemmas about the config model: dict.update as "last setter wins", the request
    config as a fold of overlays over per-level dicts, sections scoped by segment
    prefixes. *)
From Coq Require Import ZArith List Bool Lia.
From CV Require Import Lib.Sx Lib.ListZ LibP.ListZ_facts Model.M_dispatch Model.M_unrepr Model.M_config
     Proof.P_dispatch Proof.P_dispatch_thm.
Import ListNotations.
Open Scope Z_scope.

(* ---------- dicts as association lists ---------- *)

(** a Python dict: every key once *)
Definition uniq {A} (c : list (M_dispatch.str * A)) : Prop := NoDup (map fst c).

Lemma eqbZs_refl' a : eqbZs a a = true.
Proof. apply eqbZs_eq. reflexivity. Qed.

Lemma eqbZs_neq a b : a <> b -> eqbZs a b = false.
Proof. intros H. destruct (eqbZs a b) eqn:E; [|reflexivity]. apply eqbZs_eq in E. contradiction. Qed.

Lemma assoc_In_fst {A} k (c : list (M_dispatch.str * A)) v : assoc k c = Some v -> In k (map fst c).
Proof.
  induction c as [|[k' v'] r IH]; cbn [assoc map fst]; [discriminate|].
  destruct (eqbZs k k') eqn:E.
  - apply eqbZs_eq in E. subst. now left.
  - intros H. right. auto.
Qed.

Lemma assoc_notin {A} k (c : list (M_dispatch.str * A)) : ~ In k (map fst c) -> assoc k c = None.
Proof.
  intros H. destruct (assoc k c) eqn:E; [|reflexivity]. exfalso. apply H. eapply assoc_In_fst; eauto.
Qed.

Lemma assoc_set_same k v c : assoc k (conf_set k v c) = Some v.
Proof.
  induction c as [|[k' v'] r IH]; cbn [conf_set assoc].
  - now rewrite eqbZs_refl'.
  - destruct (eqbZs k k') eqn:E; cbn [assoc]; [now rewrite eqbZs_refl' | now rewrite E].
Qed.

Lemma assoc_set_other k k' v c : k <> k' -> assoc k' (conf_set k v c) = assoc k' c.
Proof.
  intros Hne. induction c as [|[k0 v0] r IH]; cbn [conf_set assoc].
  - rewrite eqbZs_neq by congruence. reflexivity.
  - destruct (eqbZs k k0) eqn:E; cbn [assoc].
    + apply eqbZs_eq in E. subst k0. rewrite eqbZs_neq by congruence. reflexivity.
    + destruct (eqbZs k' k0); [reflexivity | exact IH].
Qed.

(** base.update(c): for every key the value c gives it, else the old one *)
Lemma assoc_overlay k : forall c base,
  uniq c ->
  assoc k (overlay base c) = match assoc k c with Some v => Some v | None => assoc k base end.
Proof.
  unfold overlay, conf_update, uniq.
  induction c as [|[k' v'] r IH]; intros base Hu; cbn [fold_left assoc map fst] in *; [reflexivity|].
  inversion Hu as [|? ? Hnin Hu']; subst.
  rewrite IH by exact Hu'. cbn [fst snd].
  destruct (eqbZs k k') eqn:E.
  - apply eqbZs_eq in E. subst k'. rewrite (assoc_notin k r Hnin). apply assoc_set_same.
  - destruct (assoc k r); [reflexivity|]. apply assoc_set_other.
    intros ->. rewrite eqbZs_refl' in E. discriminate.
Qed.

Lemma has_key_overlay_ext k a b : (forall x, assoc x a = assoc x b) -> has_key k a = has_key k b.
Proof. intros H. unfold has_key. now rewrite H. Qed.

(* ---------- the last setter wins ---------- *)

(** the value of key k after overlaying the levels, in order, on g *)
Definition lookup_levels (k : M_dispatch.str) (levels : list conf) (g : conf) : option M_dispatch.str :=
  fold_left (fun (acc : option M_dispatch.str) (c : conf) => match assoc k c with Some v => Some v | None => acc end) levels (assoc k g).

Lemma fold_overlay_assoc k : forall levels g,
  Forall uniq levels ->
  assoc k (fold_left overlay levels g) = lookup_levels k levels g.
Proof.
  unfold lookup_levels.
  induction levels as [|c r IH]; intros g Hu; cbn [fold_left]; [reflexivity|].
  inversion Hu as [|? ? Hc Hr]; subst.
  rewrite IH by exact Hr. rewrite assoc_overlay by exact Hc. reflexivity.
Qed.

Lemma lookup_levels_none k : forall levels acc,
  Forall (fun c => assoc k c = None) levels ->
  fold_left (fun (acc : option M_dispatch.str) (c : conf) => match assoc k c with Some v => Some v | None => acc end) levels acc = acc.
Proof.
  induction levels as [|c r IH]; intros acc H; cbn [fold_left]; [reflexivity|].
  inversion H as [|? ? Hc Hr]; subst. rewrite Hc. apply IH; exact Hr.
Qed.

Lemma lookup_levels_last k l1 c l2 g v :
  assoc k c = Some v -> Forall (fun c' => assoc k c' = None) l2 ->
  lookup_levels k (l1 ++ c :: l2) g = Some v.
Proof.
  intros Hc Hl2. unfold lookup_levels. rewrite fold_left_app. cbn [fold_left]. rewrite Hc.
  apply lookup_levels_none; exact Hl2.
Qed.

(** the value of k is the one from the last level that sets it *)
Lemma thm_last_wins k l1 c l2 g v :
  Forall uniq (l1 ++ c :: l2) ->
  assoc k c = Some v -> Forall (fun c' => assoc k c' = None) l2 ->
  assoc k (fold_left overlay (l1 ++ c :: l2) g) = Some v.
Proof.
  intros Hu Hc Hl2. rewrite fold_overlay_assoc by exact Hu. now apply lookup_levels_last.
Qed.

Lemma thm_nobody_sets k levels g :
  Forall uniq levels -> Forall (fun c => assoc k c = None) levels ->
  assoc k (fold_left overlay levels g) = assoc k g.
Proof.
  intros Hu Hn. rewrite fold_overlay_assoc by exact Hu. unfold lookup_levels.
  apply lookup_levels_none; exact Hn.
Qed.

(** extensional equality of dicts *)
Definition same_dict (a b : conf) : Prop := forall k, assoc k a = assoc k b.

Lemma overlay_ext a b c : uniq c -> same_dict a b -> same_dict (overlay a c) (overlay b c).
Proof. intros Hu H k. rewrite !assoc_overlay by exact Hu. now rewrite H. Qed.

Lemma fold_overlay_ext : forall levels a b,
  Forall uniq levels -> same_dict a b -> same_dict (fold_left overlay levels a) (fold_left overlay levels b).
Proof.
  induction levels as [|c r IH]; intros a b Hu H; cbn [fold_left]; [exact H|].
  inversion Hu; subst. apply IH; [assumption|]. now apply overlay_ext.
Qed.

Lemma in_conf_set k v k0 c : In k0 (map fst (conf_set k v c)) -> k0 = k \/ In k0 (map fst c).
Proof.
  induction c as [|[k1 v1] r IH]; cbn [conf_set map fst].
  - intros [<-|[]]. now left.
  - destruct (eqbZs k k1) eqn:E; cbn [map fst].
    + apply eqbZs_eq in E. subst k1. intros [<-|H]; [now left | right; now right].
    + intros [<-|H]; [right; now left|]. destruct (IH H) as [->|H']; [now left | right; now right].
Qed.

Lemma uniq_conf_set k v c : uniq c -> uniq (conf_set k v c).
Proof.
  unfold uniq. induction c as [|[k0 v0] r IH]; cbn [conf_set map fst]; intros Hu.
  - constructor; [intros []|constructor].
  - inversion Hu as [|? ? Hnin Hr]; subst. destruct (eqbZs k k0) eqn:E; cbn [map fst].
    + apply eqbZs_eq in E. subst. constructor; assumption.
    + constructor; [|apply IH; exact Hr].
      intros Hin. destruct (in_conf_set _ _ _ _ Hin) as [->|H']; [|contradiction].
      rewrite eqbZs_refl' in E. discriminate.
Qed.

Lemma uniq_overlay : forall c base, uniq base -> uniq (overlay base c).
Proof.
  unfold overlay, conf_update. induction c as [|[k v] r IH]; intros base Hb; cbn [fold_left]; [exact Hb|].
  apply IH. now apply uniq_conf_set.
Qed.

Lemma uniq_fold_overlay : forall secs nc, uniq nc -> uniq (fold_left overlay secs nc).
Proof.
  induction secs as [|c r IH]; intros nc H; cbn [fold_left]; [exact H|]. apply IH. now apply uniq_overlay.
Qed.

(** overlaying a dict that is itself an overlay = overlaying its parts in order *)
Lemma overlay_fold_assoc : forall secs base nc,
  uniq nc -> Forall uniq secs ->
  same_dict (overlay base (fold_left overlay secs nc)) (fold_left overlay secs (overlay base nc)).
Proof.
  intros secs base nc Hnc Hs k.
  rewrite assoc_overlay by (apply uniq_fold_overlay; exact Hnc).
  rewrite !fold_overlay_assoc by exact Hs. unfold lookup_levels.
  rewrite assoc_overlay by exact Hnc.
  generalize (assoc k nc) as a. generalize (assoc k base) as b.
  induction Hs as [|c r Hc _ IH]; intros b a; cbn [fold_left].
  - destruct a; reflexivity.
  - destruct (assoc k c) as [v|].
    + exact (IH b (Some v)).
    + apply IH.
Qed.

(* ---------- sections found along the path ---------- *)

(** "/a/b" for the segments [a; b] *)
Definition path_of (segs : list M_dispatch.str) : M_dispatch.str := flat_map (fun s => 47 :: s) segs.

Definition opt_list {A} (o : option A) : list A := match o with Some x => [x] | None => [] end.

(** the sections named cur/s1, cur/s1/s2, ... that exist, shallowest first *)
Fixpoint found_sections (aconf : appconf) (cur : M_dispatch.str) (segs : list M_dispatch.str) : list conf :=
  match segs with
  | [] => []
  | s :: r => let cp := cur ++ 47 :: s in opt_list (assoc cp aconf) ++ found_sections aconf cp r
  end.

Lemma mix_fold aconf : forall segs cur nc,
  mix_sections aconf cur segs nc = fold_left overlay (found_sections aconf cur segs) nc.
Proof.
  induction segs as [|s r IH]; intros cur nc; cbn [mix_sections found_sections]; [reflexivity|].
  rewrite fold_left_app, IH. destruct (assoc (cur ++ 47 :: s) aconf); reflexivity.
Qed.

Lemma join_path_of : forall l, l <> [] -> 47 :: join s_slash l = path_of l.
Proof.
  induction l as [|x r IH]; intros H; [congruence|].
  destruct r as [|y r'].
  - cbn. now rewrite app_nil_r.
  - change (join s_slash (x :: y :: r')) with (x ++ s_slash ++ join s_slash (y :: r')).
    change (path_of (x :: y :: r')) with ((47 :: x) ++ path_of (y :: r')).
    rewrite <- IH by congruence. reflexivity.
Qed.

Lemma path_of_app a b : path_of (a ++ b) = path_of a ++ path_of b.
Proof. unfold path_of. apply flat_map_app. Qed.

Lemma path_of_snoc a s : path_of (a ++ [s]) = path_of a ++ 47 :: s.
Proof. rewrite path_of_app. cbn. now rewrite app_nil_r. Qed.

Lemma takeZ_nonnil {A} (l : list A) n : 0 < n -> l <> [] -> takeZ n l <> [].
Proof.
  intros Hn Hl. destruct l as [|x r]; [congruence|]. cbn [takeZ].
  destruct (0 <? n) eqn:E; [congruence | apply Z.ltb_ge in E; lia].
Qed.

Definition entry_sections (aconf : appconf) (fp : list M_dispatch.str) (flen prev segleft : Z) : list conf :=
  found_sections aconf (path_of (takeZ (flen - prev) fp)) (sliceZ (flen - prev) (flen - segleft) fp).

Lemma step_conf_levels aconf fp flen prev segleft sub :
  0 <= flen - prev -> fp <> [] ->
  step_conf aconf fp flen prev segleft sub
  = fold_left overlay (entry_sections aconf fp flen prev segleft) (node_conf sub).
Proof.
  intros Hn Hfp. unfold step_conf, entry_sections. rewrite mix_fold.
  destruct (flen - prev =? 0) eqn:E.
  - apply Z.eqb_eq in E. rewrite E. rewrite (takeZ_nonpos fp 0) by lia. reflexivity.
  - apply Z.eqb_neq in E. unfold sliceZ at 1. rewrite dropZ_nonpos by lia.
    replace (flen - prev - 0) with (flen - prev) by lia.
    rewrite join_path_of by (apply takeZ_nonnil; [lia | exact Hfp]). reflexivity.
Qed.

Lemma step_conf_same aconf fp flen p o : step_conf aconf fp flen p p o = node_conf o.
Proof.
  unfold step_conf, sliceZ. replace (flen - p - (flen - p)) with 0 by lia.
  rewrite (takeZ_nonpos (dropZ (flen - p) fp) 0) by lia. reflexivity.
Qed.

(* ---------- the trail as a list of levels ---------- *)

(** what the walk guarantees about the entries after the root entry *)
Fixpoint trail_ok (aconf : appconf) (fp : list M_dispatch.str) (flen prev : Z) (t : list entry) : Prop :=
  match t with
  | [] => True
  | e :: r =>
    0 <= e_segleft e <= prev /\
    e_conf e = step_conf aconf fp flen prev (e_segleft e) (e_node e) /\
    trail_ok aconf fp flen (e_segleft e) r
  end.

Lemma walk_ok fuel na aconf fp flen : forall nd iter t,
  walk fuel na aconf fp flen nd iter = WOk t -> trail_ok aconf fp flen (lenZ iter) t.
Proof.
  induction fuel as [|f IH]; intros nd iter t H.
  - destruct iter; cbn [walk] in H; [injection H as <-; exact Logic.I | discriminate].
  - destruct iter as [|name rest]; cbn [walk] in H; [injection H as <-; exact Logic.I|].
    set (iter := name :: rest) in *.
    destruct (step_sub na nd iter) as [sub iter1| |]; try discriminate.
    destruct (lenZ iter <? lenZ iter1) eqn:Eadd; [discriminate|].
    apply Z.ltb_ge in Eadd.
    assert (Hpos : 1 <= lenZ iter).
    { unfold iter. rewrite lenZ_cons. pose proof (lenZ_nonneg rest). lia. }
    remember (if lenZ iter1 =? lenZ iter then tl iter1 else iter1) as iter2 eqn:E2.
    remember (if lenZ iter1 =? lenZ iter then lenZ iter1 - 1 else lenZ iter1) as sl2 eqn:Es.
    assert (Hsl : sl2 = lenZ iter2 /\ lenZ iter2 < lenZ iter).
    { subst iter2 sl2. destruct (lenZ iter1 =? lenZ iter) eqn:Esame.
      - apply Z.eqb_eq in Esame. rewrite lenZ_tl by (apply lenZ_pos_nonnil; lia). lia.
      - apply Z.eqb_neq in Esame. lia. }
    destruct Hsl as [Hsl Hlt].
    destruct (walk f na aconf fp flen sub iter2) as [t'| | | |] eqn:Ew; try discriminate.
    injection H as <-.
    cbn [trail_ok e_segleft e_conf e_node].
    pose proof (lenZ_nonneg iter2).
    split; [lia|]. split; [reflexivity|].
    rewrite Hsl. eapply IH; exact Ew.
Qed.

Lemma insert_at_0 {A} (x : A) l : insert_at 0 x l = x :: l.
Proof. destruct l; reflexivity. Qed.

Lemma insert_default_ok aconf fp flen nm d : forall t prev j e,
  trail_ok aconf fp flen prev t -> nthZ j t = Some e ->
  trail_ok aconf fp flen prev (insert_at (j + 1) (Entry nm (Some d) (n_conf d) (e_segleft e)) t).
Proof.
  induction t as [|a r IH]; intros prev j e Hok Hn; [discriminate|].
  pose proof (nthZ_range _ _ _ Hn) as Hr.
  cbn [trail_ok] in Hok. destruct Hok as (Hb & Hc & Hrest).
  cbn [insert_at]. destruct (j + 1 <=? 0) eqn:E; [apply Z.leb_le in E; lia|].
  destruct (Z.eq_dec j 0) as [->|Hne].
  - cbn [nthZ] in Hn. cbn in Hn. injection Hn as <-.
    replace (0 + 1 - 1) with 0 by lia.
    rewrite insert_at_0. cbn [trail_ok e_segleft e_conf e_node node_conf].
    rewrite step_conf_same. repeat split; try lia; try reflexivity; assumption.
  - rewrite nthZ_cons_pos in Hn by lia.
    cbn [trail_ok]. split; [exact Hb|]. split; [exact Hc|].
    replace (j + 1 - 1) with (j - 1 + 1) by lia. apply IH; assumption.
Qed.

(** the dicts a trail contributes, in merge order: per entry the object's _cp_config,
    then the sections for the path prefixes it consumed (shallowest first), then the
    tools.staticdir.section marker when that level sets tools.staticdir.dir *)
Definition marker (fp : list M_dispatch.str) (flen : Z) (e : entry) : list conf :=
  if has_key s_staticdir_dir (e_conf e)
  then [[(s_staticdir_section, 47 :: join s_slash (sliceZ 0 (flen - e_segleft e) fp))]]
  else [].

Fixpoint trail_levels (aconf : appconf) (fp : list M_dispatch.str) (flen prev : Z) (t : list entry) : list conf :=
  match t with
  | [] => []
  | e :: r =>
    (node_conf (e_node e) :: entry_sections aconf fp flen prev (e_segleft e))
      ++ marker fp flen e ++ trail_levels aconf fp flen (e_segleft e) r
  end.

Definition fh_trail (r : fh) : option (list entry) :=
  match r with
  | FHFound _ _ _ _ _ t => Some t
  | FHNone t => Some t
  | _ => None
  end.

(** set_conf, entry by entry *)
Definition entry_levels (fp : list M_dispatch.str) (flen : Z) (e : entry) : list conf :=
  e_conf e :: marker fp flen e.

Lemma set_conf_fold fp flen : forall trail g,
  set_conf g trail fp flen = fold_left overlay (flat_map (entry_levels fp flen) trail) g.
Proof.
  unfold set_conf. induction trail as [|e r IH]; intros g; cbn [fold_left flat_map]; [reflexivity|].
  rewrite fold_left_app. rewrite IH. f_equal.
  unfold entry_levels, marker. cbn [fold_left].
  destruct (has_key s_staticdir_dir (e_conf e)); reflexivity.
Qed.

(* ---------- the trail handed to set_conf ---------- *)

Definition root_entry (root : node) (aconf : appconf) (flen : Z) : entry :=
  Entry s_root (Some root) (root_conf root aconf) flen.

Lemma final_trail na root aconf path T :
  fh_trail (find_handler na root aconf path) = Some T ->
  exists rest,
    T = root_entry root aconf (lenZ (fullpath_of path)) :: rest /\
    trail_ok aconf (fullpath_of path) (lenZ (fullpath_of path)) (lenZ (fullpath_of path)) rest.
Proof.
  rewrite thm_spec. unfold resolve_spec.
  destruct (trail_of_cases na root aconf path) as [(t & -> & Hw)|[->|[->| ->]]]; try discriminate.
  apply walk_ok in Hw.
  set (fp := fullpath_of path) in *. set (flen := lenZ fp) in *.
  fold (root_entry root aconf flen).
  unfold found_of. destruct (deepest _) as [[[[i e] h] vd]|] eqn:Ed.
  2:{ intros H; injection H as <-. exists t. split; [reflexivity | exact Hw]. }
  destruct vd.
  2:{ intros H; injection H as <-. exists t. split; [reflexivity | exact Hw]. }
  intros H; injection H as <-.
  apply deepest_some in Ed. destruct Ed as (Hn & _ & _).
  pose proof (nthZ_range _ _ _ Hn) as Hr.
  cbn [insert_at]. destruct (i + 1 <=? 0) eqn:E; [apply Z.leb_le in E; lia|].
  replace (i + 1 - 1) with i by lia.
  destruct (Z.eq_dec i 0) as [->|Hne].
  - cbn [nthZ] in Hn. cbn in Hn. injection Hn as <-. rewrite insert_at_0.
    eexists. split; [reflexivity|].
    cbn [trail_ok e_segleft e_conf e_node root_entry]. rewrite step_conf_same.
    pose proof (lenZ_nonneg fp). repeat split; try reflexivity; try (unfold flen; lia). exact Hw.
  - rewrite nthZ_cons_pos in Hn by lia.
    eexists. split; [reflexivity|].
    replace i with (i - 1 + 1) by lia. apply insert_default_ok; assumption.
Qed.

Definition root_levels (aconf : appconf) (root : node) : list conf :=
  n_conf root :: opt_list (assoc s_slash aconf).

(** the merge order the property describes: global, then root (_cp_config, section "/"),
    then level by level down the trail *)
Definition req_levels (aconf : appconf) (root : node) (fp : list M_dispatch.str) (rest : list entry) : list conf :=
  root_levels aconf root ++ marker fp (lenZ fp) (root_entry root aconf (lenZ fp))
              ++ trail_levels aconf fp (lenZ fp) (lenZ fp) rest.

Lemma same_dict_refl a : same_dict a a.
Proof. intro; reflexivity. Qed.

Lemma same_dict_trans a b c : same_dict a b -> same_dict b c -> same_dict a c.
Proof. intros H1 H2 k. now rewrite H1. Qed.

Lemma levels_equiv aconf fp : fp <> [] -> forall rest prev g g',
  trail_ok aconf fp (lenZ fp) prev rest -> prev <= lenZ fp ->
  Forall uniq (trail_levels aconf fp (lenZ fp) prev rest) ->
  same_dict g g' ->
  same_dict (fold_left overlay (flat_map (entry_levels fp (lenZ fp)) rest) g)
            (fold_left overlay (trail_levels aconf fp (lenZ fp) prev rest) g').
Proof.
  intros Hfp. induction rest as [|e r IH]; intros prev g g' Hok Hprev Hu Hg; [exact Hg|].
  cbn [trail_ok] in Hok. destruct Hok as (Hb & Hc & Hr).
  cbn [flat_map trail_levels]. unfold entry_levels at 1.
  cbn [app fold_left] in *. rewrite !fold_left_app.
  inversion Hu as [|? ? Hnc Hu']; subst.
  apply Forall_app in Hu'. destruct Hu' as [Hsecs Hu'].
  apply Forall_app in Hu'. destruct Hu' as [Hmk Hrest].
  apply IH with (prev := e_segleft e); [exact Hr | lia | exact Hrest |].
  apply fold_overlay_ext; [exact Hmk|].
  rewrite Hc. rewrite step_conf_levels by (try lia; exact Hfp).
  eapply same_dict_trans; [apply overlay_fold_assoc; assumption|].
  apply fold_overlay_ext; [exact Hsecs|]. apply overlay_ext; assumption.
Qed.

Lemma root_conf_levels root aconf :
  root_conf root aconf = fold_left overlay (opt_list (assoc s_slash aconf)) (n_conf root).
Proof. unfold root_conf. destruct (assoc s_slash aconf); reflexivity. Qed.

(** request.config = global overlaid with the levels, root first *)
Lemma thm_merge na root aconf gconf path T :
  fh_trail (find_handler na root aconf path) = Some T ->
  exists rest,
    T = root_entry root aconf (lenZ (fullpath_of path)) :: rest /\
    (Forall uniq (req_levels aconf root (fullpath_of path) rest) ->
     same_dict (set_conf gconf T (fullpath_of path) (lenZ (fullpath_of path)))
               (fold_left overlay (req_levels aconf root (fullpath_of path) rest) gconf)).
Proof.
  intros HT. destruct (final_trail _ _ _ _ _ HT) as (rest & -> & Hok).
  exists rest. split; [reflexivity|]. intros Hu.
  set (fp := fullpath_of path) in *.
  rewrite set_conf_fold. unfold req_levels in *. cbn [flat_map].
  unfold entry_levels at 1. cbn [app fold_left]. rewrite !fold_left_app.
  unfold root_levels in Hu. cbn [app] in Hu.
  inversion Hu as [|? ? Hnc Hu']; subst.
  apply Forall_app in Hu'. destruct Hu' as [Hsecs Hu'].
  apply Forall_app in Hu'. destruct Hu' as [Hmk Hrest].
  unfold root_levels. cbn [fold_left].
  apply levels_equiv; [apply fullpath_nonnil | exact Hok | lia | exact Hrest |].
  apply fold_overlay_ext; [exact Hmk|].
  cbn [e_conf root_entry]. rewrite root_conf_levels.
  apply overlay_fold_assoc; assumption.
Qed.

Lemma request_conf_default na root aconf gconf path method cfg :
  request_conf 0 na root aconf gconf path method = Some cfg ->
  exists T, fh_trail (find_handler na root aconf path) = Some T /\
            cfg = set_conf gconf T (fullpath_of path) (lenZ (fullpath_of path)).
Proof.
  unfold request_conf. cbn [Z.eqb]. unfold dispatch_default.
  destruct (find_handler na root aconf path); try discriminate;
    intros H; injection H as <-; eexists; split; reflexivity.
Qed.

(* ---------- scoped: a section off the path contributes nothing ---------- *)

Definition remove_section (p : M_dispatch.str) (aconf : appconf) : appconf :=
  filter (fun sc => negb (eqbZs p (fst sc))) aconf.

(** p names no non-empty segment prefix of the (full) path, and is not "/" *)
Definition off_path (fp : list M_dispatch.str) (p : M_dispatch.str) : Prop :=
  p <> s_slash /\ forall pre suf, fp = pre ++ suf -> pre <> [] -> p <> path_of pre.

Lemma assoc_remove p k aconf : k <> p -> assoc k (remove_section p aconf) = assoc k aconf.
Proof.
  intros Hne. induction aconf as [|[k' c] r IH]; [reflexivity|].
  cbn [remove_section filter fst]. destruct (eqbZs p k') eqn:E; cbn [negb assoc].
  - apply eqbZs_eq in E. subst k'. rewrite eqbZs_neq by exact Hne. exact IH.
  - destruct (eqbZs k k'); [reflexivity | exact IH].
Qed.

Lemma found_sections_remove p aconf : forall segs pre,
  (forall s1 s2, segs = s1 ++ s2 -> s1 <> [] -> p <> path_of (pre ++ s1)) ->
  found_sections (remove_section p aconf) (path_of pre) segs = found_sections aconf (path_of pre) segs.
Proof.
  induction segs as [|s r IH]; intros pre H; cbn [found_sections]; [reflexivity|].
  rewrite <- path_of_snoc.
  rewrite assoc_remove.
  2:{ intros Heq. apply (H [s] r); [reflexivity | congruence | now symmetry]. }
  f_equal. apply IH. intros s1 s2 Hr Hne.
  rewrite <- app_assoc. cbn [app]. apply (H (s :: s1) s2); [now rewrite Hr | congruence].
Qed.

Lemma entry_sections_remove p aconf fp flen prev segleft :
  off_path fp p ->
  entry_sections (remove_section p aconf) fp flen prev segleft = entry_sections aconf fp flen prev segleft.
Proof.
  intros [_ Hoff]. unfold entry_sections. apply found_sections_remove.
  intros s1 s2 Hs Hne. unfold sliceZ in Hs.
  apply (Hoff _ (s2 ++ dropZ (flen - segleft - (flen - prev)) (dropZ (flen - prev) fp))).
  - rewrite <- app_assoc. rewrite (app_assoc s1). rewrite <- Hs. rewrite take_drop, take_drop. reflexivity.
  - destruct (takeZ (flen - prev) fp); destruct s1; cbn; congruence.
Qed.

Lemma step_conf_remove p aconf fp prev segleft sub :
  off_path fp p -> fp <> [] -> 0 <= lenZ fp - prev ->
  step_conf (remove_section p aconf) fp (lenZ fp) prev segleft sub
  = step_conf aconf fp (lenZ fp) prev segleft sub.
Proof.
  intros Hoff Hfp Hn. rewrite !step_conf_levels by assumption.
  now rewrite entry_sections_remove.
Qed.

Lemma walk_remove p fuel na aconf fp : off_path fp p -> fp <> [] -> forall nd iter,
  lenZ iter <= lenZ fp ->
  walk fuel na (remove_section p aconf) fp (lenZ fp) nd iter = walk fuel na aconf fp (lenZ fp) nd iter.
Proof.
  intros Hoff Hfp. induction fuel as [|f IH]; intros nd iter Hlen; [reflexivity|].
  destruct iter as [|name rest]; [reflexivity|]. cbn [walk].
  set (iter := name :: rest) in *.
  destruct (step_sub na nd iter) as [sub iter1| |]; try reflexivity.
  destruct (lenZ iter <? lenZ iter1) eqn:Eadd; [reflexivity|].
  apply Z.ltb_ge in Eadd.
  assert (Hpos : 1 <= lenZ iter).
  { unfold iter. rewrite lenZ_cons. pose proof (lenZ_nonneg rest). lia. }
  remember (if lenZ iter1 =? lenZ iter then tl iter1 else iter1) as iter2 eqn:E2.
  assert (Hlt : lenZ iter2 < lenZ iter).
  { subst iter2. destruct (lenZ iter1 =? lenZ iter) eqn:Esame.
    - apply Z.eqb_eq in Esame. rewrite lenZ_tl by (apply lenZ_pos_nonnil; lia). lia.
    - apply Z.eqb_neq in Esame. lia. }
  rewrite IH by lia. rewrite step_conf_remove by (try assumption; lia). reflexivity.
Qed.

Lemma find_handler_remove p na root aconf path :
  off_path (fullpath_of path) p ->
  find_handler na root (remove_section p aconf) path = find_handler na root aconf path.
Proof.
  intros Hoff. unfold find_handler, trail_of.
  rewrite (walk_remove p _ na aconf (fullpath_of path) Hoff (fullpath_nonnil path)) by lia.
  unfold root_conf. rewrite assoc_remove by (intros Heq; apply (proj1 Hoff); now symmetry).
  reflexivity.
Qed.

Lemma thm_scoped p mode na root aconf gconf path method :
  off_path (fullpath_of path) p ->
  request_conf mode na root (remove_section p aconf) gconf path method
  = request_conf mode na root aconf gconf path method.
Proof.
  intros Hoff. unfold request_conf, dispatch_default, dispatch_method.
  now rewrite (find_handler_remove p na root aconf path Hoff).
Qed.

(* ---------- segment lists vs section names ---------- *)

Definition seg_ok (s : M_dispatch.str) : Prop := s <> [] /\ ~ In 47 s.

Lemma app_slash_inj : forall x y r1 r2,
  ~ In 47 x -> ~ In 47 y ->
  (r1 = [] \/ exists t, r1 = 47 :: t) -> (r2 = [] \/ exists t, r2 = 47 :: t) ->
  x ++ r1 = y ++ r2 -> x = y /\ r1 = r2.
Proof.
  induction x as [|c x IH]; intros y r1 r2 Hx Hy H1 H2 Heq.
  - destruct y as [|d y]; [split; [reflexivity | exact Heq]|].
    cbn [app] in Heq. exfalso. destruct H1 as [->|[t ->]]; [discriminate|].
    injection Heq as <- _. apply Hy. now left.
  - destruct y as [|d y].
    + cbn [app] in Heq. exfalso. destruct H2 as [->|[t ->]]; [discriminate|].
      injection Heq as -> _. apply Hx. now left.
    + cbn [app] in Heq. injection Heq as <- Heq.
      destruct (IH y r1 r2) as [-> ->]; auto.
      * intros Hin. apply Hx. now right.
      * intros Hin. apply Hy. now right.
Qed.

Lemma path_of_shape l : path_of l = [] \/ exists t, path_of l = 47 :: t.
Proof. destruct l as [|x r]; [now left | right; eexists; reflexivity]. Qed.

Lemma path_of_inj : forall a b,
  Forall (fun s => ~ In 47 s) a -> Forall (fun s => ~ In 47 s) b -> path_of a = path_of b -> a = b.
Proof.
  induction a as [|x a IH]; intros b Ha Hb Heq.
  - destruct b; [reflexivity | discriminate].
  - destruct b as [|y b]; [discriminate|].
    change (path_of (x :: a)) with (47 :: x ++ path_of a) in Heq.
    change (path_of (y :: b)) with (47 :: y ++ path_of b) in Heq.
    injection Heq as Heq. inversion Ha; inversion Hb; subst.
    destruct (app_slash_inj x y (path_of a) (path_of b)) as [-> Hr]; auto using path_of_shape.
    f_equal. apply IH; assumption.
Qed.

Lemma split_on_noslash : forall s, Forall (fun w => ~ In 47 w) (split_on 47 s).
Proof.
  induction s as [|c r IH]; cbn [split_on].
  - constructor; [intros []|constructor].
  - destruct (c =? 47) eqn:E.
    + constructor; [intros []|exact IH].
    + apply Z.eqb_neq in E. destruct (split_on 47 r) as [|w ws].
      * constructor; [|constructor]. intros [H|[]]; congruence.
      * inversion IH; subst. constructor; [|assumption].
        intros [H|H]; [congruence | contradiction].
Qed.

Lemma fullpath_noslash path : Forall (fun s => ~ In 47 s) (fullpath_of path).
Proof.
  unfold fullpath_of. apply Forall_app. split.
  - apply Forall_forall. intros x Hx. apply filter_In in Hx. destruct Hx as [Hx _].
    pose proof (split_on_noslash (strip 47 path)) as H. rewrite Forall_forall in H. auto.
  - constructor; [|constructor]. cbn. intuition congruence.
Qed.

(** a section named by a segment list that is not a prefix of the request's segments
    (+ the hidden index token) is off the path - whatever string prefixes they share *)
Lemma off_path_segments path q :
  q <> [] -> Forall seg_ok q ->
  (forall suf, fullpath_of path <> q ++ suf) ->
  off_path (fullpath_of path) (path_of q).
Proof.
  intros Hq Hok Hnp. split.
  - destruct q as [|x r]; [congruence|]. inversion Hok as [|? ? [Hx _] _]; subst.
    destruct x; [congruence|]. cbn. discriminate.
  - intros pre suf Hfp Hpre Heq.
    apply (Hnp suf). rewrite Hfp. f_equal.
    symmetry. apply path_of_inj; [| |exact Heq].
    + eapply Forall_impl; [|exact Hok]. intros s [_ H]; exact H.
    + pose proof (fullpath_noslash path) as H. rewrite Hfp in H. apply Forall_app in H. tauto.
Qed.

(* ---------- find_config: the longest section prefix that sets the key ---------- *)

Fixpoint first_hit (aconf : appconf) (key : M_dispatch.str) (l : list M_dispatch.str) : fc :=
  match l with
  | [] => FCDefault
  | p :: r =>
    match assoc key (match assoc p aconf with Some c => c | None => [] end) with
    | Some v => FCFound v
    | None => first_hit aconf key r
    end
  end.

(** the candidates, longest first, for the REVERSED segment list: /a/b/c, /a/b, /a, / *)
Fixpoint cands_rev (rsegs : list M_dispatch.str) : list M_dispatch.str :=
  match rsegs with
  | [] => [s_slash]
  | s :: r => path_of (rev (s :: r)) :: cands_rev r
  end.

Lemma rcut_none s : ~ In 47 s -> rcut s = None.
Proof.
  induction s as [|c r IH]; intros H; [reflexivity|]. cbn [rcut].
  rewrite IH by (intros Hin; apply H; now right).
  destruct (c =? 47) eqn:E; [|reflexivity]. apply Z.eqb_eq in E. exfalso. apply H. now left.
Qed.

Lemma rcut_app a s : ~ In 47 s -> rcut (a ++ 47 :: s) = Some a.
Proof.
  intros H. induction a as [|c a IH]; cbn [app rcut].
  - now rewrite (rcut_none s H).
  - now rewrite IH.
Qed.

Lemma loop_cands aconf key : forall rsegs fuel,
  Forall seg_ok rsegs -> (length rsegs < fuel)%nat ->
  find_config_loop fuel aconf (match rsegs with [] => s_slash | _ => path_of (rev rsegs) end) key
  = first_hit aconf key (cands_rev rsegs).
Proof.
  induction rsegs as [|s r IH]; intros fuel Hok Hf.
  - destruct fuel as [|f]; [cbn in Hf; lia|]. cbn [find_config_loop first_hit cands_rev s_slash].
    destruct (assoc key _); reflexivity.
  - destruct fuel as [|f]; [cbn in Hf; lia|].
    inversion Hok as [|? ? [Hne Hns] Hr]; subst.
    cbn [cands_rev first_hit]. cbn [rev]. rewrite path_of_snoc.
    set (A := path_of (rev r)).
    assert (Htrail : exists c t, A ++ 47 :: s = c :: t).
    { destruct A; eexists; eexists; reflexivity. }
    destruct Htrail as (c & t & Htrail). rewrite Htrail. cbn [find_config_loop]. rewrite <- Htrail.
    destruct (assoc key _); [reflexivity|].
    rewrite rcut_app by exact Hns.
    specialize (IH f Hr). cbn [length] in Hf.
    destruct r as [|s' r'].
    + subst A. cbn [rev path_of flat_map app].
      assert (E : eqbZs (47 :: s) s_slash = false).
      { apply eqbZs_neq. intros Heq. injection Heq as Heq. congruence. }
      rewrite E. apply IH. cbn. lia.
    + assert (HA : exists c' t', A = c' :: t').
      { subst A. cbn [rev]. rewrite path_of_snoc. destruct (path_of (rev r')); eexists; eexists; reflexivity. }
      destruct HA as (c' & t' & HA). rewrite HA. rewrite <- HA. apply IH. lia.
Qed.

Lemma length_path_of l : (length l <= length (path_of l))%nat.
Proof.
  induction l as [|x r IH]; [cbn; lia|].
  change (path_of (x :: r)) with (47 :: x ++ path_of r). cbn [length]. rewrite app_length. lia.
Qed.

Lemma thm_find_config aconf segs key :
  Forall seg_ok segs ->
  find_config aconf (path_of segs) key = first_hit aconf key (cands_rev (rev segs)).
Proof.
  intros Hok. unfold find_config.
  rewrite <- (loop_cands aconf key (rev segs) (S (S (length
     (match path_of segs with [] => s_slash | _ => path_of segs end))))).
  - rewrite rev_involutive.
    destruct segs as [|x r]; [reflexivity|].
    assert (H : rev (x :: r) <> []).
    { cbn [rev]. destruct (rev r); discriminate. }
    destruct (rev (x :: r)) eqn:E; [congruence|].
    change (path_of (x :: r)) with (47 :: x ++ path_of r). reflexivity.
  - apply Forall_rev. exact Hok.
  - rewrite rev_length. pose proof (length_path_of segs).
    destruct (path_of segs) eqn:E; cbn [length] in *; lia.
Qed.

(** find_config always terminates within its fuel *)
Lemma loop_fuel aconf key : forall fuel trail,
  (length trail < fuel)%nat -> find_config_loop fuel aconf trail key <> FCFuel.
Proof.
  induction fuel as [|f IH]; intros trail Hf; [lia|].
  destruct trail as [|c t]; [cbn; congruence|]. cbn [find_config_loop].
  destruct (assoc key _); [congruence|].
  destruct (rcut (c :: t)) as [p|] eqn:Er; [|congruence].
  assert (Hlen : (length p < length (c :: t))%nat).
  { clear -Er. revert p Er. induction (c :: t) as [|a l IHl]; intros p Er; [discriminate|].
    cbn [rcut] in Er. destruct (rcut l) as [q|].
    - injection Er as <-. cbn [length]. specialize (IHl q eq_refl). lia.
    - destruct (a =? 47); [injection Er as <-; cbn; lia | discriminate]. }
  destruct p as [|c' p'].
  - destruct (eqbZs (c :: t) s_slash) eqn:E; [congruence|].
    apply IH. cbn [length] in *.
    destruct t; [|cbn [length s_slash] in *; lia].
    exfalso. cbn [rcut] in Er. destruct (c =? 47) eqn:Ec; [|discriminate].
    apply Z.eqb_eq in Ec. subst c. cbn in E. discriminate.
  - apply IH. lia.
Qed.

Lemma thm_find_config_total aconf path key : find_config aconf path key <> FCFuel.
Proof. unfold find_config. apply loop_fuel. lia. Qed.
