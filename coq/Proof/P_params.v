(** Codec laws of the parameter model: unquote after quote, for both unquoters. *)
From Coq Require Import ZArith List Bool Lia.
From CV Require Import Lib.Sx Lib.ListZ LibP.ListZ_facts Model.M_params.
Import ListNotations.
Open Scope Z_scope.

Definition byte (c : Z) : Prop := 0 <= c < 256.
Definition ascii (c : Z) : Prop := 0 <= c < 128.

(** ** hex digits *)
Lemma hexdig_facts up v : 0 <= v < 16 ->
  is_hex (hexdig up v) = true /\ hexval (hexdig up v) = v /\ is_ws (hexdig up v) = false
  /\ (hexdig up v =? 37) = false /\ (hexdig up v =? 43) = false /\ (hexdig up v =? 45) = false
  /\ (hexdig up v <? 128) = true.
Proof.
  intros H.
  assert (E : v = 0 \/ v = 1 \/ v = 2 \/ v = 3 \/ v = 4 \/ v = 5 \/ v = 6 \/ v = 7 \/ v = 8 \/ v = 9
              \/ v = 10 \/ v = 11 \/ v = 12 \/ v = 13 \/ v = 14 \/ v = 15) by lia.
  destruct up; repeat (destruct E as [E | E]); subst v; vm_compute; repeat split; reflexivity.
Qed.

Lemma nibbles c : byte c -> 0 <= c / 16 < 16 /\ 0 <= c mod 16 < 16 /\ 16 * (c / 16) + c mod 16 = c.
Proof.
  intros [H0 H1]. pose proof (Z.div_mod c 16 ltac:(lia)). pose proof (Z.mod_pos_bound c 16 ltac:(lia)).
  assert (0 <= c / 16) by (apply Z.div_pos; lia).
  assert (c / 16 < 16) by (apply Z.div_lt_upper_bound; lia).
  lia.
Qed.

Lemma pct_byte_hex u1 u2 a b : 0 <= a < 16 -> 0 <= b < 16 ->
  pct_byte [hexdig u1 a; hexdig u2 b] = Some (16 * a + b).
Proof.
  intros Ha Hb.
  destruct (hexdig_facts u1 a Ha) as (A1 & A2 & A3 & A4 & A5 & A6 & _).
  destruct (hexdig_facts u2 b Hb) as (B1 & B2 & B3 & B4 & B5 & B6 & _).
  unfold pct_byte, py_int16, strip_ws.
  cbn [lstrip_ws]. rewrite A3. cbn [rev app lstrip_ws]. rewrite B3. cbn [rev app].
  rewrite A6, A5. cbn [hex_digits_val]. rewrite A1, B1, A2, B2.
  replace ((0 * 16 + a) * 16 + b) with (16 * a + b) by lia.
  destruct ((0 <=? 16 * a + b) && (16 * a + b <? 256)) eqn:E; [reflexivity|].
  apply andb_false_iff in E. destruct E as [E | E]; [apply Z.leb_gt in E | apply Z.ltb_ge in E]; lia.
Qed.

(** ** shape of one quoted byte *)
Lemma plus2space_app a b : plus2space (a ++ b) = plus2space a ++ plus2space b.
Proof. apply map_app. Qed.

Lemma reserved_false c : reserved c = false ->
  (c =? 37) = false /\ (c =? 38) = false /\ (c =? 59) = false /\ (c =? 61) = false /\ (c =? 43) = false.
Proof.
  unfold reserved. intros H. repeat (apply orb_false_iff in H; destruct H as [H ?]). tauto.
Qed.

(** what one byte looks like on the wire after the parser's '+' -> ' ' replacement *)
Inductive qshape (c : Z) : list Z -> Prop :=
| QLit : (c =? 37) = false -> qshape c [c]
| QPct u1 u2 : qshape c [37; hexdig u1 (c / 16); hexdig u2 (c mod 16)].

Lemma quote_byte_shape ao st c : byte c -> qshape c (plus2space (quote_byte ao st c)).
Proof.
  intros Hc. unfold quote_byte.
  destruct ((c =? 32) && st_plus st) eqn:E1.
  - apply andb_true_iff in E1. destruct E1 as [E1 _]. apply Z.eqb_eq in E1. subst c.
    cbn. now constructor.
  - destruct (st_safe st c && negb (reserved c) && (negb ao || (c <? 128))) eqn:E2.
    + apply andb_true_iff in E2. destruct E2 as [E2 _]. apply andb_true_iff in E2. destruct E2 as [_ E2].
      apply negb_true_iff in E2. destruct (reserved_false _ E2) as (P1 & _ & _ & _ & P5).
      cbn [plus2space map]. rewrite P5. now constructor.
    + destruct (nibbles c Hc) as (Ha & Hb & _).
      destruct (hexdig_facts (st_up1 st) _ Ha) as (_ & _ & _ & _ & A5 & _).
      destruct (hexdig_facts (st_up2 st) _ Hb) as (_ & _ & _ & _ & B5 & _).
      unfold pct. cbn [plus2space map]. rewrite A5, B5. change (37 =? 43) with false. cbn iota. constructor.
Qed.

(** ** the byte-level unquoter of _cpreqbody *)
Lemma unq_b_shape c w rest : byte c -> qshape c w -> unq_b O (w ++ rest) = c :: unq_b O rest.
Proof.
  intros Hc S. destruct S as [E | u1 u2].
  - cbn [app unq_b]. now rewrite E.
  - destruct (nibbles c Hc) as (Ha & Hb & Ec).
    destruct (hexdig_facts u1 _ Ha) as (_ & _ & _ & A4 & _).
    destruct (hexdig_facts u2 _ Hb) as (_ & _ & _ & B4 & _).
    cbn [app unq_b]. change (37 =? 37) with true. cbn iota.
    unfold item2. rewrite A4, B4. rewrite (pct_byte_hex u1 u2 _ _ Ha Hb). rewrite Ec.
    cbn [length unq_b]. reflexivity.
Qed.

Lemma quote_cons ao st c bs : quote ao st (c :: bs) = quote_byte ao st c ++ quote ao st bs.
Proof. reflexivity. Qed.

Lemma unquote_quote_b : forall ao st bs, Forall byte bs -> unquote_plus_b (quote ao st bs) = bs.
Proof.
  intros ao st bs H. unfold unquote_plus_b. induction H as [|c bs Hc _ IH].
  - reflexivity.
  - rewrite quote_cons, plus2space_app.
    rewrite (unq_b_shape c _ _ Hc (quote_byte_shape ao st c Hc)). now rewrite IH.
Qed.

(** ** urllib's strict unquoter, as used for the query string *)
Lemma unq_s_shape c w rest : byte c -> qshape c w -> unq_s O (w ++ rest) = c :: unq_s O rest.
Proof.
  intros Hc S. destruct S as [E | u1 u2].
  - cbn [app unq_s]. now rewrite E.
  - destruct (nibbles c Hc) as (Ha & Hb & Ec).
    destruct (hexdig_facts u1 _ Ha) as (A1 & A2 & _).
    destruct (hexdig_facts u2 _ Hb) as (B1 & B2 & _).
    cbn [app unq_s]. change (37 =? 37) with true. cbn iota.
    rewrite A1, B1, A2, B2. cbn [andb]. cbn [unq_s].
    replace (c / 16 * 16 + c mod 16) with c by lia. reflexivity.
Qed.

Lemma unq_s_quote : forall ao st bs, Forall byte bs -> unq_s O (plus2space (quote ao st bs)) = bs.
Proof.
  intros ao st bs H. induction H as [|c bs Hc _ IH].
  - reflexivity.
  - rewrite quote_cons, plus2space_app.
    rewrite (unq_s_shape c _ _ Hc (quote_byte_shape ao st c Hc)). now rewrite IH.
Qed.

(** the query printer emits ASCII only *)
Lemma quote_byte_ascii st c : byte c -> Forall ascii (quote_byte true st c).
Proof.
  intros Hc. unfold quote_byte.
  destruct ((c =? 32) && st_plus st).
  - repeat constructor; unfold ascii; lia.
  - destruct (st_safe st c && negb (reserved c) && (negb true || (c <? 128))) eqn:E.
    + apply andb_true_iff in E. destruct E as [_ E]. cbn in E. apply Z.ltb_lt in E.
      repeat constructor; unfold ascii, byte in *; lia.
    + destruct (nibbles c Hc) as (Ha & Hb & _).
      destruct (hexdig_facts (st_up1 st) _ Ha) as (_ & _ & _ & _ & _ & _ & A7).
      destruct (hexdig_facts (st_up2 st) _ Hb) as (_ & _ & _ & _ & _ & _ & B7).
      apply Z.ltb_lt in A7, B7.
      assert (0 <= hexdig (st_up1 st) (c / 16)) by (unfold hexdig; destruct (c / 16 <? 10), (st_up1 st); lia).
      assert (0 <= hexdig (st_up2 st) (c mod 16)) by (unfold hexdig; destruct (c mod 16 <? 10), (st_up2 st); lia).
      unfold pct. repeat constructor; unfold ascii; lia.
Qed.

Lemma quote_ascii st bs : Forall byte bs -> Forall ascii (quote true st bs).
Proof.
  intros H. induction H as [|c bs Hc _ IH]; [constructor|].
  rewrite quote_cons. apply Forall_app. split; [now apply quote_byte_ascii | exact IH].
Qed.

Lemma plus2space_ascii l : Forall ascii l -> Forall ascii (plus2space l).
Proof.
  intros H. induction H as [|c l Hc _ IH]; [constructor|].
  cbn [plus2space map]. constructor; [|exact IH].
  destruct (c =? 43); unfold ascii in *; lia.
Qed.

(** on an all-ASCII string the run splitter sees one run *)
Lemma unq_parts_ascii dec l racc : Forall ascii l ->
  unq_parts dec l racc = flush_run dec (rev racc ++ l).
Proof.
  intros H. revert racc. induction H as [|c l Hc _ IH]; intros racc.
  - cbn [unq_parts]. now rewrite app_nil_r.
  - cbn [unq_parts]. destruct (c <? 128) eqn:E.
    + rewrite IH. cbn [rev]. now rewrite <- app_assoc.
    + apply Z.ltb_ge in E. unfold ascii in Hc. lia.
Qed.

Lemma has_pct_false_unq_s l : has_pct l = false -> unq_s O l = l.
Proof.
  unfold has_pct. induction l as [|c r IH]; [reflexivity|].
  cbn [existsb unq_s]. intros H. apply orb_false_iff in H. destruct H as [H1 H2].
  rewrite H1. now rewrite IH.
Qed.

Section QueryCodec.
  Variable dec : list Z -> option (list Z).
  (** the query-string codec is an ASCII superset (utf-8, latin-1, us-ascii): urllib
      hands a component without '%' to the application undecoded *)
  Hypothesis dec_ascii : forall l, Forall ascii l -> dec l = Some l.

  Lemma unquote_quote_s : forall st bs, Forall byte bs ->
    unquote_plus_s dec (quote true st bs) = dec bs.
  Proof.
    intros st bs H. unfold unquote_plus_s.
    pose proof (plus2space_ascii _ (quote_ascii st bs H)) as HA.
    pose proof (unq_s_quote true st bs H) as HU.
    destruct (has_pct (plus2space (quote true st bs))) eqn:E.
    - rewrite unq_parts_ascii by exact HA. cbn [rev app]. unfold flush_run.
      destruct (plus2space (quote true st bs)) eqn:E2.
      + cbn in HU. subst bs. symmetry. apply dec_ascii. constructor.
      + now rewrite HU.
    - rewrite (has_pct_false_unq_s _ E) in HU. rewrite HU in *. symmetry. now apply dec_ascii.
  Qed.
End QueryCodec.
