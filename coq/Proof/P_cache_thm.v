(** The C15 statements over all operation histories, derived from the store
    invariant of Proof/P_cache.v. *)
From Coq Require Import ZArith List Bool Lia Permutation.
From CV Require Import Lib.Sx Lib.ListZ LibP.ListZ_facts Model.M_cache Proof.P_cache.
Import ListNotations.
Open Scope Z_scope.

(** The Cache-Control max-age the code takes from a request, if any. *)
Definition req_max_age (r : request) : option Z :=
  match cc_scan (sort_desc (r_cc r)) with CCMaxAge n => Some n | _ => None end.

(** answered from a stored variant: the stored response itself, or a 304 on its behalf *)
Definition served (ou : outcome) (v : variant) (age : Z) : Prop :=
  ou = OHit v age \/ ou = O304 v age.

(** what a response served from the cache implies about the state it was served from *)
Lemma do_req_hit : forall c r s ou v age fl s',
  do_req c r s = (ou, fl, s') -> served ou v age ->
  s' = s /\ fl = true /\ is_invalidating (r_meth r) = false
  /\ (exists uc, In (r_uri r, uc) (s_store s)
                 /\ In (mkkey c (r_hdrs r) (uc_sel uc), SVar v) (uc_ents uc))
  /\ age = age_of c (s_now s) (v_created v)
  /\ age <= max_age_of c (cc_scan (sort_desc (r_cc r))).
Proof.
  intros c r s ou v age fl s' E Hsv. unfold do_req in E.
  assert (Hmiss : forall s0 fl0 s0', miss c r s0 = (ou, fl0, s0') -> False).
  { intros s0 fl0 s0' Hm. unfold miss in Hm. destruct (handler r s0). inversion Hm; subst.
    destruct Hsv; discriminate. }
  destruct (is_invalidating (r_meth r)) eqn:Em.
  { destruct (handler r (cache_delete (r_uri r) s)). inversion E; subst. destruct Hsv; discriminate. }
  destruct (mem s_no_cache (r_pragma r)).
  { exfalso. eapply Hmiss; exact E. }
  destruct (cache_get c r s) as [s1 ov] eqn:Eg.
  destruct ov as [v0|]; [|exfalso; eapply Hmiss; exact E].
  assert (Hg : s1 = s /\ exists uc, In (r_uri r, uc) (s_store s)
                 /\ In (mkkey c (r_hdrs r) (uc_sel uc), SVar v0) (uc_ents uc)).
  { unfold cache_get in Eg.
    destruct (aget eqbZs (r_uri r) (s_store s)) as [uc|] eqn:E1; [|discriminate].
    destruct (aget eqb_key (mkkey c (r_hdrs r) (uc_sel uc)) (uc_ents uc)) as [[|v1]|] eqn:E2;
      try discriminate.
    inversion Eg; subst. split; [reflexivity|]. exists uc. split.
    - apply (aget_In eqbZs eqbZs_true_iff). exact E1.
    - apply (aget_In eqb_key eqb_key_true_iff). exact E2. }
  destruct Hg as [Hs1 Huc]. subst s1.
  destruct (cc_scan (sort_desc (r_cc r))) eqn:Ecc.
  - destruct (max_age_of c CCDefault <? age_of c (s_now s) (v_created v0)) eqn:El;
      [exfalso; eapply Hmiss; exact E|].
    apply Z.ltb_ge in El.
    destruct (validate_since r v0); inversion E; subst; destruct Hsv as [Hsv|Hsv]; inversion Hsv; subst;
      repeat split; try reflexivity; assumption.
  - destruct (max_age_of c (CCMaxAge n) <? age_of c (s_now s) (v_created v0)) eqn:El;
      [exfalso; eapply Hmiss; exact E|].
    apply Z.ltb_ge in El.
    destruct (validate_since r v0); inversion E; subst; destruct Hsv as [Hsv|Hsv]; inversion Hsv; subst;
      repeat split; try reflexivity; assumption.
  - inversion E; subst. destruct Hsv; discriminate.
  - exfalso. eapply Hmiss; exact E.
Qed.

(** a 304 from the cache is given only for a GET/HEAD whose If-Modified-Since is the
    stored Last-Modified and whose If-Unmodified-Since (if any) is too *)
Lemma thm_304_condition : forall c r s v age fl s',
  do_req c r s = (O304 v age, fl, s') ->
  v_lastmod v <> 0 /\ r_ims r = v_lastmod v /\ (r_ius r = 0 \/ r_ius r = v_lastmod v)
  /\ (r_meth r = 0 \/ r_meth r = 1).
Proof.
  intros c r s v age fl s' E. unfold do_req in E.
  assert (Hmiss : forall s0 fl0 s0', miss c r s0 = (O304 v age, fl0, s0') -> False).
  { intros s0 fl0 s0' Hm. unfold miss in Hm. destruct (handler r s0). discriminate. }
  destruct (is_invalidating (r_meth r)).
  { destruct (handler r (cache_delete (r_uri r) s)). discriminate. }
  destruct (mem s_no_cache (r_pragma r)); [exfalso; eapply Hmiss; exact E|].
  destruct (cache_get c r s) as [s1 [v0|]]; [|exfalso; eapply Hmiss; exact E].
  assert (Hv : validate_since r v0 = RV304 -> v0 = v ->
               v_lastmod v <> 0 /\ r_ims r = v_lastmod v /\ (r_ius r = 0 \/ r_ius r = v_lastmod v)
               /\ (r_meth r = 0 \/ r_meth r = 1)).
  { intros Hr Heq. subst v0. unfold validate_since in Hr.
    destruct (v_lastmod v =? 0) eqn:E0; [discriminate|]. apply Z.eqb_neq in E0.
    destruct (negb (r_ius r =? 0) && negb (r_ius r =? v_lastmod v)) eqn:E1; [discriminate|].
    destruct (negb (r_ims r =? 0) && (r_ims r =? v_lastmod v)) eqn:E2; [|discriminate].
    destruct ((r_meth r =? 0) || (r_meth r =? 1)) eqn:E3; [|discriminate].
    apply andb_true_iff in E2. destruct E2 as [_ E2]. apply Z.eqb_eq in E2.
    apply orb_true_iff in E3.
    split; [exact E0|]. split; [exact E2|]. split.
    - apply andb_false_iff in E1. destruct E1 as [E1|E1]; apply negb_false_iff in E1; apply Z.eqb_eq in E1; auto.
    - destruct E3 as [E3|E3]; apply Z.eqb_eq in E3; auto. }
  destruct (cc_scan (sort_desc (r_cc r))).
  - destruct (max_age_of c CCDefault <? age_of c (s_now s1) (v_created v0)); [exfalso; eapply Hmiss; exact E|].
    destruct (validate_since r v0) eqn:Ev; inversion E; subst. apply Hv; reflexivity.
  - destruct (max_age_of c (CCMaxAge n) <? age_of c (s_now s1) (v_created v0)); [exfalso; eapply Hmiss; exact E|].
    destruct (validate_since r v0) eqn:Ev; inversion E; subst. apply Hv; reflexivity.
  - discriminate.
  - exfalso. eapply Hmiss; exact E.
Qed.

Lemma map_ext_In_inv : forall (f g : str -> str) l, map f l = map g l -> forall x, In x l -> f x = g x.
Proof.
  induction l as [|y l IH]; cbn; intros H x Hx; [contradiction|].
  inversion H. destruct Hx as [Hx|Hx]; [subst; assumption | apply IH; assumption].
Qed.

Section Thm.
  Variable V : str -> list str.
  Variable c : cfg.

  (** genuine + fresh + not no-store, in one statement *)
  Lemma hit_sound : forall ops outs s r ou v age fl s',
    ops_ok V ops -> run c ops init = (outs, s) ->
    do_req c r s = (ou, fl, s') -> served ou v age ->
    exists cl, In cl (s_log s)
      /\ k_gen cl = v_gen v
      /\ r_uri (k_req cl) = r_uri r
      /\ p_status (r_plan (k_req cl)) = v_status v
      /\ p_size (r_plan (k_req cl)) = v_size v
      /\ mkkey c (r_hdrs (k_req cl)) (sort_desc (V (r_uri r)))
         = mkkey c (r_hdrs r) (sort_desc (V (r_uri r)))
      /\ p_vary (r_plan (k_req cl)) = V (r_uri r)
      /\ mem s_no_store (r_cc (k_req cl)) = false
      /\ mem s_no_store (p_rcc (r_plan (k_req cl))) = false
      /\ is_invalidating (r_meth (k_req cl)) = false
      /\ k_time cl <= s_now s
      /\ age = (s_now s - k_time cl) / c_tps c
      /\ age <= max_age_of c (cc_scan (sort_desc (r_cc r)))
      /\ (forall cl', In cl' (s_log s) -> k_gen cl' = v_gen v -> cl' = cl).
  Proof.
    intros ops outs s r ou v age fl s' Hok Hrun Hd Hsv.
    pose proof (Inv_run V c ops init outs s (Inv_init V c) Hok Hrun) as HI.
    destruct (do_req_hit _ _ _ _ _ _ _ _ Hd Hsv) as [_ [_ [_ [[uc [Hu Hk]] [Hage Hle]]]]].
    destruct (inv_store _ _ _ HI _ _ Hu) as [Hsel He].
    destruct (He _ _ Hk) as [[cl [Hin [Hg [Ht [Huri [Hst [Hsz [Hkey [Hn1 [Hn2 Hm]]]]]]]]]] Hcr].
    exists cl. rewrite <- Hsel.
    repeat match goal with |- _ /\ _ => split end; try assumption.
    - symmetry. exact Hkey.
    - rewrite (inv_vary _ _ _ HI _ Hin). rewrite Huri. reflexivity.
    - lia.
    - rewrite Ht. exact Hage.
    - intros cl' Hin' Hg'. apply (inv_uniq _ _ _ HI); [assumption | assumption | congruence].
  Qed.
End Thm.

(* ---------- genuine ---------- *)

Lemma thm_genuine : forall V c ops outs s r ou v age fl s',
  c_keyfix c = true ->
  ops_ok V ops -> run c ops init = (outs, s) ->
  do_req c r s = (ou, fl, s') -> served ou v age ->
  exists cl, In cl (s_log s)
    /\ k_gen cl = v_gen v
    /\ p_status (r_plan (k_req cl)) = v_status v
    /\ p_size (r_plan (k_req cl)) = v_size v
    /\ r_uri (k_req cl) = r_uri r
    /\ forall h, In h (p_vary (r_plan (k_req cl))) -> hget (r_hdrs (k_req cl)) h = hget (r_hdrs r) h.
Proof.
  intros V c ops outs s r ou v age fl s' Hfix Hok Hrun Hd Hsv.
  destruct (hit_sound V c _ _ _ _ _ _ _ _ _ Hok Hrun Hd Hsv)
    as [cl [Hin [Hg [Hu [Hst [Hsz [Hkey [Hvary _]]]]]]]].
  exists cl. repeat match goal with |- _ /\ _ => split end; try assumption.
  intros h Hh. unfold mkkey in Hkey. rewrite Hfix in Hkey.
  apply (map_ext_In_inv _ _ _ Hkey). apply sort_desc_In. rewrite <- Hvary. exact Hh.
Qed.

(* ---------- fresh ---------- *)

Lemma thm_fresh : forall V c ops outs s r ou v age fl s',
  c_agefix c = true -> 0 < c_tps c ->
  ops_ok V ops -> run c ops init = (outs, s) ->
  do_req c r s = (ou, fl, s') -> served ou v age ->
  exists cl, In cl (s_log s) /\ k_gen cl = v_gen v
    /\ (forall cl', In cl' (s_log s) -> k_gen cl' = v_gen v -> cl' = cl)
    /\ 0 <= s_now s - k_time cl
    /\ age = (s_now s - k_time cl) / c_tps c
    /\ age <= c_delay c
    /\ (forall n, req_max_age r = Some n -> age <= n).
Proof.
  intros V c ops outs s r ou v age fl s' Hfix Htps Hok Hrun Hd Hsv.
  destruct (hit_sound V c _ _ _ _ _ _ _ _ _ Hok Hrun Hd Hsv)
    as [cl [Hin [Hg [_ [_ [_ [_ [_ [_ [_ [_ [Ht [Hage [Hle Huq]]]]]]]]]]]]]].
  exists cl. repeat match goal with |- _ /\ _ => split end; try assumption.
  - lia.
  - unfold max_age_of in Hle. destruct (cc_scan (sort_desc (r_cc r))); try exact Hle.
    rewrite Hfix in Hle. lia.
  - intros n Hn. unfold req_max_age in Hn. unfold max_age_of in Hle.
    destruct (cc_scan (sort_desc (r_cc r))); try discriminate.
    inversion Hn; subst. rewrite Hfix in Hle. lia.
Qed.

(* ---------- no-store ---------- *)

Lemma thm_nostore : forall V c ops outs s r ou v age fl s' cl,
  ops_ok V ops -> run c ops init = (outs, s) ->
  do_req c r s = (ou, fl, s') -> served ou v age ->
  In cl (s_log s) -> k_gen cl = v_gen v ->
  mem s_no_store (r_cc (k_req cl)) = false /\ mem s_no_store (p_rcc (r_plan (k_req cl))) = false.
Proof.
  intros V c ops outs s r ou v age fl s' cl Hok Hrun Hd Hsv Hin Hg.
  destruct (hit_sound V c _ _ _ _ _ _ _ _ _ Hok Hrun Hd Hsv)
    as [cl0 [_ [_ [_ [_ [_ [_ [_ [Hn1 [Hn2 [_ [_ [_ [_ Huq]]]]]]]]]]]]]].
  rewrite (Huq cl Hin Hg). split; assumption.
Qed.

(** the store itself never holds a response of a no-store exchange *)
Lemma thm_nostore_store : forall V c ops outs s u uc k v,
  ops_ok V ops -> run c ops init = (outs, s) ->
  In (u, uc) (s_store s) -> In (k, SVar v) (uc_ents uc) ->
  exists cl, In cl (s_log s) /\ k_gen cl = v_gen v
    /\ mem s_no_store (r_cc (k_req cl)) = false
    /\ mem s_no_store (p_rcc (r_plan (k_req cl))) = false.
Proof.
  intros V c ops outs s u uc k v Hok Hrun Hu Hk.
  pose proof (Inv_run V c ops init outs s (Inv_init V c) Hok Hrun) as HI.
  destruct (inv_store _ _ _ HI _ _ Hu) as [_ He].
  destruct (He _ _ Hk) as [[cl [Hin [Hg [_ [_ [_ [_ [_ [Hn1 [Hn2 _]]]]]]]]]] _].
  exists cl. repeat split; assumption.
Qed.

(* ---------- invalidation ---------- *)

Definition absent (u : str) (s : st) : Prop := aget eqbZs u (s_store s) = None.

Lemma absent_expire_obj : forall u o store cur store' cur',
  aget eqbZs u store = None -> expire_obj o (store, cur) = (store', cur') -> aget eqbZs u store' = None.
Proof.
  intros u [[size uri] k] store cur store' cur' H E. cbn in E.
  destruct (aget eqbZs uri store) as [uc|] eqn:E1; [|inversion E; subst; exact H].
  destruct (aget eqb_key k (uc_ents uc)); [|inversion E; subst; exact H].
  inversion E; subst.
  destruct (eqbZs uri u) eqn:Eu.
  - apply eqbZs_true_iff in Eu. subst. congruence.
  - apply eqbZs_false_iff in Eu. rewrite (aget_aset_other eqbZs eqbZs_true_iff); assumption.
Qed.

Lemma absent_expire_objs : forall u os store cur store' cur',
  aget eqbZs u store = None -> expire_objs os (store, cur) = (store', cur') -> aget eqbZs u store' = None.
Proof.
  induction os as [|o os IH]; intros store cur store' cur' H E; cbn in E.
  - inversion E; subst. exact H.
  - destruct (expire_obj o (store, cur)) as [st1 c1] eqn:E1.
    eapply IH; [|exact E]. eapply absent_expire_obj; eassumption.
Qed.

Lemma absent_sweep_buckets : forall u t e store cur e' store' cur',
  aget eqbZs u store = None -> sweep_buckets t e (store, cur) = (e', (store', cur')) ->
  aget eqbZs u store' = None.
Proof.
  induction e as [|[t' b] e IH]; intros store cur e' store' cur' H E; cbn in E.
  - inversion E; subst. exact H.
  - destruct (t' <=? t).
    + destruct (expire_objs b (store, cur)) as [st1 c1] eqn:E1.
      eapply IH; [|exact E]. eapply absent_expire_objs; eassumption.
    + destruct (sweep_buckets t e (store, cur)) as [e1 [st1 c1]] eqn:E1.
      inversion E; subst. eapply IH; [exact H | exact E1].
Qed.

Lemma absent_handler : forall u r s s' g, absent u s -> handler r s = (s', g) -> absent u s'.
Proof. intros u r s s' g H E. unfold handler in E. inversion E; subst. exact H. Qed.

Lemma absent_delete : forall u u' s, absent u s -> absent u (cache_delete u' s).
Proof.
  intros u u' s H. unfold absent, cache_delete. cbn.
  destruct (eqbZs u' u) eqn:E.
  - apply eqbZs_true_iff in E. subst. apply (aget_adel_same eqbZs).
  - apply eqbZs_false_iff in E. rewrite (aget_adel_other eqbZs eqbZs_true_iff); assumption.
Qed.

Lemma absent_cache_get : forall c u r s s' ov,
  r_uri r <> u -> absent u s -> cache_get c r s = (s', ov) -> absent u s'.
Proof.
  intros c u r s s' ov N H E. unfold cache_get in E.
  destruct (aget eqbZs (r_uri r) (s_store s)) as [uc|]; [|inversion E; subst; exact H].
  destruct (aget eqb_key (mkkey c (r_hdrs r) (uc_sel uc)) (uc_ents uc)) as [[|v]|];
    try (inversion E; subst; exact H).
  inversion E; subst. unfold absent. cbn.
  rewrite (aget_aset_other eqbZs eqbZs_true_iff); assumption.
Qed.

Lemma absent_put : forall c u r v size s, r_uri r <> u -> absent u s -> absent u (cache_put c r v size s).
Proof.
  intros c u r v size s N H. unfold cache_put, absent in *.
  destruct (aget eqbZs (r_uri r) (s_store s)) as [uc|]; cbv beta iota zeta.
  - repeat match goal with |- context [if ?b then _ else _] => destruct b end; cbn;
      try rewrite (aget_aset_other eqbZs eqbZs_true_iff) by assumption; assumption.
  - repeat match goal with |- context [if ?b then _ else _] => destruct b end; cbn;
      repeat rewrite (aget_aset_other eqbZs eqbZs_true_iff) by assumption; assumption.
Qed.

Lemma absent_tee : forall c u r g s, r_uri r <> u -> absent u s -> absent u (tee c r g s).
Proof.
  intros c u r g s N H. unfold tee.
  destruct (mem s_no_store (r_cc r)); [exact H|].
  destruct (mem s_no_cache (p_rpragma (r_plan r)) || mem s_no_store (p_rcc (r_plan r))); [exact H|].
  destruct (p_size (r_plan r) <=? 0); [apply absent_delete; exact H | apply absent_put; assumption].
Qed.

Lemma absent_miss : forall c u r s ou fl s',
  r_uri r <> u -> absent u s -> miss c r s = (ou, fl, s') -> absent u s'.
Proof.
  intros c u r s ou fl s' N H E. unfold miss in E.
  destruct (handler r s) as [s1 g] eqn:Eh. inversion E; subst.
  apply absent_tee; [exact N|]. eapply absent_handler; eassumption.
Qed.

Lemma absent_do_req : forall c u r s ou fl s',
  r_uri r <> u -> absent u s -> do_req c r s = (ou, fl, s') -> absent u s'.
Proof.
  intros c u r s ou fl s' N H E. unfold do_req in E.
  destruct (is_invalidating (r_meth r)).
  - destruct (handler r (cache_delete (r_uri r) s)) as [s1 g] eqn:Eh. inversion E; subst.
    eapply absent_handler; [|exact Eh]. apply absent_delete. exact H.
  - destruct (mem s_no_cache (r_pragma r)); [eapply absent_miss; eassumption|].
    destruct (cache_get c r s) as [s1 ov] eqn:Eg.
    pose proof (absent_cache_get _ _ _ _ _ _ N H Eg) as H1.
    destruct ov as [v|]; [|eapply absent_miss; eassumption].
    destruct (cc_scan (sort_desc (r_cc r))).
    + destruct (max_age_of c CCDefault <? age_of c (s_now s1) (v_created v));
        [eapply absent_miss; eassumption | destruct (validate_since r v); inversion E; subst; exact H1].
    + destruct (max_age_of c (CCMaxAge n) <? age_of c (s_now s1) (v_created v));
        [eapply absent_miss; eassumption | destruct (validate_since r v); inversion E; subst; exact H1].
    + inversion E; subst; exact H1.
    + eapply absent_miss; eassumption.
Qed.

(** requests between the invalidating one and the next GET go to other URIs *)
Definition others (u : str) (ops : list op) : Prop :=
  forall r, In (OReq r) ops -> r_uri r <> u.

Lemma absent_run : forall c u ops s outs s',
  others u ops -> absent u s -> run c ops s = (outs, s') -> absent u s'.
Proof.
  induction ops as [|o ops IH]; intros s outs s' Ho H E; cbn in E.
  - inversion E; subst. exact H.
  - destruct (step c o s) as [ou s1] eqn:Es. destruct (run c ops s1) as [outs1 s2] eqn:Er.
    inversion E; subst. eapply IH; [| |exact Er].
    + intros r Hr. apply Ho. right. exact Hr.
    + destruct o as [r|n|]; cbn in Es.
      * destruct (do_req c r s) as [[ou1 fl] s1'] eqn:Ed. inversion Es; subst.
        eapply absent_do_req; [|exact H|exact Ed]. apply Ho. left. reflexivity.
      * inversion Es; subst. exact H.
      * inversion Es; subst. unfold sweep.
        destruct (sweep_buckets (s_now s) (s_exp s) (s_store s, s_cursize s)) as [e1 [st1 c1]] eqn:E1.
        unfold absent. cbn. eapply absent_sweep_buckets; [exact H | exact E1].
Qed.

Lemma absent_after_invalidating : forall c r s ou fl s',
  is_invalidating (r_meth r) = true -> do_req c r s = (ou, fl, s') -> absent (r_uri r) s'.
Proof.
  intros c r s ou fl s' Hm E. unfold do_req in E. rewrite Hm in E.
  destruct (handler r (cache_delete (r_uri r) s)) as [s1 g] eqn:Eh. inversion E; subst.
  eapply absent_handler; [|exact Eh]. unfold absent, cache_delete. cbn. apply (aget_adel_same eqbZs).
Qed.

Lemma absent_reaches_handler : forall c r s,
  absent (r_uri r) s -> exists fl s', do_req c r s = (OMiss (s_gen s + 1), fl, s').
Proof.
  intros c r s H. unfold do_req.
  destruct (is_invalidating (r_meth r)).
  - cbn. eexists. eexists. reflexivity.
  - destruct (mem s_no_cache (r_pragma r)); [unfold miss; cbn; eexists; eexists; reflexivity|].
    unfold cache_get. unfold absent in H. rewrite H. unfold miss. cbn. eexists. eexists. reflexivity.
Qed.

Lemma thm_invalidation : forall c s r ou fl s1 mid outs s2 r2,
  is_invalidating (r_meth r) = true ->
  do_req c r s = (ou, fl, s1) ->
  others (r_uri r) mid -> run c mid s1 = (outs, s2) ->
  r_uri r2 = r_uri r ->
  exists fl2 s3, do_req c r2 s2 = (OMiss (s_gen s2 + 1), fl2, s3).
Proof.
  intros c s r ou fl s1 mid outs s2 r2 Hm Hd Ho Hr Hu.
  apply absent_reaches_handler. rewrite Hu.
  eapply absent_run; [exact Ho | | exact Hr].
  eapply absent_after_invalidating; eassumption.
Qed.

(* ---------- no-cache ---------- *)

(** an element whose directive is max-age sorts strictly below "no-cache" *)
Lemma split_eq_head : forall v d a, split_eq v = (d, a) -> d <> [] ->
  exists x v' d', v = x :: v' /\ d = x :: d'.
Proof.
  intros v d a H N. destruct v as [|x v']; cbn in H.
  - inversion H; subst. contradiction.
  - destruct (x =? 61).
    + inversion H; subst. contradiction.
    + destruct (split_eq v') as [a0 b0]. inversion H; subst. eauto.
Qed.

Lemma maxage_below_nocache : forall v d a,
  split_eq v = (d, a) -> eqbZs d s_max_age = true -> str_ltb v s_no_cache = true.
Proof.
  intros v d a H E. apply eqbZs_true_iff in E. subst d.
  destruct (split_eq_head _ _ _ H) as [x [v' [d' [Hv Hd]]]]; [discriminate|].
  inversion Hd; subst. reflexivity.
Qed.

Lemma split_eq_no_cache : split_eq s_no_cache = (s_no_cache, None).
Proof. reflexivity. Qed.

(** scanning a list in which everything before "no-cache" is not smaller than it *)
Lemma cc_scan_nocache : forall pre post,
  (forall y, In y pre -> str_ltb y s_no_cache = false) ->
  cc_scan (pre ++ s_no_cache :: post) = CCNoCache.
Proof.
  induction pre as [|v pre IH]; intros post H.
  - reflexivity.
  - cbn [app cc_scan]. destruct (split_eq v) as [d a] eqn:Es.
    destruct (eqbZs d s_max_age) eqn:Em.
    + pose proof (maxage_below_nocache _ _ _ Es Em) as L.
      rewrite (H v (or_introl eq_refl)) in L. discriminate.
    + destruct (eqbZs d s_no_cache); [reflexivity|].
      apply IH. intros y Hy. apply H. right. exact Hy.
Qed.

Lemma cc_scan_sorted_nocache : forall l, In s_no_cache l -> cc_scan (sort_desc l) = CCNoCache.
Proof.
  intros l Hin. apply sort_desc_In in Hin.
  destruct (in_split _ _ Hin) as [pre [post Hsp]].
  rewrite Hsp. apply cc_scan_nocache.
  unfold sort_desc in Hsp. eapply sorted_rev_split; [apply sort_asc_sorted | exact Hsp].
Qed.

Lemma thm_nocache : forall c r s,
  mem s_no_cache (r_pragma r) = true \/ mem s_no_cache (r_cc r) = true ->
  exists fl s', do_req c r s = (OMiss (s_gen s + 1), fl, s').
Proof.
  intros c r s H. unfold do_req.
  destruct (is_invalidating (r_meth r)); [cbn; eexists; eexists; reflexivity|].
  destruct (mem s_no_cache (r_pragma r)) eqn:Ep; [unfold miss; cbn; eexists; eexists; reflexivity|].
  destruct H as [H|H]; [discriminate|].
  apply mem_true_iff in H. rewrite (cc_scan_sorted_nocache _ H).
  destruct (cache_get c r s) as [s1 ov] eqn:Eg.
  assert (Hgen : s_gen s1 = s_gen s).
  { unfold cache_get in Eg. destruct (aget eqbZs (r_uri r) (s_store s)) as [uc|]; [|inversion Eg; reflexivity].
    destruct (aget eqb_key (mkkey c (r_hdrs r) (uc_sel uc)) (uc_ents uc)) as [[|v]|];
      inversion Eg; reflexivity. }
  destruct ov; unfold miss; cbn; rewrite Hgen; eexists; eexists; reflexivity.
Qed.
