(** Lemmas about the Toolbox model: which tools are set up, with which arguments. *)
From Coq Require Import ZArith List Bool Lia.
From CV Require Import Lib.Sx Lib.ListZ Model.M_dispatch Model.M_unrepr Model.M_config
     Proof.P_dispatch_thm Proof.P_config.
Import ListNotations.
Open Scope Z_scope.

Section Tools.
Variable truthy : M_dispatch.str -> bool.
Variable is_none : M_dispatch.str -> bool.

Definition on_entries (m : toolmap) : toolmap := filter (fun ts => is_on truthy (snd ts)) m.

(** Toolbox.__exit__ sets up exactly the tools whose settings turn them on, in map order *)
Lemma exit_spec known : forall m l,
  exit_toolbox truthy is_none known m = (l, true) ->
  l = map (fun ts => setup_of is_none (fst ts) (snd ts)) (on_entries m).
Proof.
  induction m as [|[name st] r IH]; intros l H; cbn [exit_toolbox] in H.
  - injection H as <-. reflexivity.
  - unfold on_entries. cbn [filter snd]. destruct (is_on truthy st) eqn:Eon.
    + destruct (mem_str name known); [|discriminate].
      destruct (exit_toolbox truthy is_none known r) as [l' ok] eqn:Er.
      injection H as <- ->. cbn [map fst snd]. f_equal. apply IH. reflexivity.
    + apply IH. exact H.
Qed.

Lemma exit_ok known : forall m,
  snd (exit_toolbox truthy is_none known m) = true <->
  (forall ts, In ts (on_entries m) -> mem_str (fst ts) known = true).
Proof.
  induction m as [|[name st] r IH]; cbn [exit_toolbox].
  - split; [intros _ ts [] | reflexivity].
  - unfold on_entries in *. cbn [filter snd]. destruct (is_on truthy st) eqn:Eon.
    + destruct (mem_str name known) eqn:Ek.
      * destruct (exit_toolbox truthy is_none known r) as [l' ok]. cbn [snd] in *.
        rewrite IH. split.
        -- intros H ts [<-|Hin]; [exact Ek | auto].
        -- intros H ts Hin. apply H. now right.
      * cbn [snd]. split; [discriminate|]. intros H.
        specialize (H (name, st) (or_introl eq_refl)). cbn [fst] in H. congruence.
    + exact IH.
Qed.

(* ---------- the arguments ---------- *)

Lemma assoc_del_other k k' c : k <> k' -> assoc k' (conf_del k c) = assoc k' c.
Proof.
  intros Hne. induction c as [|[k0 v0] r IH]; [reflexivity|]. cbn [conf_del assoc].
  destruct (eqbZs k k0) eqn:E.
  - apply eqbZs_eq in E. subst k0. rewrite eqbZs_neq by congruence. reflexivity.
  - cbn [assoc]. destruct (eqbZs k' k0); [reflexivity | exact IH].
Qed.

Lemma assoc_del_same k c : uniq c -> assoc k (conf_del k c) = None.
Proof.
  unfold uniq. induction c as [|[k0 v0] r IH]; intros Hu; [reflexivity|]. cbn [conf_del].
  inversion Hu as [|? ? Hnin Hr]; subst.
  destruct (eqbZs k k0) eqn:E.
  - apply eqbZs_eq in E. subst k0. now apply assoc_notin.
  - cbn [assoc]. rewrite E. auto.
Qed.

Lemma uniq_del k c : uniq c -> uniq (conf_del k c).
Proof.
  unfold uniq. induction c as [|[k0 v0] r IH]; intros Hu; [exact Hu|]. cbn [conf_del].
  inversion Hu as [|? ? Hnin Hr]; subst. destruct (eqbZs k k0); [exact Hr|].
  cbn [map fst]. constructor; [|auto].
  intros Hin. apply Hnin. clear -Hin. induction r as [|[k1 v1] r IHr]; [exact Hin|].
  cbn [conf_del] in Hin. destruct (eqbZs k k1); [now right|].
  destruct Hin as [<-|Hin]; [now left | right; auto].
Qed.

(** kwargs = the tool's merged settings minus [on] and [priority]; the hook priority is
    the [priority] setting unless it is absent or None *)
Lemma setup_args name st :
  uniq st ->
  s_tool (setup_of is_none name st) = name /\
  (forall a, a <> s_on -> a <> s_priority ->
             assoc a (s_kwargs (setup_of is_none name st)) = assoc a st) /\
  assoc s_on (s_kwargs (setup_of is_none name st)) = None /\
  assoc s_priority (s_kwargs (setup_of is_none name st)) = None /\
  s_prio (setup_of is_none name st)
  = match assoc s_priority st with
    | Some v => if is_none v then None else Some v
    | None => None
    end.
Proof.
  intros Hu. unfold setup_of. cbn [s_tool s_kwargs s_prio].
  split; [reflexivity|]. split; [|split; [|split]].
  - intros a H1 H2. rewrite !assoc_del_other by congruence. reflexivity.
  - rewrite assoc_del_other by discriminate. now apply assoc_del_same.
  - apply assoc_del_same. now apply uniq_del.
  - rewrite assoc_del_other by discriminate. reflexivity.
Qed.

End Tools.

(* ---------- from the merged config to the toolmap ---------- *)

Lemma split_dot_app ns name : ~ In 46 ns -> split_dot (ns ++ 46 :: name) = Some (ns, name).
Proof.
  induction ns as [|c r IH]; intros H; cbn [app split_dot].
  - reflexivity.
  - destruct (c =? 46) eqn:E; [apply Z.eqb_eq in E; exfalso; apply H; now left|].
    rewrite IH by (intros Hin; apply H; now right). reflexivity.
Qed.

Lemma split_dot_inv : forall k n nm, split_dot k = Some (n, nm) -> k = n ++ 46 :: nm.
Proof.
  induction k as [|c r IH]; intros n nm H; [discriminate|]. cbn [split_dot] in H.
  destruct (c =? 46) eqn:E.
  - injection H as <- <-. apply Z.eqb_eq in E. now subst.
  - destruct (split_dot r) as [[a b]|]; [|discriminate]. injection H as <- <-.
    cbn [app]. f_equal. now apply IH.
Qed.

(** the bucket NamespaceSet hands to a namespace handler: name |-> config["ns.name"] *)
Lemma thm_bucket ns name : ~ In 46 ns -> forall config,
  uniq config ->
  assoc name (ns_bucket ns config) = assoc (ns ++ 46 :: name) config.
Proof.
  intros Hns. unfold ns_bucket.
  assert (G : forall config acc, uniq config ->
    assoc name (fold_left (fun b kv => match split_dot (fst kv) with
                                       | Some (n, nm) => if eqbZs n ns then conf_set nm (snd kv) b else b
                                       | None => b
                                       end) config acc)
    = match assoc (ns ++ 46 :: name) config with Some v => Some v | None => assoc name acc end).
  { induction config as [|[k v] r IH]; intros acc Hu; [reflexivity|].
    cbn [fold_left fst snd assoc]. inversion Hu as [|? ? Hnin Hr]; subst.
    rewrite IH by exact Hr.
    destruct (eqbZs (ns ++ 46 :: name) k) eqn:Ek.
    - apply eqbZs_eq in Ek. subst k. rewrite (assoc_notin _ r Hnin).
      rewrite split_dot_app by exact Hns. rewrite eqbZs_refl'. apply assoc_set_same.
    - destruct (assoc (ns ++ 46 :: name) r); [reflexivity|].
      destruct (split_dot k) as [[n nm]|] eqn:Es; [|reflexivity].
      destruct (eqbZs n ns) eqn:En; [|reflexivity].
      apply eqbZs_eq in En. subst n. apply split_dot_inv in Es. subst k.
      apply assoc_set_other. intros ->. rewrite eqbZs_refl' in Ek. discriminate. }
  intros config Hu. rewrite G by exact Hu. destruct (assoc _ config); reflexivity.
Qed.

Definition lookup2 (t a : M_dispatch.str) (m : toolmap) : option M_dispatch.str :=
  match assoc t m with Some st => assoc a st | None => None end.

Lemma tm_set_same t a v m : lookup2 t a (tm_set t a v m) = Some v.
Proof.
  unfold lookup2. induction m as [|[t0 c0] r IH]; cbn [tm_set assoc].
  - rewrite eqbZs_refl'. cbn [assoc]. now rewrite eqbZs_refl'.
  - destruct (eqbZs t t0) eqn:E; cbn [assoc].
    + rewrite E. apply assoc_set_same.
    + rewrite E. exact IH.
Qed.

Lemma tm_set_other t a t' a' v m :
  (t, a) <> (t', a') -> lookup2 t a (tm_set t' a' v m) = lookup2 t a m.
Proof.
  intros Hne. unfold lookup2. induction m as [|[t0 c0] r IH]; cbn [tm_set assoc].
  - destruct (eqbZs t t') eqn:E; [|reflexivity]. apply eqbZs_eq in E. subst t'.
    cbn [assoc]. rewrite eqbZs_neq; [reflexivity|]. intros ->. now apply Hne.
  - destruct (eqbZs t' t0) eqn:E'; cbn [assoc].
    + apply eqbZs_eq in E'. subst t0. destruct (eqbZs t t') eqn:E; [|reflexivity].
      apply eqbZs_eq in E. subst t'. apply assoc_set_other. intros ->. now apply Hne.
    + destruct (eqbZs t t0); [reflexivity | exact IH].
Qed.

(** request.toolmaps[ns][tool][arg] = bucket["tool.arg"] *)
Lemma thm_toolmap t a : ~ In 46 t -> forall bucket m0 m,
  populate bucket m0 = (m, true) -> uniq bucket ->
  lookup2 t a m = match assoc (t ++ 46 :: a) bucket with Some v => Some v | None => lookup2 t a m0 end.
Proof.
  intros Ht. induction bucket as [|[k v] r IH]; intros m0 m H Hu; cbn [populate] in H.
  - injection H as <-. reflexivity.
  - inversion Hu as [|? ? Hnin Hr]; subst.
    destruct (split_dot k) as [[t' a']|] eqn:Es; [|discriminate].
    rewrite (IH _ _ H Hr). cbn [assoc].
    pose proof (split_dot_inv _ _ _ Es) as Hk.
    destruct (eqbZs (t ++ 46 :: a) k) eqn:Ek.
    + apply eqbZs_eq in Ek. rewrite (assoc_notin _ r) by (rewrite Ek; exact Hnin).
      rewrite <- Ek in Es. rewrite split_dot_app in Es by exact Ht. injection Es as <- <-.
      apply tm_set_same.
    + destruct (assoc (t ++ 46 :: a) r); [reflexivity|].
      apply tm_set_other. intros Heq. injection Heq as -> ->.
      rewrite Hk in Ek. rewrite eqbZs_refl' in Ek. discriminate.
Qed.

(** the whole chain: a probe of request.toolmaps is a probe of the merged config *)
Lemma thm_toolmap_of_config truthy is_none ns known config m l t a :
  ~ In 46 ns -> ~ In 46 t -> uniq config ->
  run_toolbox truthy is_none ns known config = (m, l, true) ->
  lookup2 t a m = assoc (ns ++ 46 :: t ++ 46 :: a) config.
Proof.
  intros Hns Ht Hu H. unfold run_toolbox in H.
  destruct (populate (ns_bucket ns config) []) as [m' ok1] eqn:Ep.
  destruct (exit_toolbox truthy is_none known m') as [l' ok2].
  injection H as <- <- Hok. apply andb_true_iff in Hok. destruct Hok as [-> _].
  assert (Hub : uniq (ns_bucket ns config)).
  { unfold ns_bucket. clear.
    assert (G : forall acc, uniq acc -> uniq (fold_left
       (fun b kv => match split_dot (fst kv) with
                    | Some (n, name) => if eqbZs n ns then conf_set name (snd kv) b else b
                    | None => b
                    end) config acc)).
    { induction config as [|kv r IH]; intros acc Ha; [exact Ha|]. cbn [fold_left]. apply IH.
      destruct (split_dot _) as [[n nm]|]; [|exact Ha].
      destruct (eqbZs n ns); [now apply uniq_conf_set | exact Ha]. }
    apply G. constructor. }
  rewrite (thm_toolmap t a Ht _ _ _ Ep) by exact Hub.
  rewrite thm_bucket by assumption.
  destruct (assoc _ config); reflexivity.
Qed.
