(** Every function of the multipart model keeps the reader invariant of C05
    (it only calls readline and finish), whatever the input and the outcome:
    the bound on what is taken from the connection is a corollary. *)
From Coq Require Import ZArith List Bool Lia.
From CV Require Import Lib.Sx Lib.ListZ LibP.ListZ_facts Model.M_reader Proof.P_reader
  Proof.P_multipart_line Model.M_multipart.
Import ListNotations.
Open Scope Z_scope.

Definition Reach (c : cfg) (body : list Z) (s : rd) : Prop := exists d, Inv c body d s.

Lemma readline_reach c body size s st out s' :
  WF c -> nolimit c body -> Reach c body s -> readline c size s = (st, out, s') -> Reach c body s'.
Proof.
  intros W Hnl [d Hi] H.
  pose proof (readline_spec _ _ _ _ _ _ _ _ W Hi H) as Hp. unfold op_post in Hp.
  destruct Hp as [(_ & Hi1) | (_ & Hm & _ & Hlt & _)].
  - now exists (d ++ out).
  - exfalso. destruct Hnl; lia.
Qed.

Lemma set_done_reach c body s : Reach c body s -> Reach c body (set_done s).
Proof. intros [d Hi]. exists d. now apply Inv_set_done. Qed.

Lemma rlb_reach : forall fuel c body b maxram dl plf seen isfile s st out isf s',
  WF c -> nolimit c body -> Reach c body s ->
  rlb_loop fuel c b maxram dl plf seen isfile s = (st, out, isf, s') -> Reach c body s'.
Proof.
  induction fuel as [|f IH]; intros c body b maxram dl plf seen isfile s st out isf s' W Hnl Hr H;
    cbn [rlb_loop] in H.
  - inversion H; subst. exact Hr.
  - destruct (readline c (Some 65536) s) as [[st0 line] s1] eqn:Hrl.
    pose proof (readline_reach _ _ _ _ _ _ _ W Hnl Hr Hrl) as Hr1.
    destruct st0; try (inversion H; subst; exact Hr1).
    destruct line as [|y line]; [inversion H; subst; exact Hr1|].
    destruct (bnd_test b (y :: line) plf =? 1); [inversion H; subst; exact Hr1|].
    destruct (bnd_test b (y :: line) plf =? 2); [inversion H; subst; now apply set_done_reach|].
    destruct (split_term (dl ++ y :: line)) as [[txt dl'] plf'].
    destruct (rlb_loop f c b maxram dl' plf' (if isfile then seen else seen + lenZ txt)
                (isfile || (maxram <? (if isfile then seen else seen + lenZ txt))) s1)
      as [[[st2 rest] isf2] s2] eqn:Hrec.
    inversion H; subst. eapply IH; eassumption.
Qed.

Lemma rh_reach : forall fuel c body k h s st h' s',
  WF c -> nolimit c body -> Reach c body s ->
  rh_loop fuel c k h s = (st, h', s') -> Reach c body s'.
Proof.
  induction fuel as [|f IH]; intros c body k h s st h' s' W Hnl Hr H; cbn [rh_loop] in H.
  - inversion H; subst. exact Hr.
  - destruct (readline c None s) as [[st0 line] s1] eqn:Hrl.
    pose proof (readline_reach _ _ _ _ _ _ _ W Hnl Hr Hrl) as Hr1.
    destruct st0; try (inversion H; subst; exact Hr1).
    destruct line as [|y line]; [inversion H; subst; exact Hr1|].
    destruct (eqbZs (y :: line) [13; 10]); [inversion H; subst; exact Hr1|].
    destruct (negb (ends_crlf (y :: line))); [inversion H; subst; exact Hr1|].
    match type of H with context [match ?kv with inl _ => _ | inr _ => _ end] =>
      destruct kv as [[k1 v1]|e] end; [|inversion H; subst; exact Hr1].
    destruct (negb (ascii_only k1)); [inversion H; subst; exact Hr1|].
    eapply IH; eassumption.
Qed.

Lemma first_marker_reach : forall fuel c body b s st found s',
  WF c -> nolimit c body -> Reach c body s ->
  first_marker fuel c b s = (st, found, s') -> Reach c body s'.
Proof.
  induction fuel as [|f IH]; intros c body b s st found s' W Hnl Hr H; cbn [first_marker] in H.
  - inversion H; subst. exact Hr.
  - destruct (readline c None s) as [[st0 line] s1] eqn:Hrl.
    pose proof (readline_reach _ _ _ _ _ _ _ W Hnl Hr Hrl) as Hr1.
    destruct st0; try (inversion H; subst; exact Hr1).
    destruct line as [|y line]; [inversion H; subst; exact Hr1|].
    destruct (eqbZs (strip (y :: line)) b); [inversion H; subst; exact Hr1|].
    eapply IH; eassumption.
Qed.

Lemma parts_loop_reach : forall fuel fuel0 c body b maxram s st ps s',
  WF c -> nolimit c body -> Reach c body s ->
  parts_loop fuel fuel0 c b maxram s = (st, ps, s') -> Reach c body s'.
Proof.
  induction fuel as [|f IH]; intros fuel0 c body b maxram s st ps s' W Hnl Hr H; cbn [parts_loop] in H.
  - inversion H; subst. exact Hr.
  - unfold read_headers in H.
    destruct (rh_loop fuel0 c None [] s) as [[st0 h] s1] eqn:Hrh.
    pose proof (rh_reach _ _ _ _ _ _ _ _ _ W Hnl Hr Hrh) as Hr1.
    destruct st0; try (inversion H; subst; exact Hr1).
    destruct (mk_meta h) as [stm m].
    destruct stm; try (inversion H; subst; exact Hr1).
    destruct (is_processor (m_ctype m)); [inversion H; subst; exact Hr1|].
    unfold read_lines_to_boundary in H.
    match type of H with context [rlb_loop ?a ?b ?c ?d ?e ?f ?g ?h ?i] =>
      destruct (rlb_loop a b c d e f g h i) as [[[st2 bd] sp] s2] eqn:Hrlb end.
    pose proof (rlb_reach _ _ _ _ _ _ _ _ _ _ _ _ _ _ W Hnl Hr1 Hrlb) as Hr2.
    destruct st2; try (inversion H; subst; exact Hr2).
    destruct (done s2); [inversion H; subst; exact Hr2|].
    destruct (parts_loop f fuel0 c b maxram s2) as [[st3 ps3] s3] eqn:Hrec.
    inversion H; subst. eapply IH; eassumption.
Qed.

Lemma process_body_reach fuel old c body ib maxram s st m kept s' :
  WF c -> nolimit c body -> Reach c body s ->
  process_body fuel old c ib maxram s = (st, m, kept, s') -> Reach c body s'.
Proof.
  intros W Hnl Hr H. unfold process_body, process_multipart in H.
  destruct (negb (valid_boundary ib)); [inversion H; subst; exact Hr|].
  destruct (first_marker fuel c (45 :: 45 :: ib) s) as [[st0 found] s1] eqn:Hfm.
  pose proof (first_marker_reach _ _ _ _ _ _ _ _ W Hnl Hr Hfm) as Hr1.
  assert (Hpl : forall st ps s2, parts_loop fuel fuel c (45 :: 45 :: ib) maxram s1 = (st, ps, s2) ->
                                 Reach c body s2).
  { intros st2 ps s2 Hp. eapply parts_loop_reach; eassumption. }
  destruct st0; try (inversion H; subst; exact Hr1).
  destruct found; [|inversion H; subst; exact Hr1].
  destruct (parts_loop fuel fuel c (45 :: 45 :: ib) maxram s1) as [[st2 ps] s2] eqn:Hp.
  specialize (Hpl _ _ _ eq_refl).
  destruct st2; try (inversion H; subst; exact Hpl).
  destruct (collect old ps [] []) as [[st3 m3] k3]. inversion H; subst. exact Hpl.
Qed.

(** Whatever the body, the fragmentation, the buffer size and the outcome
    (parts delivered, or HTTPError 400 for a malformed body), the parser has taken at
    most Content-Length bytes from the connection. *)
Lemma thm_bounded fuel old c body fr ib maxram st m kept s' cl :
  WF c -> nolimit c body -> c_len c = Some cl ->
  process_body fuel old c ib maxram (init body fr) = (st, m, kept, s') ->
  taken s' <= cl.
Proof.
  intros W Hnl Hcl H.
  assert (Hr : Reach c body (init body fr)) by (exists []; now apply Inv_init).
  destruct (process_body_reach _ _ _ _ _ _ _ _ _ _ _ W Hnl Hr H) as [d Hi].
  eapply Inv_no_overread; eassumption.
Qed.

(** ... and what it has consumed is a prefix of the declared body *)
Lemma thm_prefix fuel old c body fr ib maxram st m kept s' :
  WF c -> nolimit c body ->
  process_body fuel old c ib maxram (init body fr) = (st, m, kept, s') ->
  exists d rest, d ++ rest = body_eff c body /\ bread s' = lenZ d.
Proof.
  intros W Hnl H.
  assert (Hr : Reach c body (init body fr)) by (exists []; now apply Inv_init).
  destruct (process_body_reach _ _ _ _ _ _ _ _ _ _ _ W Hnl Hr H) as [d Hi].
  destruct (Inv_prefix _ _ _ _ W Hi) as [rest Hrest].
  exists d, rest. split; [exact Hrest | now destruct Hi].
Qed.
