(** C10 - lemmas about the heap model: allocation, the frame of every step,
    the ownership invariant. *)
From Coq Require Import ZArith List Bool Lia.
From CV Require Import Lib.Sx Lib.ListZ Model.M_isolation.
Import ListNotations.
Open Scope Z_scope.

(** ** heap / serving lookups *)
Lemma hget_hset : forall h o v o', hget (hset h o v) o' = if o =? o' then v else hget h o'.
Proof. reflexivity. Qed.
Lemma hget_hset_same : forall h o v, hget (hset h o v) o = v.
Proof. intros. rewrite hget_hset, Z.eqb_refl. reflexivity. Qed.
Lemma hget_hset_other : forall h o v o', o <> o' -> hget (hset h o v) o' = hget h o'.
Proof. intros. rewrite hget_hset. destruct (Z.eqb_spec o o'); [contradiction|reflexivity]. Qed.

Lemma sget_cons : forall s t v t', sget ((t, v) :: s) t' = if t =? t' then v else sget s t'.
Proof. reflexivity. Qed.

Lemma slot_obj_cons : forall g o sl f, slot_obj ((g, o) :: sl) f = if g =? f then o else slot_obj sl f.
Proof. reflexivity. Qed.

(** ** fields *)
Lemma valid_field_In : forall f, valid_field f = true <-> In f all_fields.
Proof.
  intro f. unfold valid_field. rewrite existsb_exists. split.
  - intros [x [Hin Heq]]. apply Z.eqb_eq in Heq. subst. exact Hin.
  - intro H. exists f. split; [exact H|apply Z.eqb_refl].
Qed.

Lemma In_all_fields_range : forall f, In f all_fields -> 0 <= f < nroots.
Proof.
  intros f H. unfold all_fields, nroots in *. cbn [In] in H.
  repeat (destruct H as [H|H]; [subst; lia|]). contradiction.
Qed.

Lemma valid_field_range : forall f, valid_field f = true -> 0 <= root f < nroots.
Proof. intros f H. apply valid_field_In, In_all_fields_range in H. exact H. Qed.

Lemma is_root_false : forall o, nroots <= o -> is_root o = false.
Proof.
  intros o H. unfold is_root. destruct (o <? nroots) eqn:E.
  - apply Z.ltb_lt in E. lia.
  - apply andb_false_r.
Qed.

(** ** the table *)
Lemma kind_of_fresh : forall tbl f,
  all_fresh tbl = true -> existsb (fun e => fst e =? f) tbl = true -> is_fresh (kind_of tbl f) = true.
Proof.
  induction tbl as [|[g k] r IH]; intros f Ha Hc.
  - discriminate.
  - cbn [all_fresh forallb] in Ha. apply andb_true_iff in Ha. destruct Ha as [Hk Hr].
    cbn [kind_of]. cbn [existsb fst] in Hc.
    destruct (g =? f) eqn:E.
    + exact Hk.
    + cbn [orb] in Hc. apply IH; assumption.
Qed.

Lemma table_ok_of : forall tbl, all_fresh tbl = true -> covers tbl = true -> table_ok tbl = true.
Proof.
  intros tbl Ha Hc. unfold table_ok. apply forallb_forall. intros f Hin.
  unfold covers in Hc. rewrite forallb_forall in Hc. apply kind_of_fresh; auto.
Qed.

Lemma table_ok_fresh : forall tbl f, table_ok tbl = true -> In f all_fields -> is_fresh (kind_of tbl f) = true.
Proof. intros tbl f H Hin. unfold table_ok in H. rewrite forallb_forall in H. auto. Qed.

(** ** allocation *)
Lemma alloc_spec : forall tbl fs h n h' n' sl,
  alloc_fields tbl fs h n = (h', n', sl) ->
  (forall f, In f fs -> is_fresh (kind_of tbl f) = true) ->
  (forall f, In f fs -> root f < n) ->
  n <= n'
  /\ (forall o, o < n -> hget h' o = hget h o)
  /\ (forall f, In f fs -> n <= slot_obj sl f < n')
  /\ (forall f f', In f fs -> In f' fs -> slot_obj sl f = slot_obj sl f' -> f = f')
  /\ (forall f, In f fs ->
        hget h' (slot_obj sl f) =
        match kind_of tbl f with FreshCopy => hget h (root f) | _ => [] end).
Proof.
  intros tbl. induction fs as [|g r IH]; intros h n h' n' sl Hal Hfr Hrt.
  - cbn in Hal. inversion Hal; subst. repeat split; try lia; intros; try contradiction; reflexivity.
  - cbn [alloc_fields] in Hal.
    assert (Hg : is_fresh (kind_of tbl g) = true) by (apply Hfr; left; reflexivity).
    assert (Hfr' : forall f, In f r -> is_fresh (kind_of tbl f) = true) by (intros; apply Hfr; right; assumption).
    assert (Hrt' : forall f, In f r -> root f < n + 1) by (intros f Hf; specialize (Hrt f (or_intror Hf)); lia).
    assert (Hrg : root g < n) by (apply Hrt; left; reflexivity).
    (* both fresh kinds behave the same up to the initial content [v] *)
    assert (Hcase : exists v sl',
              alloc_fields tbl r (hset h n v) (n + 1) = (h', n', sl') /\ sl = (g, n) :: sl'
              /\ v = match kind_of tbl g with FreshCopy => hget h (root g) | _ => [] end).
    { destruct (kind_of tbl g) eqn:K; try discriminate.
      - destruct (alloc_fields tbl r (hset h n (hget h (root g))) (n + 1)) as [[h2 n2] sl2] eqn:A.
        inversion Hal; subst. exists (hget h (root g)), sl2. repeat split. exact A.
      - destruct (alloc_fields tbl r (hset h n []) (n + 1)) as [[h2 n2] sl2] eqn:A.
        inversion Hal; subst. exists (@nil Z), sl2. repeat split. exact A. }
    destruct Hcase as [v [sl' [A [Hsl Hv]]]].
    specialize (IH _ _ _ _ _ A Hfr' Hrt').
    destruct IH as [I1 [I2 [I3 [I4 I5]]]].
    subst sl.
    assert (Hobj : forall f, In f (g :: r) -> n <= slot_obj ((g, n) :: sl') f < n').
    { intros f Hf. rewrite slot_obj_cons. destruct (Z.eqb_spec g f).
      - lia.
      - destruct Hf as [Hf|Hf]; [contradiction|]. specialize (I3 f Hf). lia. }
    split; [lia|]. split; [|split; [exact Hobj|split]].
    + intros o Ho. rewrite I2 by lia. apply hget_hset_other. lia.
    + intros f f' Hf Hf' Heq. rewrite !slot_obj_cons in Heq.
      destruct (Z.eqb_spec g f) as [E1|E1]; destruct (Z.eqb_spec g f') as [E2|E2].
      * congruence.
      * destruct Hf' as [Hf'|Hf']; [contradiction|]. specialize (I3 f' Hf'). lia.
      * destruct Hf as [Hf|Hf]; [contradiction|]. specialize (I3 f Hf). lia.
      * destruct Hf as [Hf|Hf]; [contradiction|]. destruct Hf' as [Hf'|Hf']; [contradiction|].
        apply I4; assumption.
    + intros f Hf. rewrite slot_obj_cons. destruct (Z.eqb_spec g f) as [E|E].
      * subst f. rewrite I2 by lia. rewrite hget_hset_same. exact Hv.
      * destruct Hf as [Hf|Hf]; [contradiction|]. rewrite (I5 f Hf).
        destruct (kind_of tbl f); try reflexivity.
        apply hget_hset_other. specialize (Hrt f (or_intror Hf)). lia.
Qed.

(** the ids [alloc_fields] assigns are exactly [alloc_ids]; everything else keeps its content *)
Lemma alloc_frame : forall tbl fs h n h' n' sl,
  alloc_fields tbl fs h n = (h', n', sl) ->
  forall o, ~ In o (alloc_ids tbl fs n) -> hget h' o = hget h o.
Proof.
  intros tbl. induction fs as [|g r IH]; intros h n h' n' sl Hal o Hno.
  - cbn in Hal. inversion Hal; subst. reflexivity.
  - cbn [alloc_fields] in Hal. cbn [alloc_ids] in Hno.
    destruct (kind_of tbl g) eqn:K.
    + destruct (alloc_fields tbl r (hset h n (hget h (root g))) (n + 1)) as [[h2 n2] sl2] eqn:A.
      inversion Hal; subst. cbn [In] in Hno.
      rewrite (IH _ _ _ _ _ A o) by tauto. apply hget_hset_other. tauto.
    + destruct (alloc_fields tbl r (hset h n []) (n + 1)) as [[h2 n2] sl2] eqn:A.
      inversion Hal; subst. cbn [In] in Hno.
      rewrite (IH _ _ _ _ _ A o) by tauto. apply hget_hset_other. tauto.
    + destruct (alloc_fields tbl r h n) as [[h2 n2] sl2] eqn:A.
      inversion Hal; subst. apply (IH _ _ _ _ _ A o Hno).
Qed.

Lemma alloc_ids_ge : forall tbl fs n o, In o (alloc_ids tbl fs n) -> n <= o.
Proof.
  intros tbl. induction fs as [|g r IH]; intros n o H.
  - contradiction.
  - cbn [alloc_ids] in H. destruct (kind_of tbl g).
    + destruct H as [H|H]; [lia|]. apply IH in H. lia.
    + destruct H as [H|H]; [lia|]. apply IH in H. lia.
    + apply IH in H. exact H.
Qed.

(** ** the frame of a step: [writes] is complete *)
Lemma step_frame : forall tbl st e o,
  ~ In o (writes tbl st e) -> hget (heap_of (fst (step tbl st e))) o = hget (heap_of st) o.
Proof.
  intros tbl st [t op] o Hno. unfold step, writes in *. cbn [fst snd] in *.
  destruct op as [|f m| |].
  - destruct (alloc_fields tbl all_fields (heap_of st) (next st)) as [[h' n'] sl] eqn:A.
    cbn [fst heap_of]. apply (alloc_frame _ _ _ _ _ _ _ A o Hno).
  - destruct (sget (serving st) t) as [sl|]; [|reflexivity].
    destruct (valid_field f); [|reflexivity].
    cbn [fst heap_of]. apply hget_hset_other. cbn [In] in Hno. tauto.
  - destruct (sget (serving st) t); reflexivity.
  - reflexivity.
Qed.

(** ** ownership invariant *)
Definition slot_ok (nx : Z) (sl : slot) : Prop :=
  (forall f, In f all_fields -> nroots <= slot_obj sl f < nx)
  /\ (forall f f', In f all_fields -> In f' all_fields -> slot_obj sl f = slot_obj sl f' -> f = f').

Definition Inv (st : state) : Prop :=
  nroots <= next st
  /\ (forall t sl, sget (serving st) t = Some sl -> slot_ok (next st) sl)
  /\ (forall t t' sl sl', t <> t' -> sget (serving st) t = Some sl -> sget (serving st) t' = Some sl' ->
        forall f f', In f all_fields -> In f' all_fields -> slot_obj sl f <> slot_obj sl' f').

Lemma Inv_init : forall h0, Inv (init h0).
Proof.
  intro h0. unfold Inv, init. cbn [next serving sget]. split; [lia|]. split; intros; discriminate.
Qed.

Lemma slot_ok_mono : forall nx nx' sl, nx <= nx' -> slot_ok nx sl -> slot_ok nx' sl.
Proof.
  intros nx nx' sl Hle [H1 H2]. split; [|exact H2]. intros f Hf. specialize (H1 f Hf). lia.
Qed.

Lemma alloc_all : forall tbl st h' n' sl,
  table_ok tbl = true -> nroots <= next st ->
  alloc_fields tbl all_fields (heap_of st) (next st) = (h', n', sl) ->
  next st <= n'
  /\ (forall o, o < next st -> hget h' o = hget (heap_of st) o)
  /\ (forall f, In f all_fields -> next st <= slot_obj sl f < n')
  /\ (forall f f', In f all_fields -> In f' all_fields -> slot_obj sl f = slot_obj sl f' -> f = f')
  /\ (forall f, In f all_fields ->
        hget h' (slot_obj sl f) =
        match kind_of tbl f with FreshCopy => hget (heap_of st) (root f) | _ => [] end).
Proof.
  intros tbl st h' n' sl Hok Hn A.
  apply (alloc_spec _ _ _ _ _ _ _ A).
  - intros f Hf. apply table_ok_fresh; assumption.
  - intros f Hf. apply In_all_fields_range in Hf. unfold root. lia.
Qed.

Lemma step_inv : forall tbl st e, table_ok tbl = true -> Inv st -> Inv (fst (step tbl st e)).
Proof.
  intros tbl st [t op] Hok [I1 [I2 I3]]. unfold step. cbn [fst snd].
  destruct op as [|f m| |].
  - destruct (alloc_fields tbl all_fields (heap_of st) (next st)) as [[h' n'] sl] eqn:A.
    destruct (alloc_all _ _ _ _ _ Hok I1 A) as [A1 [A2 [A3 [A4 A5]]]].
    cbn [fst]. unfold Inv. cbn [next serving]. split; [lia|]. split.
    + intros t0 sl0 H. rewrite sget_cons in H. destruct (Z.eqb_spec t t0).
      * inversion H; subst sl0. split; [|exact A4]. intros f Hf. specialize (A3 f Hf). lia.
      * apply slot_ok_mono with (nx := next st); [lia|]. eapply I2; eassumption.
    + intros t1 t2 sl1 sl2 Hne H1 H2 f f' Hf Hf'. rewrite sget_cons in H1, H2.
      destruct (Z.eqb_spec t t1); destruct (Z.eqb_spec t t2).
      * congruence.
      * inversion H1; subst sl1. destruct (I2 _ _ H2) as [B _].
        specialize (A3 f Hf). specialize (B f' Hf'). lia.
      * inversion H2; subst sl2. destruct (I2 _ _ H1) as [B _].
        specialize (A3 f' Hf'). specialize (B f Hf). lia.
      * exact (I3 t1 t2 sl1 sl2 Hne H1 H2 f f' Hf Hf').
  - destruct (sget (serving st) t) as [sl|]; [|exact (conj I1 (conj I2 I3))].
    destruct (valid_field f); exact (conj I1 (conj I2 I3)).
  - destruct (sget (serving st) t); exact (conj I1 (conj I2 I3)).
  - cbn [fst]. unfold Inv. cbn [next serving]. split; [exact I1|]. split.
    + intros t0 sl0 H. rewrite sget_cons in H. destruct (Z.eqb_spec t t0); [discriminate|].
      eapply I2; eassumption.
    + intros t1 t2 sl1 sl2 Hne H1 H2. rewrite sget_cons in H1, H2.
      destruct (Z.eqb_spec t t1); [discriminate|]. destruct (Z.eqb_spec t t2); [discriminate|].
      exact (I3 t1 t2 sl1 sl2 Hne H1 H2).
Qed.

Lemma run_cons : forall tbl st e r,
  run tbl st (e :: r) =
  (fst (run tbl (fst (step tbl st e)) r), snd (step tbl st e) ++ snd (run tbl (fst (step tbl st e)) r)).
Proof.
  intros. cbn [run]. destruct (step tbl st e) as [st1 o1]. cbn [fst snd].
  destruct (run tbl st1 r) as [st2 o2]. reflexivity.
Qed.

Lemma run_app : forall tbl a st b,
  run tbl st (a ++ b) =
  (fst (run tbl (fst (run tbl st a)) b), snd (run tbl st a) ++ snd (run tbl (fst (run tbl st a)) b)).
Proof.
  intros tbl. induction a as [|e a IH]; intros st b.
  - cbn [app run fst snd]. destruct (run tbl st b); reflexivity.
  - rewrite <- app_comm_cons. rewrite !run_cons. cbn [fst snd]. rewrite IH. cbn [fst snd].
    rewrite app_assoc. reflexivity.
Qed.

Lemma run_inv : forall tbl sched st, table_ok tbl = true -> Inv st -> Inv (fst (run tbl st sched)).
Proof.
  intros tbl. induction sched as [|e r IH]; intros st Hok HI.
  - exact HI.
  - rewrite run_cons. cbn [fst]. apply IH; [exact Hok|]. apply step_inv; assumption.
Qed.

(** no step of a state that satisfies the invariant writes a class-level root *)
Lemma writes_not_root : forall tbl st e o,
  table_ok tbl = true -> Inv st -> In o (writes tbl st e) -> nroots <= o.
Proof.
  intros tbl st [t op] o Hok [I1 [I2 I3]] Hin. unfold writes in Hin. cbn [fst snd] in Hin.
  destruct op as [|f m| |]; try contradiction.
  - apply alloc_ids_ge in Hin. lia.
  - destruct (sget (serving st) t) as [sl|] eqn:S; [|contradiction].
    destruct (valid_field f) eqn:V; [|contradiction].
    destruct Hin as [Hin|[]]. subst o. destruct (I2 _ _ S) as [B _].
    apply valid_field_In in V. specialize (B f V). lia.
Qed.

Lemma step_roots : forall tbl st e f,
  table_ok tbl = true -> Inv st -> In f all_fields ->
  hget (heap_of (fst (step tbl st e))) (root f) = hget (heap_of st) (root f).
Proof.
  intros tbl st e f Hok HI Hf. apply step_frame. intro Hin.
  apply (writes_not_root _ _ _ _ Hok HI) in Hin. apply In_all_fields_range in Hf. unfold root in Hin. lia.
Qed.

Lemma run_roots : forall tbl sched st f,
  table_ok tbl = true -> Inv st -> In f all_fields ->
  hget (heap_of (fst (run tbl st sched))) (root f) = hget (heap_of st) (root f).
Proof.
  intros tbl. induction sched as [|e r IH]; intros st f Hok HI Hf.
  - reflexivity.
  - rewrite run_cons. cbn [fst]. rewrite IH; [|exact Hok|apply step_inv; assumption|exact Hf].
    apply step_roots; assumption.
Qed.
