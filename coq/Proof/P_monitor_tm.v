(** C20, ThreadManager: conservation of notifications per registration for the repaired
    stop() (entries are taken out of the dict one at a time, by exactly one party). *)
From Coq Require Import ZArith List Bool Lia.
From CV Require Import Lib.Sx Lib.ListZ LibP.ListZ_facts Model.M_monitor Proof.P_monitor.
Import ListNotations.
Open Scope Z_scope.

Definition b2z (b : bool) : Z := if b then 1 else 0.

Lemma cnt_nonneg {A} (f : A -> bool) l : 0 <= cnt f l.
Proof. induction l as [|x r IH]; cbn [cnt]; [lia|]. destruct (f x); lia. Qed.

Lemma cnt_updZ {A} (f : A -> bool) (h : A -> A) (l : list A) : forall w t,
  nthZ w l = Some t -> cnt f (updZ w h l) = cnt f l - b2z (f t) + b2z (f (h t)).
Proof.
  induction l as [|x r IH]; intros w t H; cbn [nthZ updZ] in *; [discriminate|].
  destruct (w =? 0).
  - injection H as ->. cbn [cnt]. unfold b2z. destruct (f t), (f (h t)); lia.
  - destruct (w <? 0); [discriminate|]. cbn [cnt]. rewrite (IH _ _ H). lia.
Qed.

(* ---------- the dict ---------- *)

Lemma live_dset g k i g0 l :
  dfind k l = None -> cnt (live_g g) (dset k i g0 l) = cnt (live_g g) l + b2z (g0 =? g).
Proof.
  induction l as [|x r IH]; cbn [dfind dset cnt live_g]; intros H.
  - unfold b2z. destruct (g0 =? g); lia.
  - destruct x as [[[k' i'] g']|].
    + destruct (k' =? k); [discriminate|]. cbn [cnt live_g]. rewrite IH by exact H. lia.
    + cbn [cnt live_g]. rewrite IH by exact H. lia.
Qed.

Lemma live_ddel g k l k' i g0 :
  dfind k l = Some (k', i, g0) -> cnt (live_g g) (ddel k l) = cnt (live_g g) l - b2z (g0 =? g).
Proof.
  induction l as [|x r IH]; cbn [dfind ddel cnt live_g]; intros H; [discriminate|].
  destruct x as [[[k1 i1] g1]|].
  - destruct (k1 =? k).
    + injection H as -> -> ->. cbn [cnt live_g]. unfold b2z. destruct (g0 =? g); lia.
    + cbn [cnt live_g]. rewrite IH by exact H. lia.
  - cbn [cnt live_g]. rewrite IH by exact H. lia.
Qed.

Lemma live_dpoplast g : forall l k i g0 l',
  dpoplast l = Some ((k, i, g0), l') -> cnt (live_g g) l' = cnt (live_g g) l - b2z (g0 =? g).
Proof.
  induction l as [|x r IH]; intros k i g0 l' H; cbn [dpoplast] in H; [discriminate|].
  destruct (dpoplast r) as [[[[k1 i1] g1] r']|] eqn:E.
  - injection H as -> -> -> <-. cbn [cnt]. rewrite (IH _ _ _ _ eq_refl). lia.
  - destruct x as [[[k1 i1] g1]|]; [|discriminate]. injection H as -> -> -> <-.
    cbn [cnt live_g].
    assert (Z0 : cnt (live_g g) r = 0).
    { clear -E. induction r as [|y r IH]; [reflexivity|]. cbn [dpoplast] in E.
      destruct (dpoplast r) as [[e r']|]; [discriminate|]. destruct y; [discriminate|].
      cbn [cnt live_g]. rewrite IH by reflexivity. reflexivity. }
    rewrite Z0. unfold b2z. destruct (g0 =? g); lia.
Qed.

Lemma dsize_poplast_None l : dpoplast l = None -> dsize l = 0.
Proof.
  induction l as [|y r IH]; [reflexivity|]. cbn [dpoplast dsize].
  destruct (dpoplast r) as [[e r']|]; [discriminate|]. destruct y; [discriminate|]. auto.
Qed.

Lemma dfind_dset_other k k' i g l : k <> k' -> dfind k (dset k' i g l) = dfind k l.
Proof.
  intros N. induction l as [|x r IH]; cbn [dfind dset].
  - destruct (k' =? k) eqn:E; [apply Z.eqb_eq in E; congruence|reflexivity].
  - destruct x as [[[k1 i1] g1]|]; cbn [dfind].
    + destruct (k1 =? k') eqn:E1; cbn [dfind].
      * apply Z.eqb_eq in E1. subst k1.
        destruct (k' =? k) eqn:E; [apply Z.eqb_eq in E; congruence|reflexivity].
      * destruct (k1 =? k); [reflexivity|exact IH].
    + exact IH.
Qed.

Lemma dfind_ddel_None k k' l : dfind k l = None -> dfind k (ddel k' l) = None.
Proof.
  induction l as [|x r IH]; cbn [dfind ddel]; intros H; [reflexivity|].
  destruct x as [[[k1 i1] g1]|]; cbn [dfind].
  - destruct (k1 =? k) eqn:E; [discriminate|].
    destruct (k1 =? k'); cbn [dfind]; [exact H|rewrite E; auto].
  - auto.
Qed.

Lemma dfind_dpoplast_None k : forall l e l', dpoplast l = Some (e, l') -> dfind k l = None -> dfind k l' = None.
Proof.
  induction l as [|x r IH]; intros e l' H F; cbn [dpoplast] in H; [discriminate|].
  cbn [dfind] in F.
  destruct (dpoplast r) as [[e1 r']|] eqn:E.
  - injection H as <- <-. cbn [dfind]. destruct x as [[[k1 i1] g1]|].
    + destruct (k1 =? k); [discriminate|]. eapply IH; eauto.
    + eapply IH; eauto.
  - destruct x; [|discriminate]. injection H as <- <-. reflexivity.
Qed.

(* ---------- invariant ---------- *)

Inductive treach (n : Z) (progs : list (list rop)) : tm -> Prop :=
| treach_init : treach n progs (tm_init n progs)
| treach_step : forall s tid lab s', treach n progs s -> tstep true tid s = Some (lab, s') -> treach n progs s'.

Definition nS g s := cnt (is_tstart g) (tj s).
Definition nE g s := cnt (is_tstop g) (tj s).
Definition nPS g s := cnt (pstart_g g) (rts s).
Definition nPE g s := cnt (pstop_g g) (rts s).
Definition nL g s := cnt (live_g g) (ents s).

Definition kfixed (p : kpc) : Prop :=
  match p with KItems | KNext | KPub _ _ | KClear => False | _ => True end.

Definition storing (t : rthread) : Prop := r_pc t = RLen \/ exists i, r_pc t = RStore i.

Definition TInv (s : tm) : Prop :=
  (forall g, nS g s + nPS g s = nE g s + nPE g s + kstop_g g (k_pc s) + nL g s) /\
  (forall w t, nthZ w (rts s) = Some t -> storing t -> dfind (w + 1) (ents s) = None) /\
  (forall g, 0 <= g < nextg s -> nS g s + nPS g s = 1) /\
  (forall g, g < 0 \/ nextg s <= g -> nS g s + nPS g s = 0) /\
  0 <= nextg s /\ kfixed (k_pc s).

Lemma cnt_map_start g progs : cnt (pstart_g g) (map (RT RStart) progs) = 0.
Proof. induction progs; cbn; auto. Qed.
Lemma cnt_map_stop g progs : cnt (pstop_g g) (map (RT RStart) progs) = 0.
Proof. induction progs; cbn; auto. Qed.

Lemma nthZ_map_start progs : forall w t, nthZ w (map (RT RStart) progs) = Some t -> r_pc t = RStart.
Proof.
  induction progs as [|p r IH]; intros w t H; cbn [map nthZ] in H; [discriminate|].
  destruct (w =? 0); [injection H as <-; reflexivity|]. destruct (w <? 0); [discriminate|]. eauto.
Qed.

Lemma TInv_init n progs : TInv (tm_init n progs).
Proof.
  unfold TInv, tm_init, nS, nE, nPS, nPE, nL; cbn [tj rts ents k_pc nextg cnt kstop_g].
  split; [intros g; rewrite cnt_map_start, cnt_map_stop; lia|].
  split; [intros w t H [S|[i S]]; apply nthZ_map_start in H; congruence|].
  split; [intros g; lia|]. split; [intros g _; rewrite cnt_map_start; lia|].
  split; [lia|exact Logic.I].
Qed.

Ltac tm_unfold := unfold TInv, nS, nE, nPS, nPE, nL in *;
  cbn [tj rts ents k_pc nextg k_n it_size it_pos it_len set_rts k_set k_end] in *.

Lemma kstep_TInv s lab s' : TInv s -> kstep true s = Some (lab, s') -> TInv s'.
Proof.
  intros (C & F & U1 & U0 & NG & KF) H. unfold kstep in H.
  destruct s as [en ng rt kp kn isz ipo ile j]. cbn [k_pc k_n ents nextg rts it_size it_pos it_len tj] in *.
  unfold nS, nE, nPS, nPE, nL in *. cbn [tj rts ents k_pc nextg] in *.
  destruct kp; cbn [kfixed] in KF; try contradiction.
  - (* KStart *)
    injection H as <- <-. unfold k_end, k_set; cbn. tm_unfold.
    repeat split; auto; try (destruct (kn =? 0); exact Logic.I).
    intros g. specialize (C g). destruct (kn =? 0); cbn [kstop_g] in *; lia.
  - (* KIdle *)
    destruct (kn <=? 0); [discriminate|]. injection H as <- <-. tm_unfold.
    repeat split; auto.
  - (* KTest *)
    injection H as <- <-. destruct (dsize en =? 0); unfold k_end, k_set; cbn; tm_unfold.
    + repeat split; auto; try (destruct (kn =? 0); exact Logic.I).
      intros g. specialize (C g). destruct (kn =? 0); cbn [kstop_g] in *; lia.
    + repeat split; auto.
  - (* KPopitem *)
    injection H as <- <-. destruct (dpoplast en) as [[[[k0 i0] g0] l']|] eqn:E.
    + tm_unfold. repeat split; auto.
      * intros g. specialize (C g). rewrite (live_dpoplast g _ _ _ _ _ E). cbn [kstop_g] in *.
        unfold b2z. destruct (g0 =? g); lia.
      * intros w t Hn St. eapply dfind_dpoplast_None; eauto.
    + unfold k_end, k_set; cbn. tm_unfold.
      repeat split; auto; try (destruct (kn =? 0); exact Logic.I).
      intros g. specialize (C g). destruct (kn =? 0); cbn [kstop_g] in *; lia.
  - (* KPubP *)
    injection H as <- <-. tm_unfold. repeat split; auto.
    intros g0. specialize (C g0). cbn [cnt is_tstart is_tstop kstop_g] in *.
    destruct (g =? g0); lia.
  - discriminate.
Qed.

Ltac nostoring :=
  let St := fresh "St" in let i := fresh "i" in
  intros [St|[i St]]; unfold r_next in St; cbn [r_pc] in St;
  try (match type of St with context [match ?p with _ => _ end] => destruct p end); discriminate.

Lemma rstep_TInv w s lab s' : TInv s -> rstep w s = Some (lab, s') -> TInv s'.
Proof.
  intros (C & F & U1 & U0 & NG & KF) H. unfold rstep in H.
  destruct s as [en ng rt kp kn isz ipo ile j]. cbn [k_pc k_n ents nextg rts it_size it_pos it_len tj] in *.
  unfold nS, nE, nPS, nPE, nL in *. cbn [tj rts ents k_pc nextg] in *.
  destruct (nthZ w rt) as [t|] eqn:N0; [|discriminate].
  assert (PSu : forall g h, cnt (pstart_g g) (updZ w h rt)
                            = cnt (pstart_g g) rt - b2z (pstart_g g t) + b2z (pstart_g g (h t)))
    by (intros; apply cnt_updZ; exact N0).
  assert (PEu : forall g h, cnt (pstop_g g) (updZ w h rt)
                            = cnt (pstop_g g) rt - b2z (pstop_g g t) + b2z (pstop_g g (h t)))
    by (intros; apply cnt_updZ; exact N0).
  assert (Fu : forall h en',
             (forall k, k <> w + 1 -> dfind k en = None -> dfind k en' = None) ->
             (storing (h t) -> dfind (w + 1) en' = None) ->
             forall w' t', nthZ w' (updZ w h rt) = Some t' -> storing t' -> dfind (w' + 1) en' = None).
  { intros h en' Hk Hw w' t' Hn St. apply updZ_cases in Hn.
    destruct Hn as [[-> (t0 & N' & ->)]|[Ne Hn]].
    - rewrite N0 in N'. injection N' as <-. auto.
    - apply Hk; [lia|]. eapply F; eauto. }
  (* steps that neither touch the dict nor the journal and move between pcs without a pending
     notification *)
  assert (QUIET : forall h,
             pstart_g = pstart_g ->
             (forall g, pstart_g g t = false /\ pstop_g g t = false /\
                        pstart_g g (h t) = false /\ pstop_g g (h t) = false) ->
             (storing (h t) -> dfind (w + 1) en = None) ->
             TInv (set_rts (updZ w h rt) (TM en ng rt kp kn isz ipo ile j))).
  { intros h _ Q St. unfold TInv, nS, nE, nPS, nPE, nL, set_rts. cbn [tj rts ents k_pc nextg].
    repeat split; auto.
    - intros g. rewrite PSu, PEu. destruct (Q g) as (-> & -> & -> & ->). specialize (C g). cbn [b2z]. lia.
    - apply Fu; auto.
    - intros g R. rewrite PSu. destruct (Q g) as (-> & _ & -> & _). specialize (U1 g R). cbn [b2z]. lia.
    - intros g R. rewrite PSu. destruct (Q g) as (-> & _ & -> & _). specialize (U0 g R). cbn [b2z]. lia. }
  destruct (r_pc t) eqn:P0.
  - (* RStart *)
    injection H as <- <-. apply QUIET; auto; try nostoring.
    intros g. unfold pstart_g, pstop_g, r_next. cbn [r_pc]. rewrite P0. destruct (r_prog t); auto.
  - (* RIdle *)
    destruct (r_prog t) as [|[|] p]; [discriminate| |]; injection H as <- <-.
    + apply QUIET; auto; try nostoring. intros g. unfold pstart_g, pstop_g. cbn [r_pc]. rewrite P0. auto.
    + apply QUIET; auto; try nostoring. intros g. unfold pstart_g, pstop_g. cbn [r_pc]. rewrite P0. auto.
  - (* RContains *)
    injection H as <- <-. destruct (dfind (w + 1) en) as [e|] eqn:D.
    + apply QUIET; auto; try nostoring.
      intros g. unfold pstart_g, pstop_g, r_next. cbn [r_pc]. rewrite P0. destruct (r_prog t); auto.
    + apply QUIET; auto. intros g. unfold pstart_g, pstop_g. cbn [r_pc]. rewrite P0. auto.
  - (* RLen *)
    injection H as <- <-. apply QUIET; auto.
    + intros g. unfold pstart_g, pstop_g. cbn [r_pc]. rewrite P0. auto.
    + intros _. eapply F; [exact N0|]. left. exact P0.
  - (* RStore *)
    injection H as <- <-.
    assert (D : dfind (w + 1) en = None) by (eapply F; [exact N0|right; eauto]).
    unfold TInv, nS, nE, nPS, nPE, nL. cbn [tj rts ents k_pc nextg].
    assert (P1 : forall g, pstart_g g t = false /\ pstop_g g t = false)
      by (intros g; unfold pstart_g, pstop_g; rewrite P0; auto).
    repeat split; auto; try lia.
    + intros g. rewrite PSu, PEu, live_dset by exact D. destruct (P1 g) as (-> & ->).
      cbn [pstart_g pstop_g r_pc b2z]. specialize (C g). unfold b2z. destruct (ng =? g); lia.
    + apply Fu; [|nostoring]. intros k Nk Dk. rewrite dfind_dset_other by exact Nk. exact Dk.
    + intros g R. rewrite PSu. destruct (P1 g) as (-> & _). cbn [pstart_g r_pc b2z].
      destruct (ng =? g) eqn:E.
      * apply Z.eqb_eq in E. subst g. pose proof (U0 ng). unfold b2z. lia.
      * apply Z.eqb_neq in E. pose proof (U1 g). unfold b2z. lia.
    + intros g R. rewrite PSu. destruct (P1 g) as (-> & _). cbn [pstart_g r_pc b2z].
      destruct (ng =? g) eqn:E; [apply Z.eqb_eq in E; lia|]. pose proof (U0 g). unfold b2z. lia.
  - (* RPubStart *)
    injection H as <- <-.
    unfold TInv, nS, nE, nPS, nPE, nL. cbn [tj rts ents k_pc nextg].
    assert (P1 : forall g0, pstart_g g0 t = (g =? g0) /\ pstop_g g0 t = false /\
                            pstart_g g0 (r_next t) = false /\ pstop_g g0 (r_next t) = false).
    { intros g0; unfold pstart_g, pstop_g, r_next; cbn [r_pc]; rewrite P0. destruct (r_prog t); auto. }
    repeat split; auto.
    + intros g0. rewrite PSu, PEu. destruct (P1 g0) as (-> & -> & -> & ->).
      cbn [cnt is_tstart is_tstop]. specialize (C g0). unfold b2z. destruct (g =? g0); lia.
    + apply Fu; auto. nostoring.
    + intros g0 R. rewrite PSu. destruct (P1 g0) as (-> & _ & -> & _).
      cbn [cnt is_tstart]. specialize (U1 g0 R). unfold b2z. destruct (g =? g0); lia.
    + intros g0 R. rewrite PSu. destruct (P1 g0) as (-> & _ & -> & _).
      cbn [cnt is_tstart]. specialize (U0 g0 R). unfold b2z. destruct (g =? g0); lia.
  - (* RPop *)
    injection H as <- <-. destruct (dfind (w + 1) en) as [[[k0 i0] g0]|] eqn:D.
    + unfold TInv, nS, nE, nPS, nPE, nL. cbn [tj rts ents k_pc nextg].
      assert (P1 : forall g, pstart_g g t = false /\ pstop_g g t = false)
        by (intros g; unfold pstart_g, pstop_g; rewrite P0; auto).
      repeat split; auto.
      * intros g. rewrite PSu, PEu, (live_ddel g _ _ _ _ _ D). destruct (P1 g) as (-> & ->).
        cbn [pstart_g pstop_g r_pc b2z]. specialize (C g). unfold b2z. destruct (g0 =? g); lia.
      * apply Fu; [|nostoring]. intros k Nk Dk. apply dfind_ddel_None. exact Dk.
      * intros g R. rewrite PSu. destruct (P1 g) as (-> & _). cbn [pstart_g r_pc b2z].
        specialize (U1 g R). lia.
      * intros g R. rewrite PSu. destruct (P1 g) as (-> & _). cbn [pstart_g r_pc b2z].
        specialize (U0 g R). lia.
    + apply QUIET; auto; try nostoring.
      intros g. unfold pstart_g, pstop_g, r_next. cbn [r_pc]. rewrite P0. destruct (r_prog t); auto.
  - (* RPubStop *)
    injection H as <- <-.
    unfold TInv, nS, nE, nPS, nPE, nL. cbn [tj rts ents k_pc nextg].
    assert (P1 : forall g0, pstart_g g0 t = false /\ pstop_g g0 t = (g =? g0) /\
                            pstart_g g0 (r_next t) = false /\ pstop_g g0 (r_next t) = false).
    { intros g0; unfold pstart_g, pstop_g, r_next; cbn [r_pc]; rewrite P0. destruct (r_prog t); auto. }
    repeat split; auto.
    + intros g0. rewrite PSu, PEu. destruct (P1 g0) as (-> & -> & -> & ->).
      cbn [cnt is_tstart is_tstop]. specialize (C g0). unfold b2z. destruct (g =? g0); lia.
    + apply Fu; auto. nostoring.
    + intros g0 R. rewrite PSu. destruct (P1 g0) as (-> & _ & -> & _).
      cbn [cnt is_tstart]. specialize (U1 g0 R). cbn [b2z]. lia.
    + intros g0 R. rewrite PSu. destruct (P1 g0) as (-> & _ & -> & _).
      cbn [cnt is_tstart]. specialize (U0 g0 R). cbn [b2z]. lia.
  - discriminate.
Qed.

Lemma tstep_TInv tid s lab s' : TInv s -> tstep true tid s = Some (lab, s') -> TInv s'.
Proof. unfold tstep. destruct (tid =? 0); [apply kstep_TInv|apply rstep_TInv]. Qed.

Theorem treach_TInv n progs s : treach n progs s -> TInv s.
Proof. intros R. induction R; [apply TInv_init|eapply tstep_TInv; eauto]. Qed.

Lemma treplay_reach n progs : forall sched cur s tr cur' s' tr',
  treach n progs s -> treplay true sched cur s tr = (cur', s', tr') -> treach n progs s'.
Proof.
  induction sched as [|x r IH]; intros cur s tr cur' s' tr' R H; cbn [treplay] in H.
  - injection H as _ <- _. exact R.
  - destruct (tstep true x s) as [[lab s1]|] eqn:E.
    + eapply IH; [|exact H]. eapply treach_step; eauto.
    + eapply IH; eauto.
Qed.

Lemma ttail_reach n progs : forall fuel cur s tr ok s' tr',
  treach n progs s -> ttail true fuel cur s tr = (ok, s', tr') -> treach n progs s'.
Proof.
  induction fuel as [|f IH]; intros cur s tr ok s' tr' R H; cbn [ttail] in H.
  - injection H as _ <- _. exact R.
  - destruct (t_enabled true s) as [|e0 en]; [injection H as _ <- _; exact R|].
    match type of H with context [tstep true ?x s] => destruct (tstep true x s) as [[lab s1]|] eqn:E end.
    + eapply IH; [|exact H]. eapply treach_step; eauto.
    + injection H as _ <- _. exact R.
Qed.

Lemma run_tm_reach n progs sched ok s tr : run_tm true n progs sched = (ok, s, tr) -> treach n progs s.
Proof.
  unfold run_tm. destruct (treplay true sched None (tm_init n progs) []) as [[cur s0] tr0] eqn:E. intros H.
  eapply ttail_reach; [|exact H]. eapply treplay_reach; [apply treach_init|exact E].
Qed.

(** no notification pending for registration g *)
Definition settled (g : Z) (s : tm) : Prop :=
  nPS g s = 0 /\ nPE g s = 0 /\ kstop_g g (k_pc s) = 0.

(** every registration (ghost id g, handed out when a thread stores itself in the registry):
    start_thread is published at most once and stop_thread at most once, in every reachable
    state; once nothing is pending for it, start_thread has been published exactly once and
    stop_thread exactly once unless the thread is still registered (then not at all). *)
Theorem thm_thread_notifications n progs s g :
  treach n progs s -> 0 <= g < nextg s ->
  nS g s <= 1 /\ nE g s <= 1 /\
  (settled g s -> nS g s = 1 /\ nE g s + nL g s = 1).
Proof.
  intros R G. destruct (treach_TInv _ _ _ R) as (C & F & U1 & U0 & NG & KF).
  specialize (C g). specialize (U1 g G).
  pose proof (cnt_nonneg (pstart_g g) (rts s)). pose proof (cnt_nonneg (pstop_g g) (rts s)).
  pose proof (cnt_nonneg (live_g g) (ents s)). pose proof (cnt_nonneg (is_tstop g) (tj s)).
  pose proof (cnt_nonneg (is_tstart g) (tj s)).
  assert (0 <= kstop_g g (k_pc s)) by (unfold kstop_g; destruct (k_pc s); try lia; destruct (_ =? _); lia).
  unfold nS, nE, nPS, nPE, nL, settled in *. repeat split; try lia.
  - destruct H5 as (A & B & D). unfold nPS, nPE in *. lia.
  - destruct H5 as (A & B & D). unfold nPS, nPE in *. lia.
Qed.

(** registrations that were never handed out have no notifications at all *)
Theorem thm_no_spurious n progs s g :
  treach n progs s -> (g < 0 \/ nextg s <= g) -> nS g s = 0 /\ nE g s = 0.
Proof.
  intros R G. destruct (treach_TInv _ _ _ R) as (C & F & U1 & U0 & NG & KF).
  specialize (C g). specialize (U0 g G).
  pose proof (cnt_nonneg (pstart_g g) (rts s)). pose proof (cnt_nonneg (pstop_g g) (rts s)).
  pose proof (cnt_nonneg (live_g g) (ents s)). pose proof (cnt_nonneg (is_tstop g) (tj s)).
  pose proof (cnt_nonneg (is_tstart g) (tj s)).
  assert (0 <= kstop_g g (k_pc s)) by (unfold kstop_g; destruct (k_pc s); try lia; destruct (_ =? _); lia).
  unfold nS, nE, nPS, nPE, nL in *. lia.
Qed.

Lemma ex_tm_nonvacuous :
  exists ok s tr,
    run_tm true 1 [[RAcq; RRel]; [RAcq]] [1;1;1;1;1;1;0;0;0;0;0;0;2;2;2;2;2;2;1;1;1] = (ok, s, tr)
    /\ treach 1 [[RAcq; RRel]; [RAcq]] s /\ nextg s = 2
    /\ settled 0 s /\ settled 1 s
    /\ nS 0 s = 1 /\ nE 0 s = 1 /\ nL 0 s = 0      (* popped by stop(): one stop_thread *)
    /\ nS 1 s = 1 /\ nE 1 s = 0 /\ nL 1 s = 1.     (* registered after stop(): still serving *)
Proof.
  destruct (run_tm true 1 [[RAcq; RRel]; [RAcq]] [1;1;1;1;1;1;0;0;0;0;0;0;2;2;2;2;2;2;1;1;1])
    as [[ok s] tr] eqn:E.
  exists ok, s, tr. split; [reflexivity|]. split; [eapply run_tm_reach; exact E|].
  vm_compute in E. injection E as <- <- <-. repeat split; vm_compute; reflexivity.
Qed.
