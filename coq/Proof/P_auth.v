(** Lemmas about Model/M_auth.v: string primitives, the trace-free reading of
    every component, and the specification vocabulary of Props/C19.v. *)
From Coq Require Import ZArith List Bool Lia.
From CV Require Import Lib.Sx Lib.ListZ Model.M_auth.
Import ListNotations.
Open Scope Z_scope.

(* ------------------------------------------------------------------ *)
(** * Primitives *)

Lemma eqbZs_true_iff (a b : list Z) : eqbZs a b = true <-> a = b.
Proof.
  unfold eqbZs. revert b. induction a as [|x a IH]; destruct b as [|y b]; split; intro E;
    try reflexivity; try discriminate.
  - apply andb_true_iff in E. destruct E as [E1 E2]. apply Z.eqb_eq in E1. apply IH in E2. congruence.
  - inversion E; subst. apply andb_true_iff. split; [apply Z.eqb_refl | apply IH; reflexivity].
Qed.

Lemma eqbZs_refl (a : list Z) : eqbZs a a = true.
Proof. apply eqbZs_true_iff. reflexivity. Qed.

Lemma eqbZs_false_iff (a b : list Z) : eqbZs a b = false <-> a <> b.
Proof.
  split.
  - intros E1 E2. apply eqbZs_true_iff in E2. congruence.
  - intro N. destruct (eqbZs a b) eqn:E; [apply eqbZs_true_iff in E; contradiction | reflexivity].
Qed.

Lemma opt_eqb_true_iff (a b : option str) : opt_eqb a b = true <-> a = b.
Proof.
  destruct a as [x|], b as [y|]; cbn [opt_eqb]; split; intro E; try reflexivity; try discriminate.
  - apply eqbZs_true_iff in E. congruence.
  - inversion E. apply eqbZs_refl.
Qed.

Lemma split1_spec sep s a b : split1 sep s = Some (a, b) -> s = a ++ sep :: b /\ ~ In sep a.
Proof.
  revert a b. induction s as [|c r IH]; intros a b E; cbn [split1] in E; [discriminate|].
  destruct (c =? sep) eqn:Ec.
  - inversion E; subst. apply Z.eqb_eq in Ec. subst. split; [reflexivity | intros []].
  - destruct (split1 sep r) as [[a' b']|] eqn:Er; [|discriminate].
    inversion E; subst. destruct (IH a' b eq_refl) as [E1 E2]. subst r. split; [reflexivity|].
    intros [E3|E3]; [apply Z.eqb_neq in Ec; congruence | contradiction].
Qed.

Lemma split1_app sep a b : ~ In sep a -> split1 sep (a ++ sep :: b) = Some (a, b).
Proof.
  induction a as [|c a IH]; intro N; cbn [app split1].
  - rewrite Z.eqb_refl. reflexivity.
  - destruct (c =? sep) eqn:Ec.
    + apply Z.eqb_eq in Ec. exfalso. apply N. left. assumption.
    + rewrite IH; [reflexivity|]. intro I. apply N. right. assumption.
Qed.

Lemma split1_none sep s : split1 sep s = None -> ~ In sep s.
Proof.
  induction s as [|c r IH]; intro E; [intros []|]. cbn [split1] in E.
  destruct (c =? sep) eqn:Ec; [discriminate|].
  destruct (split1 sep r) as [[a b]|] eqn:Er; [discriminate|].
  intros [I|I]; [apply Z.eqb_neq in Ec; congruence | exact (IH eq_refl I)].
Qed.

Lemma truthy_some o : truthy o = true -> exists s, o = Some s /\ s <> [].
Proof.
  destruct o as [s|]; cbn [truthy]; [|discriminate]. destruct s; cbn [nonempty]; [discriminate|].
  intros _. eexists. split; [reflexivity | discriminate].
Qed.

Lemma truthy_fmt o : truthy o = true -> fmt o = oval o.
Proof. destruct o; cbn; [reflexivity | discriminate]. Qed.

(** upper() never produces a lower-case ASCII letter, so the upper-cased
    algorithm is never ''MD5-sess'' *)
Lemma upper_c_not_lower c : ~ (97 <= upper_c c <= 122).
Proof.
  unfold upper_c. destruct ((97 <=? c) && (c <=? 122)) eqn:E.
  - apply andb_true_iff in E. destruct E as [E1 E2]. apply Z.leb_le in E1. apply Z.leb_le in E2. lia.
  - apply andb_false_iff in E. destruct E as [E|E]; apply Z.leb_gt in E; lia.
Qed.

Lemma upper_ascii_not_md5_sess s : eqbZs (upper_ascii s) s_MD5_sess = false.
Proof.
  apply eqbZs_false_iff. intro E.
  assert (I : In 115 (upper_ascii s)) by (rewrite E; cbn; tauto).
  unfold upper_ascii in I. apply in_map_iff in I. destruct I as [c [E1 _]].
  pose proof (upper_c_not_lower c). lia.
Qed.

(** writer monad *)
Lemma fst_bind {A B} (m : W A) (f : A -> W B) : fst (bind m f) = fst (f (fst m)).
Proof. unfold bind. destruct m as [a t]. cbn [fst]. destruct (f a). reflexivity. Qed.

(* ------------------------------------------------------------------ *)
(** * Digest: trace-free reading of the components *)

Section Digest.
  Variable H : str -> str.
  Variable get_ha1 : str -> str -> option str.
  Variable dec_accept : str -> option str.
  Variable parse_params : str -> parse_result.

  (** the challenge _respond_401 sends *)
  Definition digest_challenge (c : cfg) (now : Z) (stale : bool) : str :=
    p_digest_realm ++ c_realm c ++ p_nonce
      ++ (dec_of_Z now ++ 58 :: H (join_colon [dec_of_Z now; c_realm c; c_key c]))
      ++ p_algorithm ++ s_MD5 ++ p_qop ++ s_auth ++ [34]
      ++ (if stale then p_stale else []) ++ charset_declaration (c_charset c).

  Lemma respond_401_fst c now stale :
    fst (respond_401 H c now stale) = R401 (digest_challenge c now stale).
  Proof.
    unfold respond_401, www_authenticate.
    replace (eqbZs s_auth s_auth || eqbZs s_auth s_auth_int) with true by reflexivity.
    replace (eqbZs s_MD5 s_MD5 || eqbZs s_MD5 s_MD5_sess) with true by reflexivity.
    cbn [negb]. unfold synthesize_nonce.
    repeat (rewrite fst_bind; cbn [fst emit ret]). reflexivity.
  Qed.

  Definition fields_of (m : str) (kv : list (str * str)) : dauth :=
    DAuth m (assoc k_realm kv) (assoc k_username kv) (assoc k_nonce kv)
          (assoc k_uri kv) (assoc k_response kv)
          (upper_ascii (match assoc k_algorithm kv with Some x => x | None => s_MD5 end))
          (assoc k_cnonce kv) (assoc k_qop kv) (assoc k_nc kv).

  (** the correctness checks of HttpDigestAuthorization.__init__ as one boolean *)
  Definition fields_ok (a : dauth) : bool :=
    eqbZs (a_algorithm a) s_MD5
    && (truthy (a_username a) && truthy (a_realm a) && truthy (a_nonce a)
        && truthy (a_uri a) && truthy (a_response a))
    && (match a_qop a with
        | Some _ => (opt_eqb (a_qop a) (Some s_auth) || opt_eqb (a_qop a) (Some s_auth_int))
                    && (truthy (a_cnonce a) && truthy (a_nc a))
        | None => negb (truthy (a_cnonce a) || truthy (a_nc a))
        end).

  (** "the header parses": the scheme is Digest, the value is Latin-1, it has a
      parameter part that urllib's parser accepts, and the fields pass the checks *)
  Definition header_parses (h m : str) (a : dauth) : Prop :=
    matches_digest h = true /\ is_latin1 h = true /\
    exists scheme params kv,
      split1 32 (match dec_accept h with Some s => s | None => h end) = Some (scheme, params)
      /\ parse_params params = PR_ok kv
      /\ a = fields_of m kv /\ fields_ok a = true.

  Lemma parse_header_inl h m a :
    fst (parse_header dec_accept parse_params h m) = inl a <-> header_parses h m a.
  Proof.
    unfold parse_header, header_parses, try_decode_header.
    destruct (matches_digest h); cbn [negb fst ret];
      [|split; [discriminate | intros [E _]; discriminate]].
    destruct (is_latin1 h); cbn [negb];
      [|rewrite fst_bind; cbn [fst ret]; split; [discriminate | intros [_ [E _]]; discriminate]].
    rewrite fst_bind. rewrite fst_bind. cbn [fst emit].
    set (decoded := match dec_accept h with Some s => s | None => h end).
    assert (Ed : fst (match dec_accept h with
                      | Some s => ret (inl s)
                      | None => s <- emit 7 [h] h;; ret (inl s)
                      end : W (str + exn)) = inl decoded).
    { subst decoded. destruct (dec_accept h); [reflexivity|]. rewrite fst_bind. reflexivity. }
    rewrite Ed. clear Ed.
    destruct (split1 32 decoded) as [[scheme params]|] eqn:Es; cbn [fst ret];
      [|split; [discriminate | intros [_ [_ [s' [p' [kv [E _]]]]]]; discriminate]].
    rewrite fst_bind. cbn [fst emit].
    destruct (parse_params params) as [kv| | |] eqn:Ep; cbn [fst ret];
      try (split; [discriminate | intros [_ [_ [s' [p' [kv' [E1 [E2 _]]]]]]]; inversion E1; subst; congruence]).
    fold (fields_of m kv). set (a0 := fields_of m kv).
    unfold fields_ok.
    split.
    - intro E.
      assert (Ea : a = a0 /\ fields_ok a0 = true).
      { unfold fields_ok.
        rewrite (upper_ascii_not_md5_sess _ : eqbZs (a_algorithm a0) s_MD5_sess = false) in E.
        rewrite orb_false_r in E.
        destruct (eqbZs (a_algorithm a0) s_MD5); cbn [negb andb] in *; [|discriminate].
        destruct (truthy (a_username a0) && truthy (a_realm a0) && truthy (a_nonce a0)
                  && truthy (a_uri a0) && truthy (a_response a0)); cbn [negb andb] in *; [|discriminate].
        destruct (a_qop a0) as [q0|].
        - destruct (opt_eqb (Some q0) (Some s_auth) || opt_eqb (Some q0) (Some s_auth_int));
            cbn [negb andb] in *; [|discriminate].
          destruct (truthy (a_cnonce a0) && truthy (a_nc a0)); cbn [negb] in *; [|discriminate].
          inversion E. split; reflexivity.
        - destruct (truthy (a_cnonce a0) || truthy (a_nc a0)); cbn [negb] in *; [discriminate|].
          inversion E. split; reflexivity. }
      destruct Ea as [Ea1 Ea2]. split; [reflexivity|]. split; [reflexivity|].
      exists scheme, params, kv. repeat split; try assumption. subst a. exact Ea2.
    - intros [_ [_ [s' [p' [kv' [E1 [E2 [E3 E4]]]]]]]].
      inversion E1; subst s' p'. rewrite Ep in E2. inversion E2; subst kv'. fold a0 in E3. subst a.
      unfold fields_ok in E4.
      rewrite (upper_ascii_not_md5_sess _ : eqbZs (a_algorithm a0) s_MD5_sess = false).
      rewrite orb_false_r.
      apply andb_true_iff in E4. destruct E4 as [E4 E5]. apply andb_true_iff in E4. destruct E4 as [E4 E6].
      rewrite E4, E6. cbn [negb].
      destruct (a_qop a0) as [q0|].
      + apply andb_true_iff in E5. destruct E5 as [E5 E7]. rewrite E5, E7. reflexivity.
      + apply negb_true_iff in E5. rewrite E5. reflexivity.
  Qed.

  (** an outcome of parse_header is a parsed header, 400, or the parser's own failure *)
  Lemma parse_header_inr h m e :
    fst (parse_header dec_accept parse_params h m) = inr e -> e = E400 \/ e = E500 3.
  Proof.
    unfold parse_header, try_decode_header.
    destruct (matches_digest h); cbn [negb fst ret]; [|intro E; inversion E; tauto].
    destruct (is_latin1 h); cbn [negb]; [|rewrite fst_bind; cbn [fst ret]; intro E; inversion E; tauto].
    rewrite fst_bind. rewrite fst_bind. cbn [fst emit].
    destruct (dec_accept h); [|rewrite fst_bind]; cbn [fst ret emit];
      (match goal with |- context [split1 32 ?d] => destruct (split1 32 d) as [[sc pa]|] end;
       cbn [fst ret]; [|intro E; inversion E; tauto];
       rewrite fst_bind; cbn [fst emit];
       destruct (parse_params pa); cbn [fst ret]; try (intro E; inversion E; tauto);
       repeat match goal with
              | |- context [if ?b then _ else _] => destruct b; cbn [fst ret]
              | |- context [match assoc k_qop ?kv with Some _ => _ | None => _ end] =>
                destruct (assoc k_qop kv); cbn [fst ret a_qop]
              end; intro E; inversion E; tauto).
  Qed.

  Lemma synthesize_nonce_fst s key ts :
    fst (synthesize_nonce H s key ts) = ts ++ 58 :: H (nonce_preimage ts s key).
  Proof. unfold synthesize_nonce. rewrite fst_bind. reflexivity. Qed.

  Lemma validate_nonce_fst a s key :
    fst (validate_nonce H a s key) =
    match split1 58 (oval (a_nonce a)) with
    | None => false
    | Some (ts, hp) => eqbZs (H (nonce_preimage ts s key)) hp
    end.
  Proof.
    unfold validate_nonce. destruct (split1 58 (oval (a_nonce a))) as [[ts hp]|] eqn:E; [|reflexivity].
    rewrite fst_bind, synthesize_nonce_fst.
    apply split1_spec in E. destruct E as [_ N].
    rewrite (split1_app 58 ts _ N). reflexivity.
  Qed.

  (** "nonce = ts:H(ts:realm:key)" for the configured realm and key *)
  Definition nonce_genuine (c : cfg) (a : dauth) (ts : str) : Prop :=
    ~ In 58 ts /\
    a_nonce a = Some (ts ++ 58 :: H (join_colon [ts; c_realm c; c_key c])).

  Lemma validate_nonce_true c a :
    a_nonce a <> None ->
    (fst (validate_nonce H a (c_realm c) (c_key c)) = true <-> exists ts, nonce_genuine c a ts).
  Proof.
    intro NN. rewrite validate_nonce_fst. unfold nonce_genuine, nonce_preimage.
    destruct (a_nonce a) as [n|] eqn:En; [|congruence]. cbn [oval].
    destruct (split1 58 n) as [[ts hp]|] eqn:E.
    - apply split1_spec in E. destruct E as [E N]. split.
      + intro Q. apply eqbZs_true_iff in Q. exists ts. split; [assumption|]. subst. reflexivity.
      + intros [ts' [N' Q]]. inversion Q as [Q']. clear Q.
        assert (S1 : split1 58 n = Some (ts, hp)) by (rewrite E; apply split1_app; assumption).
        assert (S2 : split1 58 n = Some (ts', H (join_colon [ts'; c_realm c; c_key c])))
          by (rewrite Q'; apply split1_app; assumption).
        rewrite S1 in S2. inversion S2; subst. apply eqbZs_refl.
    - split; [discriminate|]. intros [ts' [N' Q]]. inversion Q as [Q'].
      apply split1_none in E. exfalso. apply E. rewrite Q'. apply in_or_app. right. left. reflexivity.
  Qed.

  (** RFC 2617 3.2.2: request-digest for qop absent / auth *)
  Definition rfc_HA1 (a : dauth) (ha1 : str) : str :=
    if eqbZs (a_algorithm a) s_MD5_sess
    then H (join_colon [ha1; oval (a_nonce a); oval (a_cnonce a)])
    else ha1.
  Definition rfc_HA2 (a : dauth) : str := H (join_colon [a_method a; oval (a_uri a)]).
  Definition rfc_response (a : dauth) (ha1 : str) : str :=
    match a_qop a with
    | None => H (join_colon [rfc_HA1 a ha1; oval (a_nonce a); rfc_HA2 a])
    | Some qop => H (join_colon [rfc_HA1 a ha1; oval (a_nonce a); oval (a_nc a); oval (a_cnonce a);
                                 qop; rfc_HA2 a])
    end.

  Definition qop_none_or_auth (a : dauth) : Prop := a_qop a = None \/ a_qop a = Some s_auth.

  Lemma fields_ok_inv a : fields_ok a = true ->
    a_algorithm a = s_MD5 /\ truthy (a_username a) = true /\ truthy (a_nonce a) = true
    /\ truthy (a_uri a) = true /\ truthy (a_response a) = true
    /\ (a_qop a <> None ->
        (a_qop a = Some s_auth \/ a_qop a = Some s_auth_int)
        /\ truthy (a_cnonce a) = true /\ truthy (a_nc a) = true).
  Proof.
    unfold fields_ok. intro E.
    apply andb_true_iff in E. destruct E as [E E3]. apply andb_true_iff in E. destruct E as [E1 E2].
    apply eqbZs_true_iff in E1.
    repeat (apply andb_true_iff in E2; destruct E2 as [E2 ?]).
    repeat split; try assumption;
      (destruct (a_qop a) as [q|] eqn:Eq; [|congruence];
       apply andb_true_iff in E3; destruct E3 as [E3 E4]; apply andb_true_iff in E4).
    - apply orb_true_iff in E3. destruct E3 as [E3|E3]; apply opt_eqb_true_iff in E3; tauto.
    - tauto.
    - tauto.
  Qed.

  (** request_digest on a checked header: a digest exactly for qop absent/auth,
      and then it is the RFC value; TypeError for auth-int *)
  Lemma request_digest_fst a ha1 : fields_ok a = true ->
    (qop_none_or_auth a /\ fst (request_digest H a ha1) = inl (rfc_response a ha1))
    \/ (a_qop a = Some s_auth_int /\ fst (request_digest H a ha1) = inr (E500 1)).
  Proof.
    intro OK. destruct (fields_ok_inv a OK) as [Ealg [Tu [Tn [Turi [Tr Tq]]]]].
    unfold request_digest, HA2, rfc_response, rfc_HA1, rfc_HA2, req_string, a2_string, qop_none_or_auth.
    rewrite Ealg. replace (eqbZs s_MD5 s_MD5_sess) with false by reflexivity.
    rewrite (truthy_fmt _ Tn), (truthy_fmt _ Turi).
    destruct (a_qop a) as [q|] eqn:Eq.
    - assert (Tq' : Some q <> None) by discriminate.
      destruct (Tq Tq') as [[Ea|Ea] [Tc Tnc]].
      + assert (Ea' : q = s_auth) by congruence. rewrite Ea' in *.
        left. split; [right; reflexivity|].
        replace (eqbZs s_auth s_auth) with true by reflexivity.
        repeat (rewrite fst_bind; cbn [fst emit ret]).
        replace (truthy (Some s_auth)) with true by reflexivity.
        rewrite (truthy_fmt _ Tc), (truthy_fmt _ Tnc). reflexivity.
      + assert (Ea' : q = s_auth_int) by congruence. rewrite Ea' in *.
        right. split; [reflexivity|].
        replace (eqbZs s_auth_int s_auth) with false by reflexivity.
        replace (opt_eqb (Some s_auth_int) (Some s_auth_int)) with true by reflexivity.
        rewrite fst_bind. reflexivity.
    - left. split; [left; reflexivity|].
      repeat (rewrite fst_bind; cbn [fst emit ret truthy]). reflexivity.
  Qed.

  (** "not expired" *)
  Definition nonce_fresh (ts : str) (now : Z) : Prop :=
    exists t, py_int ts = PI_ok t /\ now < t + nonce_max_age.
  (** expired, in the sense of is_nonce_stale (an unreadable timestamp counts as expired) *)
  Definition nonce_expired (ts : str) (now : Z) : Prop :=
    py_int ts = PI_error \/ exists t, py_int ts = PI_ok t /\ t + nonce_max_age <= now.

  Lemma is_nonce_stale_spec c a ts now : nonce_genuine c a ts ->
    (is_nonce_stale a nonce_max_age now = Fresh <-> nonce_fresh ts now)
    /\ (is_nonce_stale a nonce_max_age now = Stale <-> nonce_expired ts now).
  Proof.
    intros [N E]. unfold is_nonce_stale, nonce_fresh, nonce_expired. rewrite E. cbn [oval].
    rewrite (split1_app 58 ts _ N).
    destruct (py_int ts) as [t| |].
    - destruct (now <? t + nonce_max_age) eqn:L; [apply Z.ltb_lt in L | apply Z.ltb_ge in L]; split; split;
        try discriminate; try reflexivity.
      + intros _. exists t. split; [reflexivity | assumption].
      + intros [E1|[t' [E1 E2]]]; [discriminate | inversion E1; subst; lia].
      + intros [t' [E1 E2]]. inversion E1; subst. lia.
      + intros _. right. exists t. split; [reflexivity | assumption].
    - split; split; try discriminate; try reflexivity.
      + intros [t' [E1 _]]. discriminate.
      + intros _. left. reflexivity.
    - split; split; try discriminate.
      + intros [t' [E1 _]]. discriminate.
      + intros [E1|[t' [E1 _]]]; discriminate.
  Qed.

  (** digest_auth without the trace *)
  Definition digest_pure (c : cfg) (header : option str) (m : str) (now : Z) : outcome :=
    if negb (matches_digest (oval header)) then R401 (digest_challenge c now false) else
    match fst (parse_header dec_accept parse_params (oval header) m) with
    | inr e => of_exn e
    | inl a =>
      if negb (fst (validate_nonce H a (c_realm c) (c_key c))) then R401 (digest_challenge c now false) else
      match get_ha1 (c_realm c) (oval (a_username a)) with
      | None => R401 (digest_challenge c now false)
      | Some ha1 =>
        if opt_eqb (a_qop a) (Some s_auth_int) then R400 else
        match fst (request_digest H a ha1) with
        | inr e => of_exn e
        | inl digest =>
          if negb (opt_eqb (Some digest) (a_response a)) then R401 (digest_challenge c now false) else
          match is_nonce_stale a nonce_max_age now with
          | Stale => R401 (digest_challenge c now true)
          | StaleUnsupported => Unsupported 1
          | Fresh => Reached (oval (a_username a))
          end
        end
      end
    end.

  Lemma digest_auth_fst c header m now :
    fst (digest_auth H get_ha1 dec_accept parse_params c header m now) = digest_pure c header m now.
  Proof.
    unfold digest_auth, digest_pure.
    destruct (negb (matches_digest (oval header))); [apply respond_401_fst|].
    rewrite fst_bind.
    destruct (fst (parse_header dec_accept parse_params (oval header) m)) as [a|e]; [|reflexivity].
    rewrite fst_bind.
    destruct (negb (fst (validate_nonce H a (c_realm c) (c_key c)))); [apply respond_401_fst|].
    rewrite fst_bind. cbn [fst emit].
    destruct (get_ha1 (c_realm c) (oval (a_username a))) as [ha1|]; [|apply respond_401_fst].
    destruct (opt_eqb (a_qop a) (Some s_auth_int)); [reflexivity|].
    rewrite fst_bind.
    destruct (fst (request_digest H a ha1)) as [d|e]; [|reflexivity].
    destruct (negb (opt_eqb (Some d) (a_response a))); [apply respond_401_fst|].
    destruct (is_nonce_stale a nonce_max_age now); try reflexivity; apply respond_401_fst.
  Qed.

  (** everything that must hold of a header for the handler to be reached,
      except the age of the nonce *)
  Definition credentials_verify (c : cfg) (header : option str) (m : str) (a : dauth) (ts login : str)
    : Prop :=
    exists h ha1,
      header = Some h /\ header_parses h m a /\
      nonce_genuine c a ts /\
      a_username a = Some login /\ get_ha1 (c_realm c) login = Some ha1 /\
      qop_none_or_auth a /\ a_algorithm a = s_MD5 /\
      a_response a = Some (rfc_response a ha1).

  Lemma matches_digest_nil : matches_digest [] = false.
  Proof. reflexivity. Qed.

  (** the decision table of digest_auth *)
  Lemma digest_pure_cases c header m now :
    (* 1: admitted *)
    (exists a ts login, credentials_verify c header m a ts login /\ nonce_fresh ts now
                        /\ digest_pure c header m now = Reached login)
    (* 2: valid response over an expired genuine nonce *)
    \/ (exists a ts login, credentials_verify c header m a ts login /\ nonce_expired ts now
                           /\ digest_pure c header m now = R401 (digest_challenge c now true))
    (* 3: anything else that is answered 401 *)
    \/ ((forall a ts login, ~ credentials_verify c header m a ts login)
        /\ digest_pure c header m now = R401 (digest_challenge c now false))
    (* 4: unparseable, or qop=auth-int from a known user over a genuine nonce *)
    \/ (((forall a, ~ header_parses (oval header) m a)
         \/ (exists a, header_parses (oval header) m a /\ a_qop a = Some s_auth_int))
        /\ digest_pure c header m now = R400)
    (* 5: an exception of urllib's parser that nothing translates; timestamp outside the model *)
    \/ ((forall a, ~ header_parses (oval header) m a) /\ digest_pure c header m now = R500 3)
    \/ ((forall a ts login, ~ (credentials_verify c header m a ts login /\ nonce_fresh ts now))
        /\ digest_pure c header m now = Unsupported 1).
  Proof.
    unfold digest_pure.
    destruct (matches_digest (oval header)) eqn:Em; cbn [negb].
    2:{ right. right. left. split; [|reflexivity].
        intros a ts login [h [ha1 [Eh [[M _] _]]]]. subst header. cbn [oval] in Em. congruence. }
    destruct header as [h|]; [|cbn [oval] in Em; rewrite matches_digest_nil in Em; discriminate].
    cbn [oval] in *.
    destruct (fst (parse_header dec_accept parse_params h m)) as [a|e] eqn:Ep.
    2:{ assert (NP : forall a, ~ header_parses h m a).
        { intros a P. apply parse_header_inl in P. congruence. }
        destruct (parse_header_inr _ _ _ Ep) as [E|E]; subst e; cbn [of_exn].
        - right. right. right. left. split; [left; assumption | reflexivity].
        - right. right. right. right. left. split; [assumption | reflexivity]. }
    pose proof (proj1 (parse_header_inl h m a) Ep) as P.
    assert (OK : fields_ok a = true) by (destruct P as [_ [_ [s [p [kv [_ [_ [_ X]]]]]]]]; exact X).
    destruct (fields_ok_inv a OK) as [Ealg [Tu [Tn [Turi [Tr Tq]]]]].
    assert (UNIQ : forall a', header_parses h m a' -> a' = a).
    { intros a' P'. apply parse_header_inl in P'. congruence. }
    assert (NN : a_nonce a <> None) by (destruct (a_nonce a); [discriminate | discriminate]).
    destruct (fst (validate_nonce H a (c_realm c) (c_key c))) eqn:Ev; cbn [negb].
    2:{ right. right. left. split; [|reflexivity].
        intros a' ts login [h' [ha1 [Eh [P' [G _]]]]]. inversion Eh; subst h'.
        rewrite (UNIQ a' P') in *. assert (X : exists ts, nonce_genuine c a ts) by (exists ts; exact G).
        apply (validate_nonce_true c a NN) in X. congruence. }
    apply (validate_nonce_true c a NN) in Ev. destruct Ev as [ts G].
    assert (TSU : forall ts', nonce_genuine c a ts' -> ts' = ts).
    { intros ts' [N' E']. destruct G as [N E]. rewrite E in E'.
      assert (E'' : ts ++ 58 :: H (join_colon [ts; c_realm c; c_key c])
                    = ts' ++ 58 :: H (join_colon [ts'; c_realm c; c_key c])) by congruence.
      assert (S1 := split1_app 58 ts (H (join_colon [ts; c_realm c; c_key c])) N).
      assert (S2 := split1_app 58 ts' (H (join_colon [ts'; c_realm c; c_key c])) N').
      rewrite E'' in S1. rewrite S1 in S2. inversion S2. reflexivity. }
    destruct (truthy_some _ Tu) as [login [Eu _]]. rewrite Eu. cbn [oval].
    destruct (get_ha1 (c_realm c) login) as [ha1|] eqn:Eh1.
    2:{ right. right. left. split; [|reflexivity].
        intros a' ts' login' [h' [ha1 [Eh [P' [_ [Eu' [Eg _]]]]]]]. inversion Eh; subst h'.
        rewrite (UNIQ a' P') in *. congruence. }
    destruct (opt_eqb (a_qop a) (Some s_auth_int)) eqn:Eai.
    { apply opt_eqb_true_iff in Eai. right. right. right. left. split; [|reflexivity].
      right. exists a. split; assumption. }
    destruct (request_digest_fst a ha1 OK) as [[Q Ed]|[Q Ed]]; rewrite Ed; cbn [of_exn].
    2:{ rewrite Q in Eai. discriminate. }
    destruct (opt_eqb (Some (rfc_response a ha1)) (a_response a)) eqn:Er; cbn [negb].
    2:{ right. right. left. split; [|reflexivity].
        intros a' ts' login' [h' [ha1' [Eh [P' [_ [Eu' [Eg [_ [_ R]]]]]]]]]. inversion Eh; subst h'.
        rewrite (UNIQ a' P') in *. rewrite Eu in Eu'. inversion Eu'; subst login'.
        rewrite Eh1 in Eg. inversion Eg; subst ha1'. rewrite R in Er.
        rewrite (proj2 (opt_eqb_true_iff _ _) eq_refl) in Er. discriminate. }
    apply opt_eqb_true_iff in Er.
    assert (CV : credentials_verify c (Some h) m a ts login).
    { exists h, ha1. repeat split; try assumption; try (symmetry; assumption); try apply P; try apply G. }
    destruct (is_nonce_stale_spec c a ts now G) as [SF SS].
    destruct (is_nonce_stale a nonce_max_age now) eqn:Es.
    - left. exists a, ts, login. split; [exact CV|]. split; [apply SF; reflexivity | reflexivity].
    - right. left. exists a, ts, login. split; [exact CV|]. split; [apply SS; reflexivity | reflexivity].
    - right. right. right. right. right. split; [|reflexivity].
      intros a' ts' login' [[h' [ha1' [Eh [P' [G' _]]]]] F]. inversion Eh; subst h'.
      rewrite (UNIQ a' P') in *. rewrite (TSU ts' G') in F. apply SF in F. discriminate.
  Qed.
End Digest.

(* ------------------------------------------------------------------ *)
(** * Basic *)

Section Basic.
  Variable dec_accept : str -> option str.
  Variable b64 : str -> option str.
  Variable nfc : str -> str.
  Variable checkpassword : str -> str -> str -> bool.

  (** "decodable under an accepted charset": Basic scheme, ASCII base64 payload,
      decoded with accept_charset or else ISO-8859-1, NFC-normalised, split at the
      first colon *)
  Definition basic_credentials (h : str) (user pw : str) : Prop :=
    exists scheme params raw,
      split1 32 h = Some (scheme, params) /\ lower_ascii scheme = s_basic /\
      is_ascii params = true /\ b64 params = Some raw /\
      split1 58 (nfc (match dec_accept raw with Some s => s | None => raw end)) = Some (user, pw).

  Definition basic_pure (c : cfg) (header : option str) : outcome :=
    if existsb (Z.eqb 34) (c_realm c) then R500 4 else
    match header with
    | None => R401 (basic_challenge c)
    | Some h =>
      match split1 32 h with
      | None => R400
      | Some (scheme, params) =>
        if eqbZs (lower_ascii scheme) s_basic then
          if negb (is_ascii params) then R400 else
          match b64 params with
          | None => R400
          | Some raw =>
            match split1 58 (nfc (match dec_accept raw with Some s => s | None => raw end)) with
            | None => R400
            | Some (u, p) => if checkpassword (c_realm c) u p then Reached u else R401 (basic_challenge c)
            end
          end
        else R401 (basic_challenge c)
      end
    end.

  Lemma basic_auth_fst c header :
    fst (basic_auth dec_accept b64 nfc checkpassword c header) = basic_pure c header.
  Proof.
    unfold basic_auth, basic_pure, try_decode.
    destruct (existsb (Z.eqb 34) (c_realm c)); [reflexivity|].
    destruct header as [h|]; [|reflexivity].
    destruct (split1 32 h) as [[scheme params]|]; [|reflexivity].
    destruct (eqbZs (lower_ascii scheme) s_basic); [|reflexivity].
    destruct (negb (is_ascii params)); [reflexivity|].
    rewrite fst_bind. cbn [fst emit].
    destruct (b64 params) as [raw|]; [|reflexivity].
    rewrite fst_bind. rewrite fst_bind. cbn [fst emit].
    assert (E : fst (d <- emit 1 [raw] (dec_accept raw);;
                     match d with Some s => ret s | None => emit 7 [raw] raw end : W str)
                = match dec_accept raw with Some s => s | None => raw end)
      by (rewrite fst_bind; cbn [fst emit]; destruct (dec_accept raw); reflexivity).
    rewrite E.
    destruct (split1 58 _) as [[u p]|]; [|reflexivity].
    rewrite fst_bind. cbn [fst emit].
    destruct (checkpassword (c_realm c) u p); reflexivity.
  Qed.

  Lemma basic_reached_iff c header login :
    existsb (Z.eqb 34) (c_realm c) = false ->
    (basic_pure c header = Reached login <->
     exists h pw, header = Some h /\ basic_credentials h login pw
                  /\ checkpassword (c_realm c) login pw = true).
  Proof.
    intro NQ. unfold basic_pure, basic_credentials. rewrite NQ.
    split.
    - destruct header as [h|]; [|discriminate].
      destruct (split1 32 h) as [[scheme params]|] eqn:Es; [|discriminate].
      destruct (eqbZs (lower_ascii scheme) s_basic) eqn:El; [|discriminate].
      destruct (is_ascii params) eqn:Ea; cbn [negb]; [|discriminate].
      destruct (b64 params) as [raw|] eqn:Eb; [|discriminate].
      destruct (split1 58 _) as [[u p]|] eqn:Ec; [|discriminate].
      destruct (checkpassword (c_realm c) u p) eqn:Ek; [|discriminate].
      intro E. inversion E; subst u. exists h, p. split; [reflexivity|]. split; [|assumption].
      exists scheme, params, raw. apply eqbZs_true_iff in El. repeat split; assumption.
    - intros [h [pw [Eh [[scheme [params [raw [Es [El [Ea [Eb Ec]]]]]]] Ek]]]]. subst header.
      rewrite Es, El, eqbZs_refl, Ea, Eb. cbn [negb]. rewrite Ec, Ek. reflexivity.
  Qed.

  (** what a refusal looks like *)
  Lemma basic_pure_cases c header :
    existsb (Z.eqb 34) (c_realm c) = false ->
    (exists login, basic_pure c header = Reached login)
    \/ basic_pure c header = R401 (basic_challenge c)
    \/ basic_pure c header = R400.
  Proof.
    intro NQ. unfold basic_pure. rewrite NQ.
    destruct header as [h|]; [|tauto].
    destruct (split1 32 h) as [[scheme params]|]; [|tauto].
    destruct (eqbZs (lower_ascii scheme) s_basic); [|tauto].
    destruct (negb (is_ascii params)); [tauto|].
    destruct (b64 params) as [raw|]; [|tauto].
    destruct (split1 58 _) as [[u p]|]; [|tauto].
    destruct (checkpassword (c_realm c) u p); [left; eexists; reflexivity | tauto].
  Qed.
End Basic.

(** checkpassword_dict admits exactly the stored, non-empty password *)
Lemma checkpassword_dict_true d realm user pw :
  checkpassword_dict d realm user pw = true <-> assoc user d = Some pw /\ pw <> [].
Proof.
  unfold checkpassword_dict. destruct (assoc user d) as [p|]; split.
  - intro E. apply andb_true_iff in E. destruct E as [E1 E2]. apply eqbZs_true_iff in E2. subst.
    split; [reflexivity|]. destruct pw; [discriminate | discriminate].
  - intros [E N]. inversion E; subst. rewrite eqbZs_refl. destruct pw; [congruence | reflexivity].
  - discriminate.
  - intros [E _]. discriminate.
Qed.
