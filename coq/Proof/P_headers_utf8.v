(** The UTF-8 decoder of M_headers inverts the encoder, and an emitted RFC 2047
    word decodes to the original text. *)
From Coq Require Import ZArith List Bool Lia.
From CV Require Import Lib.Sx Lib.ListZ LibP.ListZ_facts Model.M_headers Proof.P_headers.
Import ListNotations.
Open Scope Z_scope.

Ltac Zify.zify_post_hook ::= Z.to_euclidean_division_equations.

Ltac decide_cmp :=
  repeat match goal with
  | |- context [?a <=? ?b] =>
    first [ replace (a <=? b) with true by (symmetry; apply Z.leb_le; lia)
          | replace (a <=? b) with false by (symmetry; apply Z.leb_gt; lia) ]
  | |- context [?a <? ?b] =>
    first [ replace (a <? b) with true by (symmetry; apply Z.ltb_lt; lia)
          | replace (a <? b) with false by (symmetry; apply Z.ltb_ge; lia) ]
  end.

Lemma utf8_dec_cp c a rest t :
  utf8_cp c = Some a -> utf8_dec rest = Some t -> utf8_dec (a ++ rest) = Some (c :: t).
Proof.
  unfold utf8_cp. intros H Hr.
  destruct (c <? 0) eqn:E0; [discriminate|apply Z.ltb_ge in E0].
  destruct (c <? 128) eqn:E1; [apply Z.ltb_lt in E1|apply Z.ltb_ge in E1].
  { apply Some_inj in H; subst a. cbn [app utf8_dec]. decide_cmp. cbn [andb]. now rewrite Hr. }
  destruct (c <? 2048) eqn:E2; [apply Z.ltb_lt in E2|apply Z.ltb_ge in E2].
  { apply Some_inj in H; subst a. cbn [app utf8_dec]. unfold is_cont. decide_cmp. cbn [andb].
    rewrite Hr. f_equal. f_equal. lia. }
  destruct (c <? 65536) eqn:E3; [apply Z.ltb_lt in E3|apply Z.ltb_ge in E3].
  { destruct (is_surrogate c) eqn:Es; [discriminate|].
    apply Some_inj in H; subst a. unfold is_surrogate in Es.
    assert (Hs : c < 55296 \/ 57343 < c).
    { apply andb_false_iff in Es. destruct Es as [Es|Es]; [apply Z.leb_gt in Es|apply Z.leb_gt in Es]; lia. }
    cbn [app utf8_dec]. unfold is_cont, is_surrogate.
    assert (Ec : (224 + c / 4096 - 224) * 4096 + (128 + (c / 64) mod 64 - 128) * 64 + (128 + c mod 64 - 128) = c) by lia.
    rewrite Ec. destruct Hs; decide_cmp; cbn [andb negb]; rewrite Hr; reflexivity. }
  destruct (c <? 1114112) eqn:E4; [apply Z.ltb_lt in E4|discriminate].
  apply Some_inj in H; subst a. cbn [app utf8_dec]. unfold is_cont.
  assert (Ec : (240 + c / 262144 - 240) * 262144 + (128 + (c / 4096) mod 64 - 128) * 4096
               + (128 + (c / 64) mod 64 - 128) * 64 + (128 + c mod 64 - 128) = c) by lia.
  rewrite Ec. decide_cmp. cbn [andb]. rewrite Hr. reflexivity.
Qed.

Lemma utf8_roundtrip s bs : utf8 s = Some bs -> utf8_dec bs = Some s.
Proof.
  revert bs. induction s as [|c r IH]; intros bs; cbn [utf8].
  - intros H. apply Some_inj in H. subst bs. reflexivity.
  - destruct (utf8_cp c) as [a|] eqn:Ea; [|discriminate].
    destruct (utf8 r) as [b|] eqn:Eb; [|discriminate].
    intros H. apply Some_inj in H. subst bs. apply utf8_dec_cp; auto.
Qed.

(** stripping the trailing "?=" *)
Lemma strip_suffix2_cons p : forall x, strip_suffix2 (x :: p ++ ew_suffix) = Some (x :: p).
Proof.
  unfold ew_suffix. induction p as [|y p' IH]; intros x.
  - reflexivity.
  - specialize (IH y). cbn [app] in *.
    change (strip_suffix2 (x :: y :: p' ++ [63; 61]))
      with (match y :: p' ++ [63; 61] with
            | [z] => if (x =? 63) && (z =? 61) then Some [] else None
            | _ => match strip_suffix2 (y :: p' ++ [63; 61]) with
                   | Some t => Some (x :: t) | None => None end
            end).
    rewrite IH. destruct p'; reflexivity.
Qed.

Lemma strip_suffix2_app p : strip_suffix2 (p ++ ew_suffix) = Some p.
Proof. destruct p as [|x p]; [reflexivity|apply strip_suffix2_cons]. Qed.

Lemma drop_prefix (X : list Z) : dropZ 10 (ew_prefix ++ X) = X.
Proof. unfold ew_prefix. cbn [app]. do 10 (cbn [dropZ]; match goal with |- context [0 <? ?n] => change (0 <? n) with true end; cbv iota). 
  change (dropZ (10 - 1 - 1 - 1 - 1 - 1 - 1 - 1 - 1 - 1 - 1) X) with (dropZ 0 X).
  destruct X; reflexivity. Qed.

(** c12_rfc2047_roundtrip *)
Lemma rfc2047_roundtrip v :
  is_latin1 v = false ->
  (exists bs, utf8 v = Some bs /\ encode true v = Ok (ew_prefix ++ b64enc bs ++ ew_suffix)
              /\ b64dec (b64enc bs) = Some bs /\ utf8_dec bs = Some v
              /\ decode_word (ew_prefix ++ b64enc bs ++ ew_suffix) = Some v)
  \/ (utf8 v = None /\ encode true v = EUnicode).
Proof.
  intros Hl. destruct (utf8 v) as [bs|] eqn:Eu.
  - left. exists bs. destruct (encode_word v bs Hl Eu) as [E1 E2].
    pose proof (utf8_roundtrip v bs Eu) as E3.
    repeat split; auto.
    unfold decode_word.
    assert (P : prefixb ew_prefix (ew_prefix ++ b64enc bs ++ ew_suffix) = true) by reflexivity.
    rewrite P.
    rewrite drop_prefix, strip_suffix2_app.
    cbn [obind]. rewrite E2. cbn [obind]. exact E3.
  - right. split; [reflexivity|]. unfold encode. now rewrite Hl, Eu.
Qed.
