(** Soundness of the symbolic executor [aexec] w.r.t. the concrete semantics [exec]:
    whatever the environment does (within the declared raise-sets), the outcome and the
    abstraction of the final state of a concrete run are among the results computed. *)
From Coq Require Import ZArith List Bool Lia Arith.
Import ListNotations.
From CV Require Import Model.M_flow Model.M_aflow.
Open Scope Z_scope.

Definition Inv (st : state) : Prop :=
  1 <= next_req (sid st) /\ memZ 0 (closed (sid st)) = true
  /\ (rsk (sid st) = true -> self_req (sid st) = serving (sid st)).

Lemma fin_effect_e5 showtb sz e5 a f :
  a <> SetResponseOfExc -> fin_effect showtb sz e5 a f = fin_effect showtb sz false a f.
Proof. intros H. destruct a; try reflexivity. congruence. Qed.

Lemma bindL_in {X Y} (l : list X) (k : X -> option (list Y)) R x :
  bindL l k = Some R -> In x l -> exists Rx, k x = Some Rx /\ incl Rx R.
Proof.
  revert R; induction l as [|y r IH]; intros R H Hin; [destruct Hin|].
  cbn [bindL] in H. destruct (k y) as [a|] eqn:Ky; [|discriminate].
  destruct (bindL r k) as [b|] eqn:Kr; [|discriminate]. inversion H; subst R; clear H.
  destruct Hin as [->|Hin].
  - exists a. split; [exact Ky | apply incl_appl, incl_refl].
  - destruct (IH b eq_refl Hin) as (Rx & Hk & Hi). exists Rx. split; [exact Hk | apply incl_appr, Hi].
Qed.

Lemma Some_inj {A} (a b : A) : Some a = Some b -> a = b.
Proof. congruence. Qed.

Lemma mem_a_true x l : mem_a x l = true -> In x l.
Proof. unfold mem_a. destruct (in_dec astate_dec x l); [tauto | discriminate]. Qed.
Lemma mem_r_true x l : mem_r x l = true -> In x l.
Proof. unfold mem_r. destruct (in_dec res_dec x l); [tauto | discriminate]. Qed.

Lemma dedupe_in x l : In x l -> In x (dedupe l).
Proof. unfold dedupe. apply nodup_In. Qed.

Section Sound.
  Variable prog : fname -> stmt.
  Variable pparam : fname -> stmt.
  Variable E : env.
  Hypothesis Eok : env_ok E.

  Notation AE := (aexec prog pparam (p_showtb E) (p_throw E)).
  Notation EX := (exec prog pparam E).

  Lemma alpha_x_effect a i :
    (rsk i = true -> self_req i = serving i) ->
    In (is_open (ids_effect a i), rsk (ids_effect a i), lost_req (ids_effect a i))
       (x_effect a (is_open i, rsk i, lost_req i)).
  Proof.
    intros Hk.
    destruct a; cbn [ids_effect x_effect]; try (left; reflexivity).
    - (* LoadServing *)
      cbn [rsk lost_req].
      match goal with |- In (?b1, _, _) _ => destruct b1; cbn; tauto end.
    - (* SetClosed *)
      cbn [rsk lost_req].
      assert (Ho : is_open (Ids (next_req i) (pending_req i) (serving i) (self_req i) (last_ir_req i) (ir_req i)
                               (self_req i :: closed i) (served i) (lost_req i) (rsk i))
                   = if self_req i =? serving i then false else is_open i).
      { unfold is_open. cbn [serving closed]. unfold memZ. cbn [existsb].
        destruct (self_req i =? serving i) eqn:Ers.
        - apply Z.eqb_eq in Ers. rewrite Ers, Z.eqb_refl. cbn [orb negb]. apply andb_false_r.
        - rewrite Z.eqb_sym in Ers. rewrite Ers. reflexivity. }
      rewrite Ho.
      destruct (rsk i) eqn:Ek.
      + rewrite (Hk eq_refl), Z.eqb_refl. now left.
      + destruct (self_req i =? serving i); cbn; tauto.
  Qed.

  Lemma alpha_effect a st :
    Inv st -> In (alpha (effect E a (log_action a st))) (a_effect (p_showtb E) a (alpha st)).
  Proof.
    intros Hinv. destruct Hinv as (Hinv & _ & Hk). unfold alpha, effect, log_action, a_effect. cbn [sid sfin tick].
    assert (Hsz : (serving (ids_effect a (sid st)) =? 0)
                  = match a with LoadServing => pending_req (sid st) =? 0 | ClearServing => true
                            | _ => serving (sid st) =? 0 end) by (destruct a; reflexivity).
    assert (Hpz : (pending_req (ids_effect a (sid st)) =? 0)
                  = match a with NewRequest => false | _ => pending_req (sid st) =? 0 end).
    { destruct a; try reflexivity. cbn. apply Z.eqb_neq. lia. }
    rewrite Hsz, Hpz.
    apply in_flat_map.
    exists (is_open (ids_effect a (sid st)), rsk (ids_effect a (sid st)), lost_req (ids_effect a (sid st))).
    split; [apply alpha_x_effect; exact Hk|].
    destruct (action_eq_dec a SetResponseOfExc) as [->|Hne].
    - destruct (e_cond E (S (tick st)) FHTTPError5xx); cbn; tauto.
    - rewrite (fin_effect_e5 _ _ _ a _ Hne). destruct a; try (left; reflexivity). congruence.
  Qed.

  Lemma alpha_eval_flag st f :
    Inv st -> In (eval_flag E st f) (a_eval_flag (p_showtb E) (p_throw E) (alpha st) f).
  Proof.
    intros (_ & H0 & Hk). unfold eval_flag, a_eval_flag, alpha.
    destruct f; try (destruct (rsk (sid st)); fail);
      try (destruct (e_cond E _ _); cbn; tauto); try (cbn; tauto).
    (* FClosed *)
    destruct (rsk (sid st)) eqn:Ek.
    - rewrite (Hk eq_refl).
      destruct (serving (sid st) =? 0) eqn:Esz.
      + apply Z.eqb_eq in Esz. rewrite Esz in *. rewrite H0. now left.
      + unfold is_open. rewrite Esz. cbn [negb andb]. rewrite negb_involutive. now left.
    - destruct (memZ (self_req (sid st)) (closed (sid st))); cbn; tauto.
  Qed.

  Lemma alpha_eval_cond st c :
    Inv st -> In (eval_cond E st c) (a_eval_cond (p_showtb E) (p_throw E) (alpha st) c).
  Proof.
    intros Hinv. induction c as [|f|c IH|]; cbn [eval_cond a_eval_cond].
    - now left.
    - now apply alpha_eval_flag.
    - now apply in_map.
    - destruct (e_cond E (tick st) FOther); cbn; tauto.
  Qed.

  Lemma Inv_effect a st : Inv st -> Inv (effect E a (log_action a st)).
  Proof.
    unfold Inv, effect, log_action. cbn [sid]. intros (H & H0 & Hk). split; [|split].
    - destruct a; cbn; lia.
    - destruct a; try exact H0. cbn [ids_effect closed]. unfold memZ in *. cbn [existsb]. rewrite H0. apply orb_true_r.
    - destruct a; try exact Hk; cbn [ids_effect rsk self_req serving]; try exact Hk; discriminate.
  Qed.

  Lemma Inv_enter g st : Inv st -> Inv (with_self (receiver g st) (recv_known g (rsk (sid st))) st).
  Proof.
    intros (H & H0 & Hk). unfold Inv, with_self. cbn [sid ids_with_self next_req closed rsk self_req serving].
    split; [exact H|]. split; [exact H0|].
    unfold receiver, recv_known. destruct g; try exact Hk; try reflexivity; discriminate.
  Qed.

  Lemma Inv_leave r st : Inv st -> Inv (with_self r false st).
  Proof.
    intros (H & H0 & _). unfold Inv, with_self. cbn [sid ids_with_self next_req closed rsk].
    split; [exact H|]. split; [exact H0|]. discriminate.
  Qed.

  Lemma exec_Inv : forall fuel param s st o st',
    Inv st -> EX fuel param s st = (o, st') -> Inv st'.
  Proof.
    induction fuel as [|f IH]; intros param s st o st' Hinv H; [cbn in H; inversion H; subst; exact Hinv|].
    destruct s as [|a|s1 s2|body hs orelse fin|c s1 s2|fl|[e|]| |body|body|g|]; cbn [exec] in H.
    - inversion H; subst; exact Hinv.
    - destruct (action_eq_dec a SetClosed) as [->|Hns].
      + inversion H; subst. now apply Inv_effect.
      + assert (H' : (match e_act E (occ a (journal st)) a with
                      | None => (Normal, effect E a (log_action a st))
                      | Some e => (Raised e, log_raise a e (log_action a st))
                      end) = (o, st')) by (destruct a; try exact H; congruence).
        destruct (e_act E (occ a (journal st)) a); inversion H'; subst; [exact Hinv | now apply Inv_effect].
    - destruct (EX f param s1 st) as [o1 st1] eqn:H1. pose proof (IH _ _ _ _ _ Hinv H1) as Hi1.
      destruct o1; try (inversion H; subst; exact Hi1). eapply IH; eassumption.
    - destruct (EX f param body st) as [o1 st1] eqn:H1. pose proof (IH _ _ _ _ _ Hinv H1) as Hi1.
      assert (H2 : exists o2 st2, Inv st2 /\
                 (match o2 with OutOfFuel => (OutOfFuel, st2)
                  | _ => let '(o3, st3) := EX f param fin st2 in
                         match o3 with Normal => (o2, st3) | _ => (o3, st3) end end) = (o, st')).
      { destruct o1.
        - destruct (EX f param orelse st1) as [o2 st2] eqn:H2. exists o2, st2. split; [eapply IH; eassumption | exact H].
        - exists Returned, st1. split; [exact Hi1 | exact H].
        - destruct (find_handler hs e) as [h|].
          + destruct (EX f param h (with_cur (Some e) st1)) as [oh sth] eqn:Hh.
            exists oh, (with_cur (cur_exn (sfin st1)) sth). split; [|exact H].
            assert (Inv (with_cur (Some e) st1)) by exact Hi1.
            pose proof (IH _ _ _ _ _ H0 Hh). exact H2.
          + exists (Raised e), st1. split; [exact Hi1 | exact H].
        - exists OutOfFuel, st1. split; [exact Hi1 | exact H]. }
      destruct H2 as (o2 & st2 & Hi2 & H2).
      destruct o2; try (destruct (EX f param fin st2) as [o3 st3] eqn:H3;
                        pose proof (IH _ _ _ _ _ Hi2 H3) as Hi3; destruct o3; inversion H2; subst; exact Hi3).
      inversion H2; subst; exact Hi2.
    - eapply IH; [|exact H]. exact Hinv.
    - inversion H; subst; exact Hinv.
    - inversion H; subst; exact Hinv.
    - destruct (cur_exn (sfin st)); inversion H; subst; exact Hinv.
    - inversion H; subst; exact Hinv.
    - destruct (EX f param body st) as [o1 st1] eqn:H1. pose proof (IH _ _ _ _ _ Hinv H1) as Hi1.
      destruct o1; try (inversion H; subst; exact Hi1). eapply IH; eassumption.
    - destruct (e_cond E (tick st) FLoopMore); [|inversion H; subst; exact Hinv].
      destruct (EX f param body (upd_tick st)) as [o1 st1] eqn:H1.
      assert (Hu : Inv (upd_tick st)) by exact Hinv. pose proof (IH _ _ _ _ _ Hu H1) as Hi1.
      destruct o1; try (inversion H; subst; exact Hi1). eapply IH; eassumption.
    - destruct (EX f (pparam g) (prog g) (with_self (receiver g st) (recv_known g (rsk (sid st))) st)) as [o1 st1] eqn:H1.
      pose proof (IH _ _ _ _ _ (Inv_enter g st Hinv) H1) as Hi1. inversion H; subst. now apply Inv_leave.
    - eapply IH; eassumption.
  Qed.

  Lemma alpha_with_cur e st : alpha (with_cur e st) = a_cur e (alpha st).
  Proof. reflexivity. Qed.

  Definition sound_at (fuel : nat) : Prop :=
    forall param s st o st', Inv st ->
      EX fuel param s st = (o, st') -> o <> OutOfFuel ->
      forall afuel R, AE afuel param s (alpha st) = Some R -> In (o, alpha st') R.

  Lemma loop_case fuel body param af C Racc :
    (forall k, (k < fuel)%nat -> sound_at k) ->
    check_closed (AE af param body) C Racc = true ->
    forall k, (k <= fuel)%nat -> forall st o st', Inv st -> In (alpha st) C ->
      EX k param (Loop body) st = (o, st') -> o <> OutOfFuel ->
      In (o, alpha st') Racc.
  Proof.
    intros IH Hcl. induction k as [|k IHk]; intros Hk st o st' Hinv Hin H Hne.
    - cbn in H. inversion H; subst. congruence.
    - cbn [exec] in H. destruct (EX k param body st) as [o1 st1] eqn:Hb.
      assert (Hs : sound_at k) by (apply IH; lia).
      pose proof (exec_Inv _ _ _ _ _ _ Hinv Hb) as Hinv1.
      unfold check_closed in Hcl. rewrite forallb_forall in Hcl. specialize (Hcl _ Hin).
      destruct (AE af param body (alpha st)) as [R|] eqn:HR; [|discriminate].
      rewrite forallb_forall in Hcl.
      destruct o1.
      + pose proof (Hs param body st Normal st1 Hinv Hb ltac:(discriminate) af R HR) as Hm.
        specialize (Hcl _ Hm). cbn in Hcl. apply mem_a_true in Hcl.
        apply (IHk ltac:(lia) st1 o st' Hinv1 Hcl H Hne).
      + inversion H; subst o st'.
        pose proof (Hs param body st Returned st1 Hinv Hb ltac:(discriminate) af R HR) as Hm.
        specialize (Hcl _ Hm). cbn in Hcl. now apply mem_r_true in Hcl.
      + inversion H; subst o st'.
        pose proof (Hs param body st (Raised e) st1 Hinv Hb ltac:(discriminate) af R HR) as Hm.
        specialize (Hcl _ Hm). cbn in Hcl. now apply mem_r_true in Hcl.
      + inversion H; subst. congruence.
  Qed.

  Lemma forloop_case fuel body param af C Racc :
    (forall k, (k < fuel)%nat -> sound_at k) ->
    check_closed (AE af param body) C Racc = true ->
    forall k, (k <= fuel)%nat -> forall st o st', Inv st -> In (alpha st) C ->
      EX k param (ForLoop body) st = (o, st') -> o <> OutOfFuel ->
      In (o, alpha st') (Racc ++ map (fun c => (Normal, c)) C).
  Proof.
    intros IH Hcl. induction k as [|k IHk]; intros Hk st o st' Hinv Hin H Hne.
    - cbn in H. inversion H; subst. congruence.
    - cbn [exec] in H. destruct (e_cond E (tick st) FLoopMore).
      2:{ inversion H; subst o st'. apply in_or_app. right.
          change (alpha (upd_tick st)) with (alpha st). now apply (in_map (fun c => (Normal, c))). }
      destruct (EX k param body (upd_tick st)) as [o1 st1] eqn:Hb.
      assert (Hs : sound_at k) by (apply IH; lia).
      assert (Hinvu : Inv (upd_tick st)) by exact Hinv.
      pose proof (exec_Inv _ _ _ _ _ _ Hinvu Hb) as Hinv1.
      unfold check_closed in Hcl. rewrite forallb_forall in Hcl. specialize (Hcl _ Hin).
      destruct (AE af param body (alpha st)) as [R|] eqn:HR; [|discriminate].
      rewrite forallb_forall in Hcl.
      change (alpha st) with (alpha (upd_tick st)) in HR.
      destruct o1.
      + pose proof (Hs param body _ Normal st1 Hinvu Hb ltac:(discriminate) af R HR) as Hm.
        specialize (Hcl _ Hm). cbn in Hcl. apply mem_a_true in Hcl.
        apply (IHk ltac:(lia) st1 o st' Hinv1 Hcl H Hne).
      + inversion H; subst o st'.
        pose proof (Hs param body _ Returned st1 Hinvu Hb ltac:(discriminate) af R HR) as Hm.
        specialize (Hcl _ Hm). cbn in Hcl. apply mem_r_true in Hcl. apply in_or_app; now left.
      + inversion H; subst o st'.
        pose proof (Hs param body _ (Raised e) st1 Hinvu Hb ltac:(discriminate) af R HR) as Hm.
        specialize (Hcl _ Hm). cbn in Hcl. apply mem_r_true in Hcl. apply in_or_app; now left.
      + inversion H; subst. congruence.
  Qed.

  Lemma case_Skip f  :
    (forall m, (m < S f)%nat -> sound_at m) ->
    forall param st o st', Inv st ->
      EX (S f) param (Skip) st = (o, st') -> o <> OutOfFuel ->
      forall afuel R, AE afuel param (Skip) (alpha st) = Some R -> In (o, alpha st') R.
  Proof.
    intros IH param st o st' Hinv H Hne.
    assert (IHf : sound_at f) by (apply IH; lia).
    cbn [exec] in H. inversion H; subst. intros [|af] R HR; cbn [aexec] in HR; [discriminate|].
    apply Some_inj in HR; subst R. now left.
  Qed.

  Lemma case_Act f a :
    (forall m, (m < S f)%nat -> sound_at m) ->
    forall param st o st', Inv st ->
      EX (S f) param (Act a) st = (o, st') -> o <> OutOfFuel ->
      forall afuel R, AE afuel param (Act a) (alpha st) = Some R -> In (o, alpha st') R.
  Proof.
    intros IH param st o st' Hinv H Hne.
    assert (IHf : sound_at f) by (apply IH; lia).
    cbn [exec] in H.
    destruct (action_eq_dec a SetClosed) as [->|Hns].
    + inversion H; subst o st'.
      intros [|af] R HR; cbn [aexec] in HR; [discriminate|]. apply Some_inj in HR; subst R.
      apply in_or_app. left. apply (in_map (fun y => (Normal, y))). apply alpha_effect. exact Hinv.
    + assert (H' : (match e_act E (occ a (journal st)) a with
                    | None => (Normal, effect E a (log_action a st))
                    | Some e => (Raised e, log_raise a e (log_action a st))
                    end) = (o, st')) by (destruct a; try exact H; congruence).
      clear H. destruct (e_act E (occ a (journal st)) a) as [e|] eqn:He.
      * inversion H'; subst o st'.
        intros [|af] R HR; cbn [aexec] in HR; [discriminate|]. apply Some_inj in HR; subst R.
        apply in_or_app. right.
        assert (Hmay : In e (may a)) by (eapply Eok; exact He).
        assert (Hin : In (Raised e, a_raise a e (alpha st)) (map (fun e0 => (Raised e0, a_raise a e0 (alpha st))) (may a)))
          by (apply (in_map (fun e0 => (Raised e0, a_raise a e0 (alpha st)))); exact Hmay).
        destruct a; try exact Hin; congruence.
      * inversion H'; subst o st'.
        intros [|af] R HR; cbn [aexec] in HR; [discriminate|]. apply Some_inj in HR; subst R.
        apply in_or_app. left. apply (in_map (fun y => (Normal, y))). apply alpha_effect. exact Hinv.
  Qed.

  Lemma case_Seq f s1 s2 :
    (forall m, (m < S f)%nat -> sound_at m) ->
    forall param st o st', Inv st ->
      EX (S f) param (Seq s1 s2) st = (o, st') -> o <> OutOfFuel ->
      forall afuel R, AE afuel param (Seq s1 s2) (alpha st) = Some R -> In (o, alpha st') R.
  Proof.
    intros IH param st o st' Hinv H Hne.
    assert (IHf : sound_at f) by (apply IH; lia).
    cbn [exec] in H.
    destruct (EX f param s1 st) as [o1 st1] eqn:H1.
    assert (Ho1 : o1 <> OutOfFuel).
    { intros ->. inversion H; subst. congruence. }
    pose proof (exec_Inv _ _ _ _ _ _ Hinv H1) as Hinv1.
    pose proof (IHf param s1 st o1 st1 Hinv H1 Ho1) as Hm1.
    intros [|af] R HR; cbn [aexec] in HR; [discriminate|].
    destruct (AE af param s1 (alpha st)) as [R1|] eqn:HR1; [|discriminate].
    destruct (bindL R1 _) as [R2|] eqn:HB; [|discriminate]. apply Some_inj in HR; subst R.
    apply dedupe_in.
    destruct (bindL_in _ _ _ _ HB (Hm1 af R1 HR1)) as (Rx & Hk & Hincl). cbn [fst snd] in Hk.
    apply Hincl.
    destruct o1; try (inversion H; subst o st'; apply Some_inj in Hk; subst Rx; now left); try congruence.
    apply (IHf param s2 st1 o st' Hinv1 H Hne af Rx Hk).
  Qed.

  Lemma case_Try f body hs orelse fin :
    (forall m, (m < S f)%nat -> sound_at m) ->
    forall param st o st', Inv st ->
      EX (S f) param (Try body hs orelse fin) st = (o, st') -> o <> OutOfFuel ->
      forall afuel R, AE afuel param (Try body hs orelse fin) (alpha st) = Some R -> In (o, alpha st') R.
  Proof.
    intros IH param st o st' Hinv H Hne.
    assert (IHf : sound_at f) by (apply IH; lia).
    cbn [exec] in H.
    destruct (EX f param body st) as [o1 st1] eqn:H1.
    pose proof (exec_Inv _ _ _ _ _ _ Hinv H1) as Hinv1.
    (* the middle stage *)
    remember (match o1 with
              | Normal => EX f param orelse st1
              | Raised e =>
                match find_handler hs e with
                | Some h =>
                  let saved := cur_exn (sfin st1) in
                  let '(oh, sth) := EX f param h (with_cur (Some e) st1) in
                  (oh, with_cur saved sth)
                | None => (o1, st1)
                end
              | _ => (o1, st1)
              end) as mid eqn:Hmid.
    destruct mid as [o2 st2].
    assert (Ho2 : o2 <> OutOfFuel) by (intros ->; inversion H; subst; congruence).
    assert (Ho1 : o1 <> OutOfFuel) by (intros ->; inversion Hmid; subst; congruence).
    pose proof (IHf param body st o1 st1 Hinv H1 Ho1) as Hm1.
    intros [|af] R HR; cbn [aexec] in HR; [discriminate|].
    destruct (AE af param body (alpha st)) as [R1|] eqn:HR1; [|discriminate].
    destruct (bindL R1 _) as [R2|] eqn:HB; [|discriminate].
    destruct (bindL (dedupe R2) _) as [R3|] eqn:HB3; [|discriminate].
    apply Some_inj in HR; subst R. apply dedupe_in.
    destruct (bindL_in _ _ _ _ HB (Hm1 af R1 HR1)) as (Rx & Hk & Hincl). cbn [fst snd] in Hk.
    (* (o2, alpha st2) is among the middle results *)
    assert (Hmid2 : In (o2, alpha st2) R2 /\ Inv st2).
    { destruct o1.
      - symmetry in Hmid. split; [|eapply exec_Inv; eassumption].
        apply Hincl. apply (IHf param orelse st1 o2 st2 Hinv1 Hmid Ho2 af Rx Hk).
      - inversion Hmid; subst o2 st2. split; [|exact Hinv1]. apply Hincl. apply Some_inj in Hk; subst Rx. now left.
      - destruct (find_handler hs e) as [h|].
        + cbv zeta in Hmid.
          destruct (EX f param h (with_cur (Some e) st1)) as [oh sth] eqn:Hh.
          inversion Hmid; subst o2 st2.
          assert (Hw : Inv (with_cur (Some e) st1)) by exact Hinv1.
          pose proof (exec_Inv _ _ _ _ _ _ Hw Hh) as Hinvh.
          split; [|exact Hinvh].
          apply Hincl.
          destruct (AE af param h (a_cur (Some e) (alpha st1))) as [Rh|] eqn:HRh; [|discriminate].
          cbn [option_map] in Hk. apply Some_inj in Hk; subst Rx.
          pose proof (IHf param h (with_cur (Some e) st1) oh sth Hw Hh Ho2 af Rh HRh) as Hmh.
          apply (in_map (fun rh => (fst rh, a_cur (cur_exn (fst (fst (fst (alpha st1))))) (snd rh)))) in Hmh.
          exact Hmh.
        + inversion Hmid; subst o2 st2. split; [|exact Hinv1]. apply Hincl. apply Some_inj in Hk; subst Rx. now left.
      - congruence. }
    destruct Hmid2 as [Hin2 Hinv2].
    destruct (bindL_in _ _ _ _ HB3 (dedupe_in _ _ Hin2)) as (Ry & Hk3 & Hincl3). cbn [fst snd] in Hk3.
    apply Hincl3.
    assert (Hfin : (let '(o3, st3) := EX f param fin st2 in
                    match o3 with Normal => (o2, st3) | _ => (o3, st3) end) = (o, st'))
      by (destruct o2; try exact H; congruence).
    assert (Hk3' : option_map (map (fun r3 => (match fst r3 with Normal => o2 | o3 => o3 end, snd r3)))
                              (AE af param fin (alpha st2)) = Some Ry)
      by (destruct o2; try exact Hk3; congruence).
    clear H Hk3.
    destruct (EX f param fin st2) as [o3 st3] eqn:H3.
    assert (Ho3 : o3 <> OutOfFuel) by (intros ->; inversion Hfin; subst; congruence).
    destruct (AE af param fin (alpha st2)) as [Rf|] eqn:HRf; [|discriminate].
    cbn [option_map] in Hk3'. apply Some_inj in Hk3'; subst Ry.
    pose proof (IHf param fin st2 o3 st3 Hinv2 H3 Ho3 af Rf HRf) as Hm3.
    apply (in_map (fun r3 => (match fst r3 with Normal => o2 | o3 => o3 end, snd r3))) in Hm3.
    cbn [fst snd] in Hm3.
    destruct o3; inversion Hfin; subst o st'; exact Hm3.
  Qed.

  Lemma case_If f c s1 s2 :
    (forall m, (m < S f)%nat -> sound_at m) ->
    forall param st o st', Inv st ->
      EX (S f) param (If c s1 s2) st = (o, st') -> o <> OutOfFuel ->
      forall afuel R, AE afuel param (If c s1 s2) (alpha st) = Some R -> In (o, alpha st') R.
  Proof.
    intros IH param st o st' Hinv H Hne.
    assert (IHf : sound_at f) by (apply IH; lia).
    cbn [exec] in H.
    assert (Hu : Inv (upd_tick st)) by exact Hinv.
    pose proof (IHf param (if eval_cond E st c then s1 else s2) (upd_tick st) o st' Hu H Hne) as Hm2.
    intros [|af] R HR; cbn [aexec] in HR; [discriminate|].
    destruct (bindL _ _) as [R2|] eqn:HB; [|discriminate]. apply Some_inj in HR; subst R.
    apply dedupe_in.
    destruct (bindL_in _ _ _ _ HB (alpha_eval_cond st c Hinv)) as (Rx & Hk & Hincl).
    apply Hincl. apply (Hm2 af Rx). exact Hk.
  Qed.

  Lemma case_Assign f fl :
    (forall m, (m < S f)%nat -> sound_at m) ->
    forall param st o st', Inv st ->
      EX (S f) param (Assign fl) st = (o, st') -> o <> OutOfFuel ->
      forall afuel R, AE afuel param (Assign fl) (alpha st) = Some R -> In (o, alpha st') R.
  Proof.
    intros IH param st o st' Hinv H Hne.
    assert (IHf : sound_at f) by (apply IH; lia).
    cbn [exec] in H. inversion H; subst. intros [|af] R HR; cbn [aexec] in HR; [discriminate|].
    apply Some_inj in HR; subst R. now left.
  Qed.

  Lemma case_Raise_Some f e :
    (forall m, (m < S f)%nat -> sound_at m) ->
    forall param st o st', Inv st ->
      EX (S f) param (Raise (Some e)) st = (o, st') -> o <> OutOfFuel ->
      forall afuel R, AE afuel param (Raise (Some e)) (alpha st) = Some R -> In (o, alpha st') R.
  Proof.
    intros IH param st o st' Hinv H Hne.
    assert (IHf : sound_at f) by (apply IH; lia).
    cbn [exec] in H. inversion H; subst. intros [|af] R HR; cbn [aexec] in HR; [discriminate|].
    apply Some_inj in HR; subst R. now left.
  Qed.

  Lemma case_Raise_None f  :
    (forall m, (m < S f)%nat -> sound_at m) ->
    forall param st o st', Inv st ->
      EX (S f) param (Raise None) st = (o, st') -> o <> OutOfFuel ->
      forall afuel R, AE afuel param (Raise None) (alpha st) = Some R -> In (o, alpha st') R.
  Proof.
    intros IH param st o st' Hinv H Hne.
    assert (IHf : sound_at f) by (apply IH; lia).
    cbn [exec] in H.
    intros [|af] R HR; cbn [aexec] in HR; [discriminate|]. apply Some_inj in HR; subst R.
    left. unfold alpha at 1. cbn [fst]. destruct (cur_exn (sfin st)); inversion H; subst; reflexivity.
  Qed.

  Lemma case_Return f  :
    (forall m, (m < S f)%nat -> sound_at m) ->
    forall param st o st', Inv st ->
      EX (S f) param (Return) st = (o, st') -> o <> OutOfFuel ->
      forall afuel R, AE afuel param (Return) (alpha st) = Some R -> In (o, alpha st') R.
  Proof.
    intros IH param st o st' Hinv H Hne.
    assert (IHf : sound_at f) by (apply IH; lia).
    cbn [exec] in H. inversion H; subst. intros [|af] R HR; cbn [aexec] in HR; [discriminate|].
    apply Some_inj in HR; subst R. now left.
  Qed.

  Lemma case_Loop f body :
    (forall m, (m < S f)%nat -> sound_at m) ->
    forall param st o st', Inv st ->
      EX (S f) param (Loop body) st = (o, st') -> o <> OutOfFuel ->
      forall afuel R, AE afuel param (Loop body) (alpha st) = Some R -> In (o, alpha st') R.
  Proof.
    intros IH param st o st' Hinv H Hne.
    assert (IHf : sound_at f) by (apply IH; lia).
   
    intros [|af] R HR; cbn [aexec] in HR; [discriminate|].
    destruct (close_loop _ _ _ _ _) as [[C Racc]|]; [|discriminate].
    destruct (mem_a (alpha st) C && check_closed (AE af param body) C Racc) eqn:Hc; [|discriminate].
    apply Some_inj in HR; subst R. apply andb_prop in Hc. destruct Hc as [Hc1 Hc2].
    apply mem_a_true in Hc1.
    apply (loop_case (S f) body param af C Racc IH Hc2 (S f) (le_n _) st o st' Hinv Hc1 H Hne).
  Qed.

  Lemma case_ForLoop f body :
    (forall m, (m < S f)%nat -> sound_at m) ->
    forall param st o st', Inv st ->
      EX (S f) param (ForLoop body) st = (o, st') -> o <> OutOfFuel ->
      forall afuel R, AE afuel param (ForLoop body) (alpha st) = Some R -> In (o, alpha st') R.
  Proof.
    intros IH param st o st' Hinv H Hne.
    assert (IHf : sound_at f) by (apply IH; lia).
   
    intros [|af] R HR; cbn [aexec] in HR; [discriminate|].
    destruct (close_loop _ _ _ _ _) as [[C Racc]|]; [|discriminate].
    destruct (mem_a (alpha st) C && check_closed (AE af param body) C Racc) eqn:Hc; [|discriminate].
    apply Some_inj in HR; subst R. apply andb_prop in Hc. destruct Hc as [Hc1 Hc2].
    apply mem_a_true in Hc1.
    apply (forloop_case (S f) body param af C Racc IH Hc2 (S f) (le_n _) st o st' Hinv Hc1 H Hne).
  Qed.

  Lemma alpha_enter g st :
    alpha (with_self (receiver g st) (recv_known g (rsk (sid st))) st) = a_enter g (alpha st).
  Proof. reflexivity. Qed.

  Lemma alpha_leave r st : alpha (with_self r false st) = a_leave (alpha st).
  Proof. reflexivity. Qed.

  Lemma case_Call f g :
    (forall m, (m < S f)%nat -> sound_at m) ->
    forall param st o st', Inv st ->
      EX (S f) param (Call g) st = (o, st') -> o <> OutOfFuel ->
      forall afuel R, AE afuel param (Call g) (alpha st) = Some R -> In (o, alpha st') R.
  Proof.
    intros IH param st o st' Hinv H Hne.
    assert (IHf : sound_at f) by (apply IH; lia).
    cbn [exec] in H.
    destruct (EX f (pparam g) (prog g) (with_self (receiver g st) (recv_known g (rsk (sid st))) st)) as [o1 st1] eqn:H1.
    inversion H; subst o st'; clear H.
    assert (Ho1 : o1 <> OutOfFuel) by (intros ->; congruence).
    pose proof (IHf (pparam g) (prog g) _ o1 st1 (Inv_enter g st Hinv) H1 Ho1) as Hm1.
    intros [|af] R HR; cbn [aexec] in HR; [discriminate|].
    rewrite alpha_enter in Hm1.
    destruct (AE af (pparam g) (prog g) (a_enter g (alpha st))) as [R1|] eqn:HR1; [|discriminate].
    cbn [option_map] in HR. apply Some_inj in HR; subst R.
    specialize (Hm1 af R1 HR1).
    apply dedupe_in. rewrite alpha_leave.
    apply (in_map (fun r => (match fst r with Returned => Normal | o => o end, a_leave (snd r)))) in Hm1.
    cbn [fst snd] in Hm1. destruct o1; exact Hm1.
  Qed.

  Lemma case_CallParam f  :
    (forall m, (m < S f)%nat -> sound_at m) ->
    forall param st o st', Inv st ->
      EX (S f) param (CallParam) st = (o, st') -> o <> OutOfFuel ->
      forall afuel R, AE afuel param (CallParam) (alpha st) = Some R -> In (o, alpha st') R.
  Proof.
    intros IH param st o st' Hinv H Hne.
    assert (IHf : sound_at f) by (apply IH; lia).
    cbn [exec] in H.
    pose proof (IHf Skip param st o st' Hinv H Hne) as Hm1.
    intros [|af] R HR; cbn [aexec] in HR; [discriminate|]. apply (Hm1 af R HR).
  Qed.

  Theorem aexec_sound : forall fuel, sound_at fuel.
  Proof.
    induction fuel as [fuel IH] using lt_wf_ind.
    unfold sound_at. intros param s st o st' Hinv H Hne.
    destruct fuel as [|f]; [cbn in H; inversion H; subst; congruence|].
    destruct s as [|a|s1 s2|body hs orelse fin|c s1 s2|fl|[e|]| |body|body|g|].
    - apply (case_Skip f  IH param st o st' Hinv H Hne).
    - apply (case_Act f a IH param st o st' Hinv H Hne).
    - apply (case_Seq f s1 s2 IH param st o st' Hinv H Hne).
    - apply (case_Try f body hs orelse fin IH param st o st' Hinv H Hne).
    - apply (case_If f c s1 s2 IH param st o st' Hinv H Hne).
    - apply (case_Assign f fl IH param st o st' Hinv H Hne).
    - apply (case_Raise_Some f e IH param st o st' Hinv H Hne).
    - apply (case_Raise_None f  IH param st o st' Hinv H Hne).
    - apply (case_Return f  IH param st o st' Hinv H Hne).
    - apply (case_Loop f body IH param st o st' Hinv H Hne).
    - apply (case_ForLoop f body IH param st o st' Hinv H Hne).
    - apply (case_Call f g IH param st o st' Hinv H Hne).
    - apply (case_CallParam f  IH param st o st' Hinv H Hne).
  Qed.
End Sound.
