(** C20, Monitor / BackgroundTask: reachability, the inductive invariant of the
    repaired system and the three state theorems that follow from it. *)
From Coq Require Import ZArith List Bool Lia.
From CV Require Import Lib.Sx Lib.ListZ LibP.ListZ_facts Model.M_monitor.
Import ListNotations.
Open Scope Z_scope.

(* ------------------------------------------------------------------ *)
(** * Z-indexed access *)

Lemma nthZ_range {A} (l : list A) : forall w t, nthZ w l = Some t -> 0 <= w < lenZ l.
Proof.
  induction l as [|x r IH]; intros w t H; cbn [nthZ] in H; [discriminate|].
  rewrite lenZ_cons. pose proof (lenZ_nonneg r).
  destruct (w =? 0) eqn:E0; [apply Z.eqb_eq in E0; lia|].
  destruct (w <? 0) eqn:E1; [discriminate|].
  apply Z.eqb_neq in E0. apply Z.ltb_ge in E1. apply IH in H. lia.
Qed.

Lemma nthZ_updZ_eq {A} (f : A -> A) (l : list A) : forall w,
  nthZ w (updZ w f l) = option_map f (nthZ w l).
Proof.
  induction l as [|x r IH]; intros w; cbn [nthZ updZ option_map]; [reflexivity|].
  destruct (w =? 0) eqn:E0; cbn [nthZ]; rewrite E0; [reflexivity|].
  destruct (w <? 0); [reflexivity|apply IH].
Qed.

Lemma nthZ_updZ_neq {A} (f : A -> A) (l : list A) : forall w w', w <> w' ->
  nthZ w' (updZ w f l) = nthZ w' l.
Proof.
  induction l as [|x r IH]; intros w w' N; cbn [nthZ updZ]; [reflexivity|].
  destruct (w =? 0) eqn:E0; cbn [nthZ].
  - apply Z.eqb_eq in E0. destruct (w' =? 0) eqn:E1; [apply Z.eqb_eq in E1; lia|reflexivity].
  - destruct (w' =? 0); [reflexivity|]. destruct (w' <? 0); [reflexivity|]. apply IH. lia.
Qed.

Lemma nthZ_app_l {A} (l l' : list A) : forall w t, nthZ w l = Some t -> nthZ w (l ++ l') = Some t.
Proof.
  induction l as [|x r IH]; intros w t H; cbn [nthZ app] in *; [discriminate|].
  destruct (w =? 0); [exact H|]. destruct (w <? 0); [discriminate|]. apply IH, H.
Qed.

Lemma nthZ_app_inv {A} (l : list A) (x : A) : forall w t,
  nthZ w (l ++ [x]) = Some t -> nthZ w l = Some t \/ (w = lenZ l /\ t = x).
Proof.
  induction l as [|y r IH]; intros w t H; cbn [nthZ app] in *.
  - destruct (w =? 0) eqn:E0.
    + apply Z.eqb_eq in E0. injection H as <-. right. split; [rewrite lenZ_nil; exact E0|reflexivity].
    + destruct (w <? 0); discriminate.
  - destruct (w =? 0) eqn:E0; [left; exact H|].
    destruct (w <? 0); [discriminate|].
    apply IH in H. destruct H as [H|[H1 H2]]; [left; exact H|right].
    split; [rewrite lenZ_cons; lia|exact H2].
Qed.

Lemma nthZ_app_new {A} (l : list A) (x : A) : nthZ (lenZ l) (l ++ [x]) = Some x.
Proof.
  induction l as [|y r IH]; cbn [nthZ app].
  - rewrite lenZ_nil. reflexivity.
  - rewrite lenZ_cons. pose proof (lenZ_nonneg r).
    destruct (1 + lenZ r =? 0) eqn:E0; [apply Z.eqb_eq in E0; lia|].
    destruct (1 + lenZ r <? 0) eqn:E1; [apply Z.ltb_lt in E1; lia|].
    replace (1 + lenZ r - 1) with (lenZ r) by lia. exact IH.
Qed.

(** the tasks of [updZ w0 f l]: the one at w0 is [f] of the old one, the others are unchanged *)
Lemma updZ_cases {A} (f : A -> A) (l : list A) w0 w t :
  nthZ w (updZ w0 f l) = Some t ->
  (w = w0 /\ exists t0, nthZ w0 l = Some t0 /\ t = f t0) \/ (w <> w0 /\ nthZ w l = Some t).
Proof.
  intros H. destruct (Z.eq_dec w w0) as [->|N].
  - left. split; [reflexivity|]. rewrite nthZ_updZ_eq in H.
    destruct (nthZ w0 l) as [t0|]; [|discriminate]. cbn in H. injection H as <-. eauto.
  - right. split; [exact N|]. rewrite nthZ_updZ_neq in H by congruence. exact H.
Qed.

(* ------------------------------------------------------------------ *)
(** * journal observers *)

Lemma invs_after_nonneg w j : 0 <= invs_after w j.
Proof. induction j as [|e r IH]; cbn [invs_after]; [lia|]. destruct (is_inv w e && stopped_in w r); lia. Qed.

Lemma invs_after_unstopped w j : stopped_in w j = false -> invs_after w j = 0.
Proof.
  induction j as [|e r IH]; cbn [invs_after stopped_in existsb]; intros H; [reflexivity|].
  apply orb_false_iff in H. destruct H as [_ H].
  change (existsb (is_stopret w) r) with (stopped_in w r) in H.
  rewrite H, andb_false_r, IH by exact H. reflexivity.
Qed.

(* ------------------------------------------------------------------ *)
(** * reachability: every schedule, any number of steps *)

Inductive reach (cf : cfg) (p : list op) : st -> Prop :=
| reach_init : reach cf p (init p)
| reach_step : forall s tid lab s', reach cf p s -> step cf tid s = Some (lab, s') -> reach cf p s'.

Lemma replay_reach cf p : forall sched cur s tr cur' s' tr',
  reach cf p s -> replay cf sched cur s tr = (cur', s', tr') -> reach cf p s'.
Proof.
  induction sched as [|x r IH]; intros cur s tr cur' s' tr' R H; cbn [replay] in H.
  - injection H as _ <- _. exact R.
  - destruct (step cf x s) as [[lab s1]|] eqn:E.
    + eapply IH; [|exact H]. eapply reach_step; eauto.
    + eapply IH; eauto.
Qed.

Lemma tail_reach cf p : forall fuel cur s tr ok s' tr',
  reach cf p s -> tail cf fuel cur s tr = (ok, s', tr') -> reach cf p s'.
Proof.
  induction fuel as [|f IH]; intros cur s tr ok s' tr' R H; cbn [tail] in H.
  - injection H as _ <- _. exact R.
  - destruct (enabled cf s) as [|e0 en]; [injection H as _ <- _; exact R|].
    match type of H with context [step cf ?x s] => destruct (step cf x s) as [[lab s1]|] eqn:E end.
    + eapply IH; [|exact H]. eapply reach_step; eauto.
    + injection H as _ <- _. exact R.
Qed.

(** what [run_C20] computes for a schedule is a reachable state *)
Lemma run_monitor_reach cf p sched ok s tr :
  run_monitor cf p sched = (ok, s, tr) -> reach cf p s.
Proof.
  unfold run_monitor. destruct (replay cf sched None (init p) []) as [[cur s0] tr0] eqn:E. intros H.
  eapply tail_reach; [|exact H]. eapply replay_reach; [apply reach_init|exact E].
Qed.

(* ------------------------------------------------------------------ *)
(** * the invariant of the repaired system *)

Definition inflight (t : task) : Z := match t_pc t with WCall => 1 | _ => 0 end.

Definition tinv (j : list event) (m : option Z) (w : Z) (t : task) : Prop :=
  (t_canc t = true -> t_run t = false) /\
  t_pc t <> WSet /\
  (stopped_in w j = true -> t_canc t = true) /\
  (t_canc t = true -> invs_after w j + inflight t <= 1) /\
  (t_canc t = false -> m = Some w) /\
  (t_canc t = false -> t_spawned t = true -> t_run t = true) /\
  (t_canc t = false -> t_pc t <> WDone).

Definition has_canc (l : list task) (w : Z) : Prop := exists t, nthZ w l = Some t /\ t_canc t = true.

Definition cinv (s : st) : Prop :=
  let c := ct s in
  match pc c with
  | CStart => lastop c = None
  | CIdle | CFin =>
    lastop c = Some OGraceful ->
    exists w t, mthread c = Some w /\ nthZ w (tasks s) = Some t /\ t_spawned t = true /\ t_canc t = false
  | CCreate => mthread c = None
  | CSetRun => exists w t, mthread c = Some w /\ nthZ w (tasks s) = Some t /\
                           t_canc t = false /\ t_spawned t = false
  | CSpawn => exists w t, mthread c = Some w /\ nthZ w (tasks s) = Some t /\
                          t_canc t = false /\ t_spawned t = false /\ t_run t = true
  | CCancel => (exists w, mthread c = Some w /\ target c = Some w) /\
               (thenstart c = false -> curop c <> Some OGraceful)
  | CJoin | CClear => (exists w, mthread c = Some w /\ target c = Some w /\ has_canc (tasks s) w) /\
                      (thenstart c = false -> curop c <> Some OGraceful)
  | CStopRet => mthread c = None /\ (forall w, target c = Some w -> has_canc (tasks s) w) /\
                (thenstart c = false -> curop c <> Some OGraceful)
  end.

Definition Inv (s : st) : Prop :=
  (forall w t, nthZ w (tasks s) = Some t -> tinv (jrn s) (mthread (ct s)) w t) /\
  (forall w, mthread (ct s) = Some w -> exists t, nthZ w (tasks s) = Some t) /\
  (forall w, stopped_in w (jrn s) = true -> exists t, nthZ w (tasks s) = Some t) /\
  cinv s.

Lemma Inv_init p : Inv (init p).
Proof.
  unfold Inv, init; cbn. repeat split; intros; try discriminate.
Qed.

(** [op_return] keeps tasks and [mthread]; it only adds an [EOpRet] to the journal *)
Lemma tinv_opret j m w t k n : tinv j m w t -> tinv (EOpRet k n :: j) m w t.
Proof. unfold tinv. cbn [stopped_in existsb is_stopret invs_after is_inv andb orb]. auto. Qed.

Lemma tinv_opbegin j m w t k : tinv j m w t -> tinv (EOpBegin k :: j) m w t.
Proof. unfold tinv. cbn [stopped_in existsb is_stopret invs_after is_inv andb orb]. auto. Qed.

Ltac inv_some :=
  match goal with
  | H : Some _ = Some _ |- _ => injection H as H; try subst
  | H : (_, _) = (_, _) |- _ => injection H as H; try subst
  end.

(** ** the controller's steps *)
Ltac split_inv :=
  unfold Inv; cbn [ct tasks now jrn mthread pc prog opidx target thenstart curop lastop c_pc];
  split; [|split; [|split]].

Lemma cstep_Inv cf s lab s' :
  c_fixed cf = true -> Inv s -> cstep cf s = Some (lab, s') -> Inv s'.
Proof.
  intros FX (HT & HM & HS & HC) H.
  unfold cstep in H. unfold cinv in HC.
  destruct s as [ts c nw j]. cbn [ct tasks now jrn] in *.
  destruct c as [m p pr k tg th co lo]. cbn [pc mthread prog opidx target thenstart curop lastop] in *.
  destruct p.
  - (* CStart *)
    injection H as <- <-. split_inv; auto.
    unfold cinv; cbn. destruct pr; cbn; intros; congruence.
  - (* CIdle *)
    destruct pr as [|o r]; [discriminate|]. injection H as <- <-.
    assert (HT1 : forall w t, nthZ w ts = Some t -> tinv (EOpBegin k :: j) m w t)
      by (intros; apply tinv_opbegin; auto).
    destruct o; unfold begin_start, begin_stop, op_return; cbn; destruct m as [w0|]; cbn.
    + (* start, already started *)
      split_inv; auto.
      unfold cinv; cbn. destruct r; cbn; intros; discriminate.
    + split_inv; auto. unfold cinv; cbn. reflexivity.
    + (* stop on a running monitor *)
      split_inv; auto. unfold cinv; cbn. split; [eauto|intros; discriminate].
    + split_inv; auto. unfold cinv; cbn. repeat split; intros; discriminate.
    + (* graceful *)
      split_inv; auto. unfold cinv; cbn. split; [eauto|intros; discriminate].
    + split_inv; auto. unfold cinv; cbn. repeat split; intros; discriminate.
  - (* CCreate *)
    injection H as <- <-. rewrite FX. subst m.
    assert (allc : forall w t, nthZ w ts = Some t -> t_canc t = true).
    { intros w t Hn. destruct (t_canc t) eqn:E; [reflexivity|].
      destruct (HT w t Hn) as (_ & _ & _ & _ & H5 & _). specialize (H5 E). discriminate. }
    split_inv.
    + intros w t Hn. apply nthZ_app_inv in Hn. destruct Hn as [Hn|[-> ->]].
      * pose proof (HT w t Hn) as (A1 & A2 & A3 & A4 & A5 & A6 & A7).
        pose proof (allc w t Hn) as Cn.
        unfold tinv. repeat split; auto; intros; congruence.
      * unfold tinv, new_task; cbn. repeat split; try congruence.
        intros St. apply HS in St. destruct St as [t St]. apply nthZ_range in St. lia.
    + intros w E. injection E as <-. exists new_task. apply nthZ_app_new.
    + intros w St. apply HS in St. destruct St as [t St]. exists t. apply nthZ_app_l. exact St.
    + unfold cinv; cbn. exists (lenZ ts), new_task. rewrite nthZ_app_new. auto.
  - (* CSetRun *)
    destruct m as [w0|]; [|discriminate]. injection H as <- <-.
    destruct HC as (w1 & t1 & E1 & N1 & C1 & S1). injection E1 as <-.
    split_inv.
    + intros w t Hn. apply updZ_cases in Hn. destruct Hn as [[-> (t0 & N0 & ->)]|[N Hn]].
      * rewrite N1 in N0. injection N0 as <-.
        pose proof (HT w0 t1 N1) as (A1 & A2 & A3 & A4 & A5 & A6 & A7).
        unfold tinv, set_run; cbn. repeat split; auto; intros; congruence.
      * auto.
    + intros w E. injection E as <-. rewrite nthZ_updZ_eq, N1. cbn. eauto.
    + intros w St. apply HS in St. destruct St as [t St].
      destruct (Z.eq_dec w0 w) as [<-|N].
      * rewrite nthZ_updZ_eq, St. cbn. eauto.
      * rewrite nthZ_updZ_neq by exact N. eauto.
    + unfold cinv; cbn. exists w0, (set_run true t1). rewrite nthZ_updZ_eq, N1. cbn. auto.
  - (* CSpawn *)
    destruct m as [w0|]; [|discriminate]. injection H as <- <-.
    destruct HC as (w1 & t1 & E1 & N1 & C1 & S1 & R1). injection E1 as <-.
    unfold op_return; cbn. split_inv.
    + intros w t Hn. apply tinv_opret. apply updZ_cases in Hn.
      destruct Hn as [[-> (t0 & N0 & ->)]|[N Hn]].
      * rewrite N1 in N0. injection N0 as <-.
        pose proof (HT w0 t1 N1) as (A1 & A2 & A3 & A4 & A5 & A6 & A7).
        unfold tinv, set_spawned; cbn. repeat split; auto.
      * auto.
    + intros w E. injection E as <-. rewrite nthZ_updZ_eq, N1. cbn. eauto.
    + intros w St. cbn in St. apply HS in St. destruct St as [t St].
      destruct (Z.eq_dec w0 w) as [<-|N].
      * rewrite nthZ_updZ_eq, St. cbn. eauto.
      * rewrite nthZ_updZ_neq by exact N. eauto.
    + assert (G : exists w t, Some w0 = Some w /\ nthZ w (updZ w0 set_spawned ts) = Some t /\
                              t_spawned t = true /\ t_canc t = false).
      { exists w0, (set_spawned t1). rewrite nthZ_updZ_eq, N1. cbn. auto. }
      unfold cinv; cbn. destruct pr; cbn; intros; exact G.
  - (* CCancel *)
    destruct tg as [w0|]; [|discriminate]. injection H as <- <-.
    destruct HC as ((w1 & E1 & E2) & TG). injection E2 as <-. subst m.
    destruct (HM w0 eq_refl) as [t0 N0].
    assert (HCn : has_canc (updZ w0 do_cancel ts) w0).
    { exists (do_cancel t0). rewrite nthZ_updZ_eq, N0. cbn. auto. }
    assert (I1 : forall w t, nthZ w (updZ w0 do_cancel ts) = Some t -> tinv j (Some w0) w t).
    { intros w t Hn. apply updZ_cases in Hn. destruct Hn as [[-> (t' & N' & ->)]|[N Hn]]; [|auto].
      rewrite N0 in N'. injection N' as <-.
      pose proof (HT w0 t0 N0) as (A1 & A2 & A3 & A4 & A5 & A6 & A7).
      unfold tinv, do_cancel; cbn. repeat split; auto; try congruence.
      intros _. destruct (t_canc t0) eqn:Ec.
      + apply A4. reflexivity.
      + rewrite invs_after_unstopped.
        * unfold inflight. cbn. destruct (t_pc t0); lia.
        * destruct (stopped_in w0 j) eqn:Es; [|reflexivity]. specialize (A3 eq_refl). congruence. }
    assert (I2 : forall w, Some w0 = Some w -> exists t, nthZ w (updZ w0 do_cancel ts) = Some t).
    { intros w E. injection E as <-. destruct HCn as (t & Hn & _). eauto. }
    assert (I3 : forall w, stopped_in w j = true -> exists t, nthZ w (updZ w0 do_cancel ts) = Some t).
    { intros w St. apply HS in St. destruct St as [t St].
      destruct (Z.eq_dec w0 w) as [<-|N].
      + rewrite nthZ_updZ_eq, St. cbn. eauto.
      + rewrite nthZ_updZ_neq by exact N. eauto. }
    split_inv; auto.
    unfold cinv; cbn. destruct (c_daemon cf); cbn; (split; [eauto|exact TG]).
  - (* CJoin *)
    destruct tg as [w0|]; [|discriminate].
    destruct (task_done ts w0); [|discriminate]. injection H as <- <-.
    split_inv; auto.
  - (* CClear *)
    injection H as <- <-.
    destruct HC as ((w0 & E1 & E2 & (t0 & N0 & C0)) & TG). subst m tg.
    split_inv; auto.
    + intros w t Hn. pose proof (HT w t Hn) as (A1 & A2 & A3 & A4 & A5 & A6 & A7).
      assert (Cn : t_canc t = true).
      { destruct (t_canc t) eqn:E; [reflexivity|]. specialize (A5 eq_refl). injection A5 as <-.
        rewrite N0 in Hn. injection Hn as <-. congruence. }
      unfold tinv. repeat split; auto; intros; congruence.
    + intros; discriminate.
    + unfold cinv; cbn. split; [reflexivity|]. split; [|exact TG].
      intros w E. injection E as <-. exists t0. auto.
  - (* CStopRet *)
    destruct HC as (-> & TG & GR).
    assert (HT1 : forall w t, nthZ w ts = Some t -> tinv (EStopRet tg nw :: j) None w t).
    { intros w t Hn. pose proof (HT w t Hn) as (A1 & A2 & A3 & A4 & A5 & A6 & A7).
      unfold tinv. cbn [stopped_in existsb invs_after is_inv andb].
      change (existsb (is_stopret w) j) with (stopped_in w j).
      repeat split; auto.
      intros St. apply orb_true_iff in St. destruct St as [St|St]; [|auto].
      destruct tg as [w1|]; cbn in St; [|discriminate]. apply Z.eqb_eq in St. subst w1.
      destruct (TG w eq_refl) as (t' & N' & C'). rewrite Hn in N'. injection N' as <-. exact C'. }
    assert (HS1 : forall w, stopped_in w (EStopRet tg nw :: j) = true -> exists t, nthZ w ts = Some t).
    { intros w St. cbn [stopped_in existsb] in St. apply orb_true_iff in St. destruct St as [St|St]; [|auto].
      destruct tg as [w1|]; cbn in St; [|discriminate]. apply Z.eqb_eq in St. subst w1.
      destruct (TG w eq_refl) as (t' & N' & _). eauto. }
    injection H as <- <-. destruct th.
    + (* graceful: start follows *)
      unfold begin_start; cbn. split_inv; auto. unfold cinv; cbn. reflexivity.
    + unfold op_return; cbn. split_inv; auto.
      specialize (GR eq_refl). unfold cinv; cbn. destruct pr; cbn; intros; congruence.
  - discriminate.
Qed.

(** ** a worker's steps *)

Lemma has_canc_upd ts w0 f w :
  (forall t, t_canc (f t) = t_canc t) -> has_canc ts w -> has_canc (updZ w0 f ts) w.
Proof.
  intros F (t & N & C). destruct (Z.eq_dec w0 w) as [<-|Ne].
  - exists (f t). rewrite nthZ_updZ_eq, N. cbn. rewrite F. auto.
  - exists t. rewrite nthZ_updZ_neq by exact Ne. auto.
Qed.

Lemma cinv_upd ts c nw j nw' j' w0 f :
  (forall t, t_canc (f t) = t_canc t /\ t_spawned (f t) = t_spawned t /\ t_run (f t) = t_run t) ->
  cinv (St ts c nw j) -> cinv (St (updZ w0 f ts) c nw' j').
Proof.
  intros F. unfold cinv; cbn [ct tasks].
  assert (X : forall w t, nthZ w ts = Some t -> exists t', nthZ w (updZ w0 f ts) = Some t' /\
              t_canc t' = t_canc t /\ t_spawned t' = t_spawned t /\ t_run t' = t_run t).
  { intros w t N. destruct (Z.eq_dec w0 w) as [<-|Ne].
    - exists (f t). rewrite nthZ_updZ_eq, N. cbn. split; [reflexivity|apply F].
    - exists t. rewrite nthZ_updZ_neq by exact Ne. auto. }
  assert (Y : forall w, has_canc ts w -> has_canc (updZ w0 f ts) w)
    by (intros w; apply has_canc_upd; intros t; apply F).
  destruct (pc c); auto.
  - intros H L. destruct (H L) as (w & t & E & N & S & C). destruct (X w t N) as (t' & N' & C' & S' & R').
    exists w, t'. repeat split; congruence.
  - intros (w & t & E & N & C & S). destruct (X w t N) as (t' & N' & C' & S' & R').
    exists w, t'. repeat split; congruence.
  - intros (w & t & E & N & C & S & R). destruct (X w t N) as (t' & N' & C' & S' & R').
    exists w, t'. repeat split; congruence.
  - intros ((w & E1 & E2 & HCn) & G). split; [|exact G]. exists w. auto.
  - intros ((w & E1 & E2 & HCn) & G). split; [|exact G]. exists w. auto.
  - intros (E & TG & G). repeat split; auto.
  - intros H L. destruct (H L) as (w & t & E & N & S & C). destruct (X w t N) as (t' & N' & C' & S' & R').
    exists w, t'. repeat split; congruence.
Qed.

Ltac tfin :=
  repeat match goal with |- _ /\ _ => split end; intros;
  repeat match goal with H : ?P, A : ?P -> _ |- _ => specialize (A H) end;
  try congruence; try lia; auto.

Lemma wstep_Inv cf w0 s lab s' :
  c_fixed cf = true -> Inv s -> wstep cf w0 s = Some (lab, s') -> Inv s'.
Proof.
  intros FX (HT & HM & HS & HC) H.
  unfold wstep in H. destruct s as [ts c nw j]. cbn [ct tasks now jrn] in *.
  destruct (nthZ w0 ts) as [t0|] eqn:N0; [|discriminate].
  destruct (t_spawned t0) eqn:S0; cbn [negb] in H; [|discriminate].
  pose proof (HT w0 t0 N0) as (A1 & A2 & A3 & A4 & A5 & A6 & A7).
  (* every step has the shape: tasks := updZ w0 f tasks, with f preserving the flags; the journal
     grows only in WCall *)
  assert (GEN : forall f nw' j',
    (forall t, t_canc (f t) = t_canc t /\ t_spawned (f t) = t_spawned t /\ t_run (f t) = t_run t) ->
    (forall w, stopped_in w j' = stopped_in w j) ->
    (forall w t, nthZ w ts = Some t -> w <> w0 -> invs_after w j' = invs_after w j) ->
    tinv j' (mthread c) w0 (f t0) ->
    Inv (St (updZ w0 f ts) c nw' j')).
  { intros f nw' j' F SJ IJ T0. split_inv.
    - intros w t Hn. apply updZ_cases in Hn. destruct Hn as [[-> (t' & N' & ->)]|[N Hn]].
      + rewrite N0 in N'. injection N' as <-. exact T0.
      + pose proof (HT w t Hn) as (B1 & B2 & B3 & B4 & B5 & B6 & B7).
        unfold tinv. rewrite SJ, (IJ w t Hn N). repeat split; auto.
    - intros w E. destruct (HM w E) as [t Hn]. destruct (Z.eq_dec w0 w) as [<-|Ne].
      + rewrite nthZ_updZ_eq, Hn. cbn. eauto.
      + rewrite nthZ_updZ_neq by exact Ne. eauto.
    - intros w St. rewrite SJ in St. destruct (HS w St) as [t Hn]. destruct (Z.eq_dec w0 w) as [<-|Ne].
      + rewrite nthZ_updZ_eq, Hn. cbn. eauto.
      + rewrite nthZ_updZ_neq by exact Ne. eauto.
    - eapply cinv_upd; eauto. }
  destruct (t_pc t0) eqn:P0.
  - (* WBegin *)
    injection H as <- <-. rewrite FX. apply GEN; auto.
    unfold tinv, set_pc, inflight in *; cbn. rewrite P0 in *. tfin.
  - congruence.
  - (* WTest *)
    injection H as <- <-. destruct (t_run t0) eqn:R0.
    + apply GEN; auto. unfold tinv, go_sleep, inflight in *; cbn. rewrite P0 in *. tfin.
    + apply GEN; auto. unfold tinv, set_pc, inflight in *; cbn. rewrite P0 in *. tfin.
  - (* WSleep *)
    destruct (t_sleeps t0 <? c_budget cf); [|discriminate]. injection H as <- <-.
    apply GEN; auto. unfold tinv, woke, inflight in *; cbn. rewrite P0 in *. tfin.
  - (* WTest2 *)
    injection H as <- <-. apply GEN; auto.
    unfold tinv, set_pc, inflight in *; cbn. rewrite P0 in *. destruct (t_run t0) eqn:R0; tfin.
  - (* WCall *)
    injection H as <- <-. apply GEN.
    + intros t; unfold set_pc; cbn; auto.
    + intros w. reflexivity.
    + intros w t Hn Ne. cbn [invs_after is_inv].
      destruct (w0 =? w) eqn:E; [apply Z.eqb_eq in E; congruence|]. cbn. reflexivity.
    + unfold tinv, set_pc, inflight in *; cbn [t_pc t_run t_canc t_spawned]. rewrite P0 in *.
      cbn [invs_after is_inv stopped_in existsb is_stopret orb]. rewrite Z.eqb_refl. cbn [andb].
      change (existsb (is_stopret w0) j) with (stopped_in w0 j).
      destruct (stopped_in w0 j); tfin.
  - discriminate.
Qed.

Lemma step_Inv cf tid s lab s' :
  c_fixed cf = true -> Inv s -> step cf tid s = Some (lab, s') -> Inv s'.
Proof.
  unfold step. destruct (tid =? 0); [apply cstep_Inv|apply wstep_Inv].
Qed.

Theorem reach_Inv cf p s : c_fixed cf = true -> reach cf p s -> Inv s.
Proof.
  intros FX R. induction R; [apply Inv_init|eapply step_Inv; eauto].
Qed.

(* ------------------------------------------------------------------ *)
(** * consequences *)

(** after stop() has returned, the worker it stopped invokes the callback at most once more;
    at most one worker per monitor is active - in every reachable state *)
Theorem thm_stop_bounded cf p s :
  c_fixed cf = true -> reach cf p s ->
  (forall w, invs_after w (jrn s) <= 1) /\
  (forall w1 w2 t1 t2, nthZ w1 (tasks s) = Some t1 -> nthZ w2 (tasks s) = Some t2 ->
                       active t1 -> active t2 -> w1 = w2).
Proof.
  intros FX R. destruct (reach_Inv _ _ _ FX R) as (HT & HM & HS & HC). split.
  - intros w. destruct (stopped_in w (jrn s)) eqn:St.
    + destruct (HS w St) as [t N]. destruct (HT w t N) as (A1 & A2 & A3 & A4 & _).
      specialize (A4 (A3 St)). unfold inflight in A4. destruct (t_pc t); lia.
    + rewrite invs_after_unstopped by exact St. lia.
  - intros w1 w2 t1 t2 N1 N2 (_ & C1 & _) (_ & C2 & _).
    destruct (HT w1 t1 N1) as (_ & _ & _ & _ & B1 & _).
    destruct (HT w2 t2 N2) as (_ & _ & _ & _ & B2 & _).
    specialize (B1 C1). specialize (B2 C2). congruence.
Qed.

(** a cancelled worker's flag stays down: no lost cancel *)
Theorem thm_cancel_sticks cf p s w t :
  c_fixed cf = true -> reach cf p s -> nthZ w (tasks s) = Some t -> t_canc t = true -> t_run t = false.
Proof.
  intros FX R N C. destruct (reach_Inv _ _ _ FX R) as (HT & _). destruct (HT w t N) as (A1 & _). auto.
Qed.

(** what the harness counts (threads alive with the flag set) is bounded by the active workers *)
Theorem thm_live_one cf p s w1 w2 t1 t2 :
  c_fixed cf = true -> reach cf p s ->
  nthZ w1 (tasks s) = Some t1 -> nthZ w2 (tasks s) = Some t2 ->
  liveb t1 = true -> liveb t2 = true -> w1 = w2.
Proof.
  intros FX R N1 N2 L1 L2. destruct (reach_Inv _ _ _ FX R) as (HT & _).
  assert (X : forall w t, nthZ w (tasks s) = Some t -> liveb t = true -> mthread (ct s) = Some w).
  { intros w t N L. destruct (HT w t N) as (A1 & _ & _ & _ & A5 & _).
    unfold liveb in L. apply andb_true_iff in L. destruct L as [L _]. apply andb_true_iff in L.
    destruct L as [_ Rn]. apply A5. destruct (t_canc t); [|reflexivity]. specialize (A1 eq_refl). congruence. }
  pose proof (X w1 t1 N1 L1). pose proof (X w2 t2 N2 L2). congruence.
Qed.

(** after graceful() has returned (and before the next operation begins) exactly one worker is active *)
Theorem thm_graceful_one cf p s :
  c_fixed cf = true -> reach cf p s ->
  lastop (ct s) = Some OGraceful -> (pc (ct s) = CIdle \/ pc (ct s) = CFin) ->
  exists w t, nthZ w (tasks s) = Some t /\ active t /\
              forall w' t', nthZ w' (tasks s) = Some t' -> active t' -> w' = w.
Proof.
  intros FX R L P. destruct (reach_Inv _ _ _ FX R) as (HT & HM & HS & HC).
  unfold cinv in HC.
  assert (G : exists w t, mthread (ct s) = Some w /\ nthZ w (tasks s) = Some t /\
                          t_spawned t = true /\ t_canc t = false).
  { destruct P as [P|P]; rewrite P in HC; auto. }
  destruct G as (w & t & E & N & S & C). exists w, t. split; [exact N|]. split.
  - destruct (HT w t N) as (_ & _ & _ & _ & _ & _ & A7). unfold active. auto.
  - intros w' t' N' (_ & C' & _). destruct (HT w' t' N') as (_ & _ & _ & _ & B5 & _).
    specialize (B5 C'). congruence.
Qed.

Lemma ex_nonvacuous :
  (exists ok s tr,
     run_monitor (Cfg true true 3 7) [OStart; OStop] [0;0;0;0;0;1;1;1;1;0;0;0;0;1;1] = (ok, s, tr)
     /\ reach (Cfg true true 3 7) [OStart; OStop] s
     /\ invs_after 0 (jrn s) = 1 /\ ok = true) /\
  (exists ok s tr,
     run_monitor (Cfg true false 2 7) [OStart; OGraceful] [0;0;0;0;0;1;1;1;0;0;0;1;1;0;0;0;0;0;0] = (ok, s, tr)
     /\ lastop (ct s) = Some OGraceful /\ pc (ct s) = CFin /\ lenZ (tasks s) = 2).
Proof.
  split.
  - destruct (run_monitor (Cfg true true 3 7) [OStart; OStop] [0;0;0;0;0;1;1;1;1;0;0;0;0;1;1])
      as [[ok s] tr] eqn:E.
    exists ok, s, tr. split; [reflexivity|]. split; [eapply run_monitor_reach; exact E|].
    vm_compute in E. injection E as <- <- <-. split; vm_compute; reflexivity.
  - destruct (run_monitor (Cfg true false 2 7) [OStart; OGraceful] [0;0;0;0;0;1;1;1;0;0;0;1;1;0;0;0;0;0;0])
      as [[ok s] tr] eqn:E.
    exists ok, s, tr. split; [reflexivity|].
    vm_compute in E. injection E as <- <- <-. repeat split; vm_compute; reflexivity.
Qed.
