(** The designed exception: a query that is exactly "N,M" is read as image-map
    coordinates x = N, y = M (for both variants of the pattern test). *)
From Coq Require Import ZArith List Bool Lia.
From CV Require Import Lib.Sx Lib.ListZ LibP.ListZ_facts Model.M_params Proof.P_params Proof.P_params_thm.
Import ListNotations.
Open Scope Z_scope.

Definition digit (c : Z) : Prop := is_digit c = true.
Definition decval (l : list Z) : Z := fold_left (fun a c => a * 10 + (c - 48)) l 0.

Lemma digit_range c : digit c -> 48 <= c <= 57.
Proof. unfold digit, is_digit. intros H. apply andb_true_iff in H. destruct H as [H1 H2].
  apply Z.leb_le in H1, H2. lia. Qed.

Lemma span_digits_app d r : Forall digit d -> match r with [] => True | c :: _ => is_digit c = false end ->
  span_digits (d ++ r) = (d, r).
Proof.
  intros H Hr. induction H as [|c d Hc _ IH]; cbn [app].
  - destruct r as [|c r]; [reflexivity|]. cbn [span_digits]. now rewrite Hr.
  - cbn [span_digits]. rewrite Hc, IH. reflexivity.
Qed.

Lemma imap_rest_exact d1 d2 : d1 <> [] -> d2 <> [] -> Forall digit d1 -> Forall digit d2 ->
  imap_rest (d1 ++ 44 :: d2) = Some [].
Proof.
  intros N1 N2 H1 H2. unfold imap_rest.
  rewrite span_digits_app by (try assumption; reflexivity).
  destruct d1 as [|a d1]; [contradiction|]. change (44 =? 44) with true. cbn iota.
  rewrite <- (app_nil_r d2). rewrite span_digits_app by (try assumption; exact Logic.I).
  destruct d2; [contradiction | reflexivity].
Qed.

Lemma lstrip_ws_head l : match l with [] => True | c :: _ => is_ws c = false end -> lstrip_ws l = l.
Proof. destruct l as [|c l]; [reflexivity|]. intros H. cbn [lstrip_ws]. now rewrite H. Qed.

Lemma digit_not_ws c : digit c -> is_ws c = false.
Proof. intros H. apply digit_range in H. unfold is_ws.
  destruct (9 <=? c) eqn:E1, (c <=? 13) eqn:E2, (c =? 32) eqn:E3; try reflexivity;
  try apply Z.leb_le in E2; try apply Z.eqb_eq in E3; lia. Qed.

Lemma strip_ws_digits d : Forall digit d -> strip_ws d = d.
Proof.
  intros H. unfold strip_ws.
  rewrite (lstrip_ws_head d) by (destruct H; [exact Logic.I | now apply digit_not_ws]).
  assert (Hr : Forall digit (rev d)) by now apply Forall_rev.
  rewrite (lstrip_ws_head (rev d)) by (destruct Hr; [exact Logic.I | now apply digit_not_ws]).
  apply rev_involutive.
Qed.

Lemma dec_digits_all d : Forall digit d -> forall acc n,
  dec_digits d acc n true = Some (fold_left (fun a c => a * 10 + (c - 48)) d acc, n + lenZ d).
Proof.
  intros H. induction H as [|c d Hc _ IH]; intros acc n.
  - cbn [dec_digits fold_left]. change (lenZ (@nil Z)) with 0. f_equal. f_equal. lia.
  - cbn [dec_digits fold_left]. rewrite Hc, IH, lenZ_cons. f_equal. f_equal. lia.
Qed.

Lemma py_int10_digits d : d <> [] -> Forall digit d -> lenZ d <= max_str_digits ->
  py_int10 d = IOk (decval d).
Proof.
  intros N H L. unfold py_int10.
  assert (E : existsb (fun c => 128 <=? c) d = false).
  { clear N L. induction H as [|c d Hc _ IH]; [reflexivity|]. cbn [existsb]. rewrite IH.
    apply digit_range in Hc. destruct (128 <=? c) eqn:E; [apply Z.leb_le in E; lia | reflexivity]. }
  rewrite E, strip_ws_digits by exact H.
  destruct d as [|c d]; [contradiction|]. inversion H as [|? ? Hc Hd]; subst.
  pose proof (digit_range c Hc) as R.
  destruct (c =? 45) eqn:E1; [apply Z.eqb_eq in E1; lia|].
  destruct (c =? 43) eqn:E2; [apply Z.eqb_eq in E2; lia|].
  cbn [dec_digits]. rewrite Hc, dec_digits_all by exact Hd.
  rewrite lenZ_cons in L.
  destruct (max_str_digits <? 0 + 1 + lenZ d) eqn:E3; [apply Z.ltb_lt in E3; lia|].
  reflexivity.
Qed.

Lemma digits_no_comma d : Forall digit d -> Forall (fun c => (c =? 44) = false) d.
Proof. apply Forall_impl. intros c H. apply digit_range in H. destruct (c =? 44) eqn:E; [apply Z.eqb_eq in E; lia | reflexivity]. Qed.

Lemma thm_imagemap : forall c dec d1 d2,
  d1 <> [] -> d2 <> [] -> Forall digit d1 -> Forall digit d2 ->
  lenZ d1 <= max_str_digits -> lenZ d2 <= max_str_digits ->
  parse_query_string c dec (d1 ++ 44 :: d2) = QOk [(key_x, PInt (decval d1)); (key_y, PInt (decval d2))].
Proof.
  intros c dec d1 d2 N1 N2 H1 H2 L1 L2. unfold parse_query_string, imap_full, imap_prefix.
  rewrite imap_rest_exact by assumption.
  replace (if c_imap_full c then true else true) with true by now destruct (c_imap_full c).
  rewrite (split_on_app (fun ch => ch =? 44) d1 44 d2 (digits_no_comma d1 H1) eq_refl).
  rewrite (split_on_clean (fun ch => ch =? 44) d2 (digits_no_comma d2 H2)).
  now rewrite !py_int10_digits by assumption.
Qed.

(** conversely the repaired test accepts nothing else: a full match IS digits,digits *)
Lemma span_digits_spec l : forall a b, span_digits l = (a, b) ->
  l = a ++ b /\ Forall digit a.
Proof.
  induction l as [|c l IH]; intros a b H; cbn [span_digits] in H.
  - injection H as <- <-. split; [reflexivity | constructor].
  - destruct (is_digit c) eqn:E.
    + destruct (span_digits l) as [a' b'] eqn:E2. injection H as <- <-.
      destruct (IH _ _ eq_refl) as [-> Hf]. split; [reflexivity | now constructor].
    + injection H as <- <-. split; [reflexivity | constructor].
Qed.

Lemma thm_imap_full_only : forall s, imap_full s = true ->
  exists d1 d2, s = d1 ++ 44 :: d2 /\ d1 <> [] /\ d2 <> [] /\ Forall digit d1 /\ Forall digit d2.
Proof.
  intros s H. unfold imap_full, imap_rest in H.
  destruct (span_digits s) as [d1 r1] eqn:E1. apply span_digits_spec in E1. destruct E1 as [-> F1].
  destruct d1 as [|a d1]; [discriminate|]. destruct r1 as [|c r2]; [discriminate|].
  destruct (c =? 44) eqn:Ec; [|discriminate]. apply Z.eqb_eq in Ec. subst c.
  destruct (span_digits r2) as [d2 r3] eqn:E2. apply span_digits_spec in E2. destruct E2 as [-> F2].
  destruct d2 as [|b d2]; [discriminate|]. destruct r3; [|discriminate].
  exists (a :: d1), (b :: d2). rewrite app_nil_r. repeat split; try assumption; discriminate.
Qed.

(** ** the concrete codecs of the executable model meet the hypotheses of the
    query theorems; a fallback example for the body *)
Lemma thm_codecs_instance :
  (forall l, Forall ascii l -> utf8_dec l = Some l) /\ (forall l, Forall ascii l -> recode l = l)
  /\ (forall l, latin1_dec l = Some l).
Proof. split; [exact utf8_dec_ascii | split; [exact recode_ascii | reflexivity]]. Qed.

Lemma ex_fallback :
  let m := [([97], [233]); ([97], [])] in
  let enc := fun s : list Z => s in
  Forall (enc_bytes enc) m /\ Forall (roundtrips enc latin1_dec) m /\ Forall (rejects enc m) [utf8_dec]
  /\ encode enc false st_minimal 38 m = [97;61;233;38;97]
  /\ attempt ([utf8_dec] ++ latin1_dec :: []) (encode enc false st_minimal 38 m)
     = Some [([97], PList [PStr [233]; PStr []])].
Proof.
  cbv zeta. repeat split; try (vm_compute; reflexivity).
  - repeat constructor; unfold byte; cbn; lia.
  - repeat constructor.
  - constructor; [|constructor]. left. right. vm_compute. reflexivity.
Qed.

Lemma ex_imagemap :
  parse_query_string (Cfg true true) utf8_dec ([49;50] ++ 44 :: [51;52])
  = QOk [(key_x, PInt 12); (key_y, PInt 34)]
  /\ decval [49;50] = 12 /\ imap_full [49;50;44;51;52;120] = false /\ imap_prefix [49;50;44;51;52;120] = true.
Proof. repeat split; vm_compute; reflexivity. Qed.

Lemma thm_all_or_nothing_body : forall c rc decq decs qs body qd,
  parse_query_string c decq (rc qs) = QOk qd ->
  Forall (fun d => Exists (undecodable (fun x => d (unquote_plus_b x))) (wire_pairs body)) decs ->
  attempt decs body = None /\ request_with c rc decq decs qs (Some body) = (400, []).
Proof.
  intros c rc decq decs qs body qd Hq H. split.
  - exact (thm_attempt_none decs body H).
  - exact (thm_body_refused c rc decq decs qs body qd Hq H).
Qed.
