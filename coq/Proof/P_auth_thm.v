(** The statements of Props/C19.v, proved from the decision table of P_auth.v. *)
From Coq Require Import ZArith List Bool Lia.
From CV Require Import Lib.Sx Lib.ListZ Model.M_auth Proof.P_auth.
Import ListNotations.
Open Scope Z_scope.

Section DigestThm.
  Variable H : str -> str.
  Variable get_ha1 : str -> str -> option str.
  Variable dec_accept : str -> option str.
  Variable parse_params : str -> parse_result.

  Notation CV := (credentials_verify H get_ha1 dec_accept parse_params).
  Notation run := (digest_auth H get_ha1 dec_accept parse_params).

  Lemma nonce_genuine_unique c a ts ts' :
    nonce_genuine H c a ts -> nonce_genuine H c a ts' -> ts = ts'.
  Proof.
    intros [N E] [N' E']. rewrite E in E'.
    assert (E'' : ts ++ 58 :: H (join_colon [ts; c_realm c; c_key c])
                  = ts' ++ 58 :: H (join_colon [ts'; c_realm c; c_key c])) by congruence.
    assert (S1 := split1_app 58 ts (H (join_colon [ts; c_realm c; c_key c])) N).
    assert (S2 := split1_app 58 ts' (H (join_colon [ts'; c_realm c; c_key c])) N').
    rewrite E'' in S1. rewrite S1 in S2. inversion S2. reflexivity.
  Qed.

  Lemma cv_unique c header m a ts login a' ts' login' :
    CV c header m a ts login -> CV c header m a' ts' login' -> a = a' /\ ts = ts' /\ login = login'.
  Proof.
    intros [h [ha1 [Eh [P [G [U _]]]]]] [h' [ha1' [Eh' [P' [G' [U' _]]]]]].
    rewrite Eh in Eh'. inversion Eh'; subst h'.
    apply parse_header_inl in P. apply parse_header_inl in P'.
    assert (a = a') by congruence. subst a'.
    split; [reflexivity|]. split; [exact (nonce_genuine_unique _ _ _ _ G G') | congruence].
  Qed.

  Lemma fresh_not_expired ts now : nonce_fresh ts now -> nonce_expired ts now -> False.
  Proof.
    intros [t [E L]] [E'|[t' [E' L']]]; [congruence|]. rewrite E in E'. inversion E'; subst. lia.
  Qed.

  Lemma thm_digest_sound c header m now login :
    fst (run c header m now) = Reached login ->
    exists a ts, CV c header m a ts login /\ nonce_fresh ts now.
  Proof.
    rewrite digest_auth_fst. intro R.
    destruct (digest_pure_cases H get_ha1 dec_accept parse_params c header m now)
      as [[a [ts [l [C [F E]]]]]|[[a [ts [l [C [F E]]]]]|[[_ E]|[[_ E]|[[_ E]|[_ E]]]]]];
      rewrite E in R; try discriminate.
    inversion R; subst. exists a, ts. split; assumption.
  Qed.

  Lemma thm_digest_complete c header m now a ts login :
    CV c header m a ts login -> nonce_fresh ts now ->
    fst (run c header m now) = Reached login.
  Proof.
    rewrite digest_auth_fst. intros C F.
    destruct (digest_pure_cases H get_ha1 dec_accept parse_params c header m now)
      as [[a' [ts' [l' [C' [F' E]]]]]|[[a' [ts' [l' [C' [F' E]]]]]|[[N E]|[[N E]|[[N _]|[N _]]]]]].
    - destruct (cv_unique _ _ _ _ _ _ _ _ _ C C') as [_ [_ El]]. subst. exact E.
    - destruct (cv_unique _ _ _ _ _ _ _ _ _ C C') as [_ [Et _]]. subst ts'.
      exfalso. exact (fresh_not_expired _ _ F F').
    - exfalso. exact (N _ _ _ C).
    - exfalso. destruct C as [h [ha1 [Eh [P [_ [_ [_ [Q _]]]]]]]]. subst header. cbn [oval] in N.
      destruct N as [N|[a' [P' Q']]]; [exact (N _ P)|].
      apply parse_header_inl in P. apply parse_header_inl in P'.
      assert (a' = a) by congruence. subst a'.
      destruct Q as [Q|Q]; rewrite Q in Q'; discriminate.
    - exfalso. destruct C as [h [ha1 [Eh [P _]]]]. subst header. exact (N _ P).
    - exfalso. exact (N _ _ _ (conj C F)).
  Qed.

  Lemma thm_digest_reject c header m now o :
    fst (run c header m now) = o -> (forall login, o <> Reached login) ->
    (o = R400 /\ ((forall a, ~ header_parses dec_accept parse_params (oval header) m a)
                  \/ exists a, header_parses dec_accept parse_params (oval header) m a
                               /\ a_qop a = Some s_auth_int))
    \/ (exists stale, o = R401 (digest_challenge H c now stale)
                      /\ (stale = true <-> exists a ts login, CV c header m a ts login /\ nonce_expired ts now))
    \/ (o = R500 3 /\ forall a, ~ header_parses dec_accept parse_params (oval header) m a)
    \/ o = Unsupported 1.
  Proof.
    rewrite digest_auth_fst. intros R NR.
    destruct (digest_pure_cases H get_ha1 dec_accept parse_params c header m now)
      as [[a [ts [l [C [F E]]]]]|[[a [ts [l [C [F E]]]]]|[[N E]|[[N E]|[[N E]|[_ E]]]]]];
      rewrite E in R; subst o.
    - exfalso. exact (NR l eq_refl).
    - right. left. exists true. split; [reflexivity|]. split; [|reflexivity].
      intros _. exists a, ts, l. split; assumption.
    - right. left. exists false. split; [reflexivity|]. split; [discriminate|].
      intros [a [ts [l [C _]]]]. exfalso. exact (N _ _ _ C).
    - left. split; [reflexivity | exact N].
    - right. right. left. split; [reflexivity | exact N].
    - right. right. right. reflexivity.
  Qed.

  (** MD5-sess and auth-int never reach the handler *)
  Lemma thm_digest_qop_alg c header m now login a ts :
    fst (run c header m now) = Reached login -> CV c header m a ts login ->
    a_algorithm a = s_MD5 /\ (a_qop a = None \/ a_qop a = Some s_auth).
  Proof.
    intros _ [h [ha1 [_ [_ [_ [_ [_ [Q [A _]]]]]]]]]. split; assumption.
  Qed.
End DigestThm.

Section BasicThm.
  Variable dec_accept : str -> option str.
  Variable b64 : str -> option str.
  Variable nfc : str -> str.
  Variable checkpassword : str -> str -> str -> bool.

  Lemma thm_basic c header login :
    existsb (Z.eqb 34) (c_realm c) = false ->
    (fst (basic_auth dec_accept b64 nfc checkpassword c header) = Reached login <->
     exists h pw, header = Some h /\ basic_credentials dec_accept b64 nfc h login pw
                  /\ checkpassword (c_realm c) login pw = true).
  Proof. intro NQ. rewrite basic_auth_fst. apply basic_reached_iff. exact NQ. Qed.

  Lemma thm_basic_reject c header o :
    existsb (Z.eqb 34) (c_realm c) = false ->
    fst (basic_auth dec_accept b64 nfc checkpassword c header) = o ->
    (forall login, o <> Reached login) ->
    o = R401 (basic_challenge c) \/ o = R400.
  Proof.
    intros NQ R NR. rewrite basic_auth_fst in R.
    destruct (basic_pure_cases dec_accept b64 nfc checkpassword c header NQ) as [[l E]|[E|E]];
      rewrite E in R; subst o; [exfalso; exact (NR l eq_refl) | tauto | tauto].
  Qed.
End BasicThm.

(* ------------------------------------------------------------------ *)
(** concrete runs for the non-vacuity examples; H is string reversal here *)

Definition ex_H (s : str) : str := rev s.
Definition ex_ha1 (_ user : str) : option str :=
  if eqbZs user [117] then Some [104;49] else None.                         (* u -> h1 *)
Definition ex_dec (s : str) : option str := Some s.
Definition ex_nonce : str := [49;48;48;58;107;58;114;58;48;48;49].           (* 100:k:r:001 *)
Definition ex_response : str :=
  rev ([104;49;58] ++ ex_nonce ++ [58] ++ rev [71;69;84;58;47]).             (* H(h1:nonce:H(GET:/)) *)
Definition ex_parse (_ : str) : parse_result :=
  PR_ok [(k_username, [117]); (k_realm, [114]); (k_nonce, ex_nonce); (k_uri, [47]);
         (k_response, ex_response)].
Definition ex_cfg : cfg := Cfg [114] [107] [117;116;102;45;56].             (* realm r, key k, utf-8 *)
Definition ex_header : option str := Some [68;105;103;101;115;116;32;120].   (* Digest x *)
Definition ex_GET : str := [71;69;84].

Lemma ex_reached :
  fst (digest_auth ex_H ex_ha1 ex_dec ex_parse ex_cfg ex_header ex_GET 200) = Reached [117].
Proof. vm_compute. reflexivity. Qed.

Lemma ex_stale :
  fst (digest_auth ex_H ex_ha1 ex_dec ex_parse ex_cfg ex_header ex_GET 700)
  = R401 (digest_challenge ex_H ex_cfg 700 true).
Proof. vm_compute. reflexivity. Qed.

Lemma ex_digest :
  (exists a ts, credentials_verify ex_H ex_ha1 ex_dec ex_parse ex_cfg ex_header ex_GET a ts [117]
                /\ nonce_fresh ts 200)
  /\ fst (digest_auth ex_H ex_ha1 ex_dec ex_parse ex_cfg ex_header ex_GET 200) = Reached [117]
  /\ fst (digest_auth ex_H ex_ha1 ex_dec ex_parse ex_cfg ex_header ex_GET 700)
     = R401 (digest_challenge ex_H ex_cfg 700 true)
  /\ (forall login, R401 (digest_challenge ex_H ex_cfg 700 true) <> Reached login).
Proof.
  split; [|split; [exact ex_reached | split; [exact ex_stale | discriminate]]].
  exact (thm_digest_sound _ _ _ _ _ _ _ _ _ ex_reached).
Qed.

Definition ex_b64 (_ : str) : option str := Some [117;58;112].               (* u:p *)
Definition ex_check (_ user pw : str) : bool := eqbZs user [117] && eqbZs pw [112].
Definition ex_bheader : option str := Some [66;65;83;73;67;32;100;84;112;119]. (* BASIC dTpw *)

Lemma ex_basic :
  existsb (Z.eqb 34) (c_realm ex_cfg) = false
  /\ fst (basic_auth ex_dec ex_b64 (fun s => s) ex_check ex_cfg ex_bheader) = Reached [117]
  /\ fst (basic_auth ex_dec ex_b64 (fun s => s) ex_check ex_cfg None) = R401 (basic_challenge ex_cfg)
  /\ (forall login, R401 (basic_challenge ex_cfg) <> Reached login).
Proof. split; [reflexivity|]. split; [vm_compute; reflexivity|]. split; [vm_compute; reflexivity | discriminate]. Qed.
