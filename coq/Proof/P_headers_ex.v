(** Concrete instances showing the hypotheses of the C12 theorems are satisfiable. *)
From Coq Require Import ZArith List Bool.
From CV Require Import Lib.Sx Lib.ListZ Model.M_headers Proof.P_headers Proof.P_headers_log.
Import ListNotations.
Open Scope Z_scope.

Lemma ex_nonvacuous :
  ctl_covered deletechars = true
  /\ encode_header_item deletechars false [97; 13; 10; 88; 58; 32; 121; 127] = Ok [97; 88; 58; 32; 121]
  /\ (exists st hs,
        finalize true deletechars 200 [79; 75; 13; 10; 88; 58; 32; 121]
                 [HItem false [88; 45; 65] false [118; 10; 119]]
                 [[97; 61; 118; 59; 32; 80; 97; 116; 104; 61; 47; 13; 10; 88; 45; 73; 110; 106; 58; 32; 49]]
        = Ok (st, hs)
        /\ st = [50; 48; 48; 32; 79; 75; 88; 58; 32; 121] /\ length hs = 2%nat
        /\ Forall item_wf [HItem false [88; 45; 65] false [118; 10; 119]])
  /\ is_latin1 [33280] = false
  /\ encode true [33280] = Ok [61; 63; 117; 116; 102; 45; 56; 63; 98; 63; 54; 73; 105; 65; 63; 61]
  /\ log_atom [97; 34; 10; 233; 92; 39]
     = Some [97; 92; 34; 92; 110; 92; 120; 99; 51; 92; 120; 97; 57; 92; 92; 39]
  /\ escape [60; 97; 38; 62] = [38; 108; 116; 59; 97; 38; 97; 109; 112; 59; 38; 103; 116; 59].
Proof.
  split; [vm_compute; reflexivity|].
  split; [vm_compute; reflexivity|].
  split.
  { eexists. eexists. split; [vm_compute; reflexivity|]. split; [reflexivity|]. split; [reflexivity|].
    constructor; [|constructor]. split; discriminate. }
  split; [vm_compute; reflexivity|].
  split; [vm_compute; reflexivity|].
  split; [exact ex_log_atom|].
  vm_compute. reflexivity.
Qed.
