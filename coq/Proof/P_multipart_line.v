(** readline of the SizedReader model returns exactly the next line of the
    (length-limited) body, whatever the buffer size and the fragmentation:
    the cursor view the multipart proofs are written against. *)
From Coq Require Import ZArith List Bool Lia.
From CV Require Import Lib.Sx Lib.ListZ LibP.ListZ_facts Model.M_reader Proof.P_reader.
Import ListNotations.
Open Scope Z_scope.

(** the next line of a byte string: through the first LF, or everything *)
Fixpoint first_line (l : list Z) : list Z :=
  match l with
  | [] => []
  | x :: r => if x =? 10 then [x] else x :: first_line r
  end.
Fixpoint after_line (l : list Z) : list Z :=
  match l with
  | [] => []
  | x :: r => if x =? 10 then r else after_line r
  end.

Lemma line_split l : first_line l ++ after_line l = l.
Proof. induction l as [|x r IH]; cbn; [reflexivity|]. destruct (x =? 10); cbn; congruence. Qed.

Lemma first_line_nil_inv l : first_line l = [] -> l = [].
Proof. destruct l as [|x r]; cbn; [reflexivity|]. destruct (x =? 10); discriminate. Qed.

Lemma first_line_nolf_app a r : find_nl a = None -> first_line (a ++ r) = a ++ first_line r.
Proof.
  induction a as [|x a IH]; cbn [find_nl app first_line]; intros H; [reflexivity|].
  destruct (x =? 10); [discriminate|].
  destruct (find_nl a); [discriminate|]. now rewrite IH.
Qed.

Lemma first_line_found a r pos : find_nl a = Some pos -> first_line (a ++ r) = firstn pos a.
Proof.
  revert pos; induction a as [|x a IH]; cbn [find_nl app first_line]; intros pos H; [discriminate|].
  destruct (x =? 10).
  - inversion H; subst. reflexivity.
  - destruct (find_nl a) as [k|]; [|discriminate]. inversion H; subst.
    cbn [firstn]. now rewrite (IH k eq_refl).
Qed.

Lemma find_nl_none_app a b : find_nl a = None -> find_nl b = None -> find_nl (a ++ b) = None.
Proof.
  induction a as [|x a IH]; cbn [find_nl app]; intros Ha Hb; [exact Hb|].
  destruct (x =? 10); [discriminate|].
  destruct (find_nl a); [discriminate|]. now rewrite IH.
Qed.

(** no limit on the body size is in force (request.body.maxbytes unset, or large enough) *)
Definition nolimit (c : cfg) (body : list Z) : Prop :=
  c_maxb c = 0 \/ lenZ (body_eff c body) <= c_maxb c.

Definition size_ok (size : option Z) : Prop :=
  match size with None => True | Some n => 0 < n end.

(** what one chunk read returns, in terms of the unread rest of the body *)
Lemma read_chunk c body d0 s rest k :
  WF c -> Inv c body d0 s -> body_eff c body = d0 ++ rest -> 1 <= k ->
  takeR (read_rem c (Some k) s) (buf s ++ src s) = takeZ k rest.
Proof.
  intros W [Isp Ibr Itk Ilen _] Hb Hk. unfold body_eff, read_rem in *.
  destruct (c_len c) as [cl|] eqn:El.
  - specialize (Ilen cl eq_refl).
    pose proof (lenZ_nonneg (buf s)). pose proof (lenZ_nonneg d0).
    rewrite <- Isp in Hb. rewrite takeZ_app_ge in Hb by lia.
    apply app_inv_head in Hb. subst rest. rewrite Ibr. rewrite takeZ_takeZ.
    destruct (negb (k =? 0) && (k <? cl - lenZ d0)) eqn:E; cbn [takeR].
    + apply andb_true_iff in E. destruct E as [_ E]. apply Z.ltb_lt in E. f_equal. lia.
    + f_equal. apply andb_false_iff in E. destruct E as [E|E].
      * apply negb_false_iff, Z.eqb_eq in E. lia.
      * apply Z.ltb_ge in E. lia.
  - rewrite <- Isp in Hb. apply app_inv_head in Hb. subst rest. reflexivity.
Qed.

Lemma takeZ_prefix {A} k (l : list A) : exists r, l = takeZ k l ++ r.
Proof. exists (dropZ k l). symmetry. apply take_drop. Qed.

Lemma rl_loop_line : forall fuel c body d size acc s st out s' rest,
  WF c -> Inv c body (d ++ acc) s -> size_ok size ->
  find_nl acc = None ->
  (length (buf s) + length (src s) < fuel)%nat ->
  rl_loop fuel c size acc s = (st, out, s') ->
  body_eff c body = d ++ acc ++ rest ->
  st = SOk -> out = acc ++ first_line rest.
Proof.
  induction fuel as [|f IH]; intros c body d size acc s st out s' rest W Hi Hsz Hacc Hf H Hb Hst; [lia|].
  cbn [rl_loop] in H.
  assert (Hsz' : match size with None => true | Some n => 0 <? n end = true).
  { destruct size as [n|]; [apply Z.ltb_lt; exact Hsz | reflexivity]. }
  rewrite Hsz' in H.
  set (chunksize := match size with None => c_bufsize c
                               | Some n => if n <? c_bufsize c then n else c_bufsize c end) in *.
  assert (Hcs : 1 <= chunksize).
  { pose proof (wf_buf _ W). subst chunksize. destruct size as [n|]; [|lia].
    cbn in Hsz. destruct (n <? c_bufsize c); lia. }
  destruct (read c (Some chunksize) s) as [[st0 data] s1] eqn:Hrd.
  assert (Hng : neg_size (Some chunksize) = false) by (cbn; apply Z.ltb_ge; lia).
  pose proof (read_spec _ _ _ _ _ _ _ _ W Hi Hng Hrd) as Hr. unfold read_ok in Hr.
  destruct Hr as [(-> & Edata & Hi1) | (-> & _)].
  - rewrite app_assoc in Hb.
    rewrite (read_chunk c body (d ++ acc) s rest chunksize W Hi Hb Hcs) in Edata.
    destruct data as [|x data'].
    + inversion H; subst.
      symmetry in Edata. apply takeZ_pos_nil in Edata; [|lia]. subst rest. cbn. now rewrite app_nil_r.
    + remember (x :: data') as data eqn:Ed.
      pose proof (Inv_measure _ _ _ _ _ _ Hi Hi1) as Hms.
      assert (Hdl : (1 <= length data)%nat) by (subst data; cbn; lia).
      destruct (takeZ_prefix chunksize rest) as [rest' Hrest]. rewrite <- Edata in Hrest.
      destruct (find_nl data) as [pos|] eqn:Hnl.
      * inversion H; subst st out s'; clear H. f_equal. rewrite Hrest.
        symmetry. now apply first_line_found.
      * rewrite (IH c body d size (acc ++ data) s1 st out s' rest' W); try assumption.
        -- rewrite Hrest. rewrite (first_line_nolf_app data rest' Hnl). now rewrite app_assoc.
        -- now rewrite app_assoc.
        -- now apply find_nl_none_app.
        -- lia.
        -- rewrite Hb, Hrest. now rewrite <- !app_assoc.
  - inversion H; subst. discriminate.
Qed.

(** The cursor view of readline.  [d] is what has been consumed, [rest] what is
    left of the body: readline returns the next line and advances by it. *)
Lemma readline_line c body d rest size s st out s' :
  WF c -> nolimit c body -> Inv c body d s -> size_ok size ->
  body_eff c body = d ++ rest ->
  readline c size s = (st, out, s') ->
  st = SOk /\ out = first_line rest /\ Inv c body (d ++ first_line rest) s'.
Proof.
  intros W Hnl Hi Hsz Hb H.
  pose proof (readline_spec _ _ _ _ _ _ _ _ W Hi H) as Hp. unfold op_post in Hp.
  destruct Hp as [(-> & Hi1) | (_ & Hm & _ & Hlt & _)].
  - assert (E : out = [] ++ first_line rest).
    { unfold readline in H.
      eapply (rl_loop_line (rl_fuel s) c body d size [] s SOk out s' rest); try eassumption.
      - now rewrite app_nil_r.
      - reflexivity.
      - unfold rl_fuel. lia.
      - reflexivity. }
    cbn [app] in E. subst out. auto.
  - exfalso. destruct Hnl as [E|E]; lia.
Qed.

(** [set_done] (fp.finish() at the close delimiter) keeps the invariant *)
Lemma Inv_set_done c body d s : Inv c body d s -> Inv c body d (set_done s).
Proof. intros [H1 H2 H3 H4 H5]. constructor; cbn [set_done src buf bread taken]; assumption. Qed.
