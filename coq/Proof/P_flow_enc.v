(** The s-expression form in which a skeleton program is handed to the extracted model decodes back to the
    program: [dec_stmt (enc_stmt s) = s].  (The harness proves, on every run, that the s-expression it sends is
    [enc_stmt] of the regenerated Coq term, by computation.) *)
From Coq Require Import ZArith List Bool.
Import ListNotations.
From CV Require Import Lib.Sx Model.M_flow Model.M_hooks Model.M_pipeline Model.M_flowrun.
Open Scope Z_scope.

Lemma action_code_inv a : action_of_code (action_code a) = a.
Proof. destruct a as [p| | | | | | | | | | | | | | | | | | | | | | | | | | | | | | | | | | | | | | | | | |]; try reflexivity. destruct p; reflexivity. Qed.
Lemma flag_code_inv f : flag_of_code (flag_code f) = f.
Proof. destruct f; reflexivity. Qed.
Lemma fname_code_inv g : fname_of_code (fname_code g) = g.
Proof. destruct g; reflexivity. Qed.
Lemma pat_code_inv p : pat_of_code (pat_code p) = p.
Proof. destruct p; reflexivity. Qed.
Lemma exn_code_inv e : exn_of_code (exn_code e) = Some e.
Proof. destruct e; reflexivity. Qed.

Ltac red_codes := cbn -[flag_code flag_of_code action_code action_of_code fname_code fname_of_code
                          pat_code pat_of_code exn_code exn_of_code dec_stmt enc_stmt dec_cond enc_cond map];
                   cbn [dec_stmt dec_cond];
                   cbn -[flag_code flag_of_code action_code action_of_code fname_code fname_of_code
                          pat_code pat_of_code exn_code exn_of_code dec_stmt enc_stmt dec_cond enc_cond map].

Lemma dec_enc_cond c : dec_cond (enc_cond c) = c.
Proof.
  induction c as [|f|c IH|]; cbn [enc_cond dec_cond]; try reflexivity.
  - red_codes. now rewrite flag_code_inv.
  - red_codes. now rewrite IH.
Qed.

Section StmtInd.
  Variable P : stmt -> Prop.
  Hypothesis HSkip : P Skip.
  Hypothesis HAct : forall a, P (Act a).
  Hypothesis HSeq : forall a b, P a -> P b -> P (Seq a b).
  Hypothesis HTry : forall b hs o f, P b -> Forall (fun h => P (snd h)) hs -> P o -> P f -> P (Try b hs o f).
  Hypothesis HIf : forall c a b, P a -> P b -> P (If c a b).
  Hypothesis HAssign : forall f, P (Assign f).
  Hypothesis HRaise : forall e, P (Raise e).
  Hypothesis HReturn : P Return.
  Hypothesis HLoop : forall b, P b -> P (Loop b).
  Hypothesis HFor : forall b, P b -> P (ForLoop b).
  Hypothesis HCall : forall g, P (Call g).
  Hypothesis HParam : P CallParam.

  Fixpoint stmt_ind' (s : stmt) : P s :=
    match s with
    | Skip => HSkip
    | Act a => HAct a
    | Seq a b => HSeq a b (stmt_ind' a) (stmt_ind' b)
    | Try b hs o f =>
      HTry b hs o f (stmt_ind' b)
           ((fix go (l : list (pat * stmt)) : Forall (fun h => P (snd h)) l :=
               match l with
               | [] => Forall_nil _
               | h :: r => Forall_cons h (stmt_ind' (snd h)) (go r)
               end) hs)
           (stmt_ind' o) (stmt_ind' f)
    | If c a b => HIf c a b (stmt_ind' a) (stmt_ind' b)
    | Assign f => HAssign f
    | Raise e => HRaise e
    | Return => HReturn
    | Loop b => HLoop b (stmt_ind' b)
    | ForLoop b => HFor b (stmt_ind' b)
    | Call g => HCall g
    | CallParam => HParam
    end.
End StmtInd.

Theorem dec_enc_stmt : forall s, dec_stmt (enc_stmt s) = s.
Proof.
  apply stmt_ind'; intros; cbn [enc_stmt].
  - reflexivity.
  - red_codes. now rewrite action_code_inv.
  - red_codes. now rewrite H, H0.
  - red_codes. rewrite H, H1, H2. f_equal.
    rewrite map_map. induction H0 as [|h r Hh Hr IH]; [reflexivity|].
    cbn [map]. rewrite IH. destruct h as [p st]. cbn [fst snd] in *. now rewrite pat_code_inv, Hh.
  - red_codes. now rewrite dec_enc_cond, H, H0.
  - red_codes. now rewrite flag_code_inv.
  - destruct e as [e|]; red_codes; [now rewrite exn_code_inv | reflexivity].
  - reflexivity.
  - red_codes. now rewrite H.
  - red_codes. now rewrite H.
  - red_codes. now rewrite fname_code_inv.
  - reflexivity.
Qed.

(** the program table built from encoded skeletons is the program *)
Definition enc_prog (p : fname -> stmt) : sx :=
  L (map (fun g => L [I (fname_code g); enc_stmt (p g)]) all_fnames).

Theorem dec_enc_prog : forall p g, dec_prog (enc_prog p) g = p g.
Proof.
  intros p g. unfold dec_prog, enc_prog. cbn [sx_list].
  destruct g; cbn; apply dec_enc_stmt.
Qed.
