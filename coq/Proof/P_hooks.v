(** Hook order and failsafe semantics (C09). *)
From Coq Require Import ZArith List Bool Lia Permutation Sorted.
Import ListNotations.
From CV Require Import Model.M_flow Model.M_hooks.
Open Scope Z_scope.

Definition prio_le (a b : hook) : Prop := h_prio a <= h_prio b.

Lemma insert_perm h l : Permutation (insert h l) (h :: l).
Proof.
  induction l as [|x r IH]; cbn [insert]; [apply Permutation_refl|].
  destruct (h_prio h <=? h_prio x); [apply Permutation_refl|].
  eapply Permutation_trans; [apply perm_skip, IH | apply perm_swap].
Qed.

Lemma sort_perm l : Permutation (sort_hooks l) l.
Proof.
  induction l as [|x r IH]; cbn; [constructor|].
  eapply Permutation_trans; [apply insert_perm | now apply perm_skip].
Qed.

Lemma insert_sorted h l : StronglySorted prio_le l -> StronglySorted prio_le (insert h l).
Proof.
  induction l as [|x r IH]; intros Hs; cbn [insert].
  - constructor; constructor.
  - inversion Hs as [|? ? Hr Hall]; subst.
    destruct (h_prio h <=? h_prio x) eqn:E.
    + apply Z.leb_le in E. constructor; [exact Hs|]. constructor; [exact E|].
      eapply Forall_impl; [|exact Hall]. intros y Hy. unfold prio_le in *. lia.
    + apply Z.leb_gt in E. constructor; [apply IH; exact Hr|].
      assert (Hp : Permutation (insert h r) (h :: r)) by apply insert_perm.
      eapply Permutation_Forall; [apply Permutation_sym; exact Hp|].
      constructor; [unfold prio_le; lia | exact Hall].
Qed.

Lemma sort_sorted l : StronglySorted prio_le (sort_hooks l).
Proof. induction l as [|x r IH]; cbn; [constructor | now apply insert_sorted]. Qed.

(** stability: hooks of equal priority keep their attachment order *)
Definition same_prio (p : Z) (h : hook) : bool := h_prio h =? p.

Lemma insert_stable p h l :
  filter (same_prio p) (insert h l) = filter (same_prio p) (h :: l).
Proof.
  induction l as [|x r IH]; cbn [insert]; [reflexivity|].
  destruct (h_prio h <=? h_prio x) eqn:E; [reflexivity|]. apply Z.leb_gt in E.
  cbn [filter] in *. rewrite IH. unfold same_prio.
  destruct (h_prio h =? p) eqn:Eh; destruct (h_prio x =? p) eqn:Ex; try reflexivity.
  apply Z.eqb_eq in Eh. apply Z.eqb_eq in Ex. lia.
Qed.

Lemma sort_stable p l : filter (same_prio p) (sort_hooks l) = filter (same_prio p) l.
Proof.
  induction l as [|x r IH]; cbn [sort_hooks fold_right]; [reflexivity|].
  change (fold_right insert [] r) with (sort_hooks r).
  rewrite insert_stable. cbn [filter]. now rewrite IH.
Qed.

(** subsequence *)
Inductive subseq {A} : list A -> list A -> Prop :=
| ss_nil : subseq [] []
| ss_skip x l m : subseq l m -> subseq l (x :: m)
| ss_take x l m : subseq l m -> subseq (x :: l) (x :: m).

Lemma subseq_nil {A} (m : list A) : subseq [] m.
Proof. induction m; constructor; assumption. Qed.

Lemma run_hooks_subseq : forall hs safe, subseq (fst (run_hooks safe hs)) (map h_id hs).
Proof.
  induction hs as [|h r IH]; intros safe; cbn [run_hooks map]; [constructor|].
  destruct (safe && negb (h_failsafe h)); [apply ss_skip, IH|].
  destruct (h_beh h) as [x|].
  - destruct (is_base x); [apply ss_take, subseq_nil|].
    specialize (IH true). destruct (run_hooks true r) as [j e]. apply ss_take. exact IH.
  - specialize (IH safe). destruct (run_hooks safe r) as [j e]. apply ss_take. exact IH.
Qed.

Definition no_base (h : hook) : Prop :=
  match h_beh h with Some x => is_base x = false | None => True end.

Lemma run_hooks_safe_all : forall post, Forall no_base post ->
  fst (run_hooks true post) = map h_id (filter h_failsafe post).
Proof.
  induction post as [|h r IH]; intros Hall; cbn [run_hooks filter map]; [reflexivity|].
  inversion Hall as [|? ? Hh Hr]; subst. specialize (IH Hr).
  destruct (h_failsafe h) eqn:Ef; cbn [andb negb].
  - unfold no_base in Hh. destruct (h_beh h) as [x|].
    + rewrite Hh. destruct (run_hooks true r) as [j e]. cbn [fst map] in *. now rewrite IH.
    + destruct (run_hooks true r) as [j e]. cbn [fst map] in *. now rewrite IH.
  - exact IH.
Qed.

Lemma run_hooks_ok_prefix : forall pre rest,
  Forall (fun h => h_beh h = None) pre ->
  run_hooks false (pre ++ rest) =
  (map h_id pre ++ fst (run_hooks false rest), snd (run_hooks false rest)).
Proof.
  induction pre as [|h r IH]; intros rest Hall; cbn [app map].
  - now destruct (run_hooks false rest).
  - inversion Hall as [|? ? Hh Hr]; subst. cbn [run_hooks andb]. rewrite Hh.
    rewrite (IH rest Hr). reflexivity.
Qed.

Lemma failsafe_journal pre h post x :
  Forall (fun h => h_beh h = None) pre ->
  h_beh h = Some x -> is_base x = false -> Forall no_base post ->
  fst (run_hooks false (pre ++ h :: post)) = map h_id pre ++ h_id h :: map h_id (filter h_failsafe post)
  /\ exists e, snd (run_hooks false (pre ++ h :: post)) = Some e /\ is_base e = false.
Proof.
  intros Hpre Hb Hnb Hpost. rewrite run_hooks_ok_prefix by exact Hpre. cbn [fst snd].
  cbn [run_hooks andb]. rewrite Hb, Hnb.
  pose proof (run_hooks_safe_all post Hpost) as Hs.
  assert (Hexn : forall e, snd (run_hooks true post) = Some e -> is_base e = false).
  { clear Hs. induction post as [|y r IH]; cbn [run_hooks]; [discriminate|].
    inversion Hpost as [|? ? Hy Hr]; subst.
    destruct (true && negb (h_failsafe y)); [apply IH; exact Hr|].
    unfold no_base in Hy. destruct (h_beh y) as [z|].
    - rewrite Hy. destruct (run_hooks true r) as [j e'] eqn:Er. cbn [snd] in *.
      intros e He. inversion He; subst. destruct e' as [e''|]; [apply (IH Hr e'' eq_refl) | exact Hy].
    - destruct (run_hooks true r) as [j e'] eqn:Er. cbn [snd] in *. apply IH; exact Hr. }
  destruct (run_hooks true post) as [j e]. cbn [fst snd] in *. subst j. split; [reflexivity|].
  destruct e as [e|]; eexists; split; try reflexivity; [apply Hexn; reflexivity | exact Hnb].
Qed.

Lemma all_ok_runs_all hs : Forall (fun h => h_beh h = None) hs ->
  run_hooks false hs = (map h_id hs, None).
Proof.
  intros H. rewrite <- (app_nil_r hs) at 1. rewrite run_hooks_ok_prefix by exact H.
  cbn. now rewrite app_nil_r.
Qed.
