(** Round trips of encoded multimaps through the parsers, all-or-nothing decoding,
    merge order; the statements used by Props/C03.v. *)
From Coq Require Import ZArith List Bool Lia.
From CV Require Import Lib.Sx Lib.ListZ LibP.ListZ_facts Model.M_params Proof.P_params Proof.P_params_dict.
Import ListNotations.
Open Scope Z_scope.

(** ** the printer never emits a separator or '=' by itself *)
Definition clean (c : Z) : Prop := is_sep c = false /\ (c =? 61) = false.

Lemma hexdig_clean up v : 0 <= v < 16 -> clean (hexdig up v).
Proof.
  intros H.
  assert (E : v = 0 \/ v = 1 \/ v = 2 \/ v = 3 \/ v = 4 \/ v = 5 \/ v = 6 \/ v = 7 \/ v = 8 \/ v = 9
              \/ v = 10 \/ v = 11 \/ v = 12 \/ v = 13 \/ v = 14 \/ v = 15) by lia.
  destruct up; repeat (destruct E as [E | E]); subst v; vm_compute; split; reflexivity.
Qed.

Lemma quote_byte_clean ao st c : byte c -> Forall clean (quote_byte ao st c).
Proof.
  intros Hc. unfold quote_byte.
  destruct ((c =? 32) && st_plus st).
  - repeat constructor.
  - destruct (st_safe st c && negb (reserved c) && (negb ao || (c <? 128))) eqn:E.
    + apply andb_true_iff in E. destruct E as [E _]. apply andb_true_iff in E. destruct E as [_ E].
      apply negb_true_iff in E. destruct (reserved_false _ E) as (_ & P2 & P3 & P4 & _).
      repeat constructor; [unfold is_sep; now rewrite P2, P3 | exact P4].
    + destruct (nibbles c Hc) as (Ha & Hb & _). unfold pct.
      repeat constructor; try apply hexdig_clean; assumption.
Qed.

Lemma quote_clean ao st bs : Forall byte bs -> Forall clean (quote ao st bs).
Proof.
  intros H. induction H as [|c bs Hc _ IH]; [constructor|].
  rewrite quote_cons. apply Forall_app. split; [now apply quote_byte_clean | exact IH].
Qed.

Lemma quote_byte_nonnil ao st c : quote_byte ao st c <> [].
Proof.
  unfold quote_byte, pct. destruct ((c =? 32) && st_plus st); [discriminate|].
  destruct (st_safe st c && negb (reserved c) && (negb ao || (c <? 128))); discriminate.
Qed.

Lemma quote_nonnil ao st bs : bs <> [] -> quote ao st bs <> [].
Proof.
  destruct bs as [|c bs]; [contradiction|]. intros _. rewrite quote_cons.
  intros E. apply app_eq_nil in E. destruct E as [E _]. now apply quote_byte_nonnil in E.
Qed.

(** ** splitting *)
Lemma split_on_clean p a : Forall (fun c => p c = false) a -> split_on p a = [a].
Proof.
  intros H. induction H as [|c a Hc _ IH]; [reflexivity|].
  cbn [split_on]. now rewrite Hc, IH.
Qed.

Lemma split_on_app p a c rest : Forall (fun x => p x = false) a -> p c = true ->
  split_on p (a ++ c :: rest) = a :: split_on p rest.
Proof.
  intros H Hc. induction H as [|x a Hx _ IH]; cbn [app split_on].
  - now rewrite Hc.
  - now rewrite Hx, IH.
Qed.

Lemma split_on_join sep ps : is_sep sep = true -> ps <> [] ->
  Forall (Forall (fun c => is_sep c = false)) ps -> split_on is_sep (join sep ps) = ps.
Proof.
  intros Hs Hne H. induction H as [|p ps Hp Hps IH]; [contradiction|].
  destruct ps as [|q ps].
  - cbn [join]. now apply split_on_clean.
  - change (join sep (p :: q :: ps)) with (p ++ sep :: join sep (q :: ps)).
    rewrite split_on_app by assumption. f_equal. apply IH. discriminate.
Qed.

Lemma split_eq_app a b : Forall (fun c => (c =? 61) = false) a -> split_eq (a ++ 61 :: b) = (a, Some b).
Proof.
  intros H. induction H as [|c a Hc _ IH]; [reflexivity|].
  cbn [app split_eq]. now rewrite Hc, IH.
Qed.

Lemma split_eq_clean a : Forall (fun c => (c =? 61) = false) a -> split_eq a = (a, None).
Proof.
  intros H. induction H as [|c a Hc _ IH]; [reflexivity|].
  cbn [split_eq]. now rewrite Hc, IH.
Qed.

Lemma clean_nosep l : Forall clean l -> Forall (fun c => is_sep c = false) l.
Proof. apply Forall_impl. intros c [H _]. exact H. Qed.
Lemma clean_noeq l : Forall clean l -> Forall (fun c => (c =? 61) = false) l.
Proof. apply Forall_impl. intros c [_ H]. exact H. Qed.

(** ** what the wire says, independently of any charset *)
Definition pair_kv (p : list Z) : list Z * list Z :=
  (fst (split_eq p), match snd (split_eq p) with Some v => v | None => [] end).
Definition wire_pairs (s : list Z) : list (list Z * list Z) :=
  map pair_kv (filter (fun p => negb (is_nil p)) (split_on is_sep s)).

(** raw component pair [raw] decodes to text pair [kv] under [unq] *)
Definition decodes (unq : list Z -> option (list Z)) (raw kv : list Z * list Z) : Prop :=
  unq (fst raw) = Some (fst kv) /\ unq (snd raw) = Some (snd kv).
Definition undecodable (unq : list Z -> option (list Z)) (raw : list Z * list Z) : Prop :=
  unq (fst raw) = None \/ unq (snd raw) = None.

Lemma parse_pairs_step unq p r d : p <> [] ->
  parse_pairs unq (p :: r) d
  = match unq (fst (pair_kv p)) with
    | None => None
    | Some k' => match unq (snd (pair_kv p)) with
                 | None => None
                 | Some v' => parse_pairs unq r (dict_add k' (PStr v') d)
                 end
    end.
Proof.
  intros H. destruct p as [|c p]; [contradiction|].
  cbn [parse_pairs]. unfold pair_kv. destruct (split_eq (c :: p)) as [k ov]. reflexivity.
Qed.

(** any undecodable component makes the whole attempt fail: no partial dict *)
Lemma parse_pairs_fail unq ps : forall d,
  Exists (undecodable unq) (map pair_kv (filter (fun p => negb (is_nil p)) ps)) ->
  parse_pairs unq ps d = None.
Proof.
  induction ps as [|p ps IH]; intros d H; [inversion H|].
  destruct p as [|c p].
  - cbn [filter is_nil negb] in H. cbn [parse_pairs]. now apply IH.
  - cbn [filter is_nil negb map] in H. rewrite parse_pairs_step by discriminate.
    inversion H as [? ? Hu | ? ? Hr]; subst.
    + destruct Hu as [Hu | Hu]; rewrite Hu; [reflexivity|]. now destruct (unq (fst (pair_kv (c :: p)))).
    + destruct (unq (fst (pair_kv (c :: p)))); [|reflexivity].
      destruct (unq (snd (pair_kv (c :: p)))); [|reflexivity]. now apply IH.
Qed.

(** a successful attempt decoded every pair of the wire, in order *)
Lemma parse_pairs_ok unq ps : forall d d',
  parse_pairs unq ps d = Some d' ->
  exists m, Forall2 (decodes unq) (map pair_kv (filter (fun p => negb (is_nil p)) ps)) m /\ d' = build m d.
Proof.
  induction ps as [|p ps IH]; intros d d' H.
  - cbn in H. injection H as <-. exists []. split; [constructor | reflexivity].
  - destruct p as [|c p].
    + cbn [parse_pairs] in H. cbn [filter is_nil negb]. now apply IH.
    + rewrite parse_pairs_step in H by discriminate. cbn [filter is_nil negb map].
      destruct (unq (fst (pair_kv (c :: p)))) as [k'|] eqn:Ek; [|discriminate].
      destruct (unq (snd (pair_kv (c :: p)))) as [v'|] eqn:Ev; [|discriminate].
      destruct (IH _ _ H) as (m & Hm & ->). exists ((k', v') :: m). split; [|reflexivity].
      constructor; [split; assumption | exact Hm].
Qed.

(** ** parsing what the printer wrote *)
Section Wire.
  Variable enc : list Z -> list Z.
  Variable ao : bool.
  Variable st : style.
  Variable unq : list Z -> option (list Z).     (* component decoder of the parser *)
  Variable dec : list Z -> option (list Z).     (* the charset codec it amounts to *)
  Hypothesis unq_quote : forall bs, Forall byte bs -> unq (quote ao st bs) = dec bs.

  Definition enc_bytes (kv : list Z * list Z) : Prop := Forall byte (enc (fst kv)) /\ Forall byte (enc (snd kv)).

  Lemma enc_pair_clean kv : enc_bytes kv -> Forall clean (quote ao st (enc (fst kv))) /\ Forall clean (quote ao st (enc (snd kv))).
  Proof. intros [H1 H2]. split; now apply quote_clean. Qed.

  Lemma enc_pair_nosep kv : enc_bytes kv -> Forall (fun c => is_sep c = false) (enc_pair enc ao st kv).
  Proof.
    intros H. destruct (enc_pair_clean kv H) as [C1 C2]. unfold enc_pair.
    destruct (st_bare st && is_nil (enc (snd kv)) && negb (is_nil (enc (fst kv)))).
    - now apply clean_nosep.
    - apply Forall_app. split; [now apply clean_nosep|]. constructor; [reflexivity | now apply clean_nosep].
  Qed.

  (** one printed pair in front of the parser *)
  Lemma parse_enc_pair kv r d : enc_bytes kv ->
    parse_pairs unq (enc_pair enc ao st kv :: r) d
    = match dec (enc (fst kv)) with
      | None => None
      | Some k' => match dec (enc (snd kv)) with
                   | None => None
                   | Some v' => parse_pairs unq r (dict_add k' (PStr v') d)
                   end
      end.
  Proof.
    intros H. destruct (enc_pair_clean kv H) as [C1 C2]. destruct H as [B1 B2].
    unfold enc_pair. destruct (st_bare st && is_nil (enc (snd kv)) && negb (is_nil (enc (fst kv)))) eqn:E.
    - apply andb_true_iff in E. destruct E as [E E3]. apply andb_true_iff in E. destruct E as [_ E2].
      destruct (enc (snd kv)) as [|? ?] eqn:Ev; [|discriminate].
      assert (Hk : enc (fst kv) <> []) by (destruct (enc (fst kv)); [discriminate | discriminate]).
      rewrite parse_pairs_step by now apply quote_nonnil.
      unfold pair_kv. rewrite split_eq_clean by now apply clean_noeq. cbn [fst snd].
      rewrite (unq_quote _ B1). change (@nil Z) with (quote ao st []) at 1.
      rewrite (unq_quote [] ltac:(constructor)). reflexivity.
    - rewrite parse_pairs_step by (intros E0; apply app_eq_nil in E0; destruct E0 as [_ E0]; discriminate).
      unfold pair_kv. rewrite split_eq_app by now apply clean_noeq. cbn [fst snd].
      now rewrite (unq_quote _ B1), (unq_quote _ B2).
  Qed.

  Definition roundtrips (kv : list Z * list Z) : Prop :=
    dec (enc (fst kv)) = Some (fst kv) /\ dec (enc (snd kv)) = Some (snd kv).

  Lemma parse_encoded m : forall d, Forall enc_bytes m -> Forall roundtrips m ->
    parse_pairs unq (map (enc_pair enc ao st) m) d = Some (build m d).
  Proof.
    induction m as [|kv m IH]; intros d HB HR; [reflexivity|].
    inversion HB; subst. inversion HR as [|? ? [R1 R2] ?]; subst.
    cbn [map]. rewrite parse_enc_pair by assumption. rewrite R1, R2. now apply IH.
  Qed.

  Lemma parse_encoded_fail m : forall d, Forall enc_bytes m ->
    Exists (fun kv => dec (enc (fst kv)) = None \/ dec (enc (snd kv)) = None) m ->
    parse_pairs unq (map (enc_pair enc ao st) m) d = None.
  Proof.
    induction m as [|kv m IH]; intros d HB HE; [inversion HE|].
    inversion HB; subst. cbn [map]. rewrite parse_enc_pair by assumption.
    inversion HE as [? ? Hu | ? ? Hr]; subst.
    - destruct Hu as [Hu | Hu]; rewrite Hu; [reflexivity|]. now destruct (dec (enc (fst kv))).
    - destruct (dec (enc (fst kv))); [|reflexivity]. destruct (dec (enc (snd kv))); [|reflexivity].
      now apply IH.
  Qed.

  Lemma split_encoded sep m d : is_sep sep = true -> Forall enc_bytes m ->
    parse_pairs unq (split_on is_sep (encode enc ao st sep m)) d
    = parse_pairs unq (map (enc_pair enc ao st) m) d.
  Proof.
    intros Hs HB. unfold encode. destruct m as [|kv m]; [reflexivity|].
    rewrite split_on_join; [reflexivity | exact Hs | discriminate |].
    apply Forall_map. revert HB. apply Forall_impl. intros a. apply enc_pair_nosep.
  Qed.

  Lemma parse_wire sep m : is_sep sep = true -> Forall enc_bytes m -> Forall roundtrips m ->
    parse_pairs unq (split_on is_sep (encode enc ao st sep m)) [] = Some (to_dict m).
  Proof.
    intros Hs HB HR. rewrite split_encoded by assumption. rewrite parse_encoded by assumption.
    now rewrite build_to_dict.
  Qed.

  Lemma parse_wire_fail sep m : is_sep sep = true -> Forall enc_bytes m ->
    Exists (fun kv => dec (enc (fst kv)) = None \/ dec (enc (snd kv)) = None) m ->
    parse_pairs unq (split_on is_sep (encode enc ao st sep m)) [] = None.
  Proof. intros Hs HB HE. rewrite split_encoded by assumption. now apply parse_encoded_fail. Qed.
End Wire.

(** ** the body *)
Lemma thm_unquote_quote : forall st bs, Forall byte bs ->
  unquote_plus_b (quote false st bs) = bs /\ unquote_plus_b (quote true st bs) = bs.
Proof. intros st bs H. split; now apply unquote_quote_b. Qed.

Lemma body_unq_quote (dec : list Z -> option (list Z)) ao st bs : Forall byte bs -> dec (unquote_plus_b (quote ao st bs)) = dec bs.
Proof. intros H. now rewrite unquote_quote_b. Qed.

(** the charsets tried before the right one each fail on some component *)
Definition rejects (enc : list Z -> list Z) (m : list (list Z * list Z)) (d : list Z -> option (list Z)) : Prop :=
  Exists (fun kv => d (enc (fst kv)) = None \/ d (enc (snd kv)) = None) m.

Lemma attempt_skip ds1 : forall ds2 body,
  Forall (fun d => parse_body_with d body = None) ds1 -> attempt (ds1 ++ ds2) body = attempt ds2 body.
Proof.
  induction ds1 as [|d ds1 IH]; intros ds2 body H; [reflexivity|].
  inversion H as [|? ? H1 H2]; subst. cbn [app attempt]. rewrite H1. now apply IH.
Qed.

Lemma thm_roundtrip_body : forall enc dec ds1 ds2 st sep m,
  is_sep sep = true ->
  Forall (enc_bytes enc) m -> Forall (roundtrips enc dec) m -> Forall (rejects enc m) ds1 ->
  attempt (ds1 ++ dec :: ds2) (encode enc false st sep m) = Some (to_dict m).
Proof.
  intros enc dec ds1 ds2 st sep m Hs HB HR HJ.
  rewrite attempt_skip.
  - cbn [attempt]. unfold parse_body_with.
    rewrite (parse_wire enc false st _ dec (fun bs => body_unq_quote dec false st bs)) by assumption.
    reflexivity.
  - revert HJ. apply Forall_impl. intros d Hd. unfold parse_body_with.
    apply (parse_wire_fail enc false st _ d (fun bs => body_unq_quote d false st bs)); assumption.
Qed.

(** ** the query string *)
Lemma utf8_go_ascii l : Forall ascii l -> utf8_go 0 0 128 191 l = Some l.
Proof.
  intros H. induction H as [|c l Hc _ IH]; [reflexivity|].
  cbn [utf8_go]. change (0 =? 0) with true. cbn iota.
  destruct (c <? 128) eqn:E; [now rewrite IH|]. apply Z.ltb_ge in E. unfold ascii in Hc. lia.
Qed.

Lemma utf8_dec_ascii l : Forall ascii l -> utf8_dec l = Some l.
Proof. apply utf8_go_ascii. Qed.

Lemma recode_ascii l : Forall ascii l -> recode l = l.
Proof. intros H. unfold recode. now rewrite utf8_dec_ascii. Qed.

Lemma enc_pair_ascii enc st kv : enc_bytes enc kv -> Forall ascii (enc_pair enc true st kv).
Proof.
  intros [H1 H2]. unfold enc_pair.
  destruct (st_bare st && is_nil (enc (snd kv)) && negb (is_nil (enc (fst kv)))).
  - now apply quote_ascii.
  - apply Forall_app. split; [now apply quote_ascii|].
    constructor; [unfold ascii; lia | now apply quote_ascii].
Qed.

Lemma join_ascii sep ps : ascii sep -> Forall (Forall ascii) ps -> Forall ascii (join sep ps).
Proof.
  intros Hs H. induction H as [|p ps Hp _ IH]; [constructor|].
  destruct ps as [|q ps]; [exact Hp|].
  change (join sep (p :: q :: ps)) with (p ++ sep :: join sep (q :: ps)).
  apply Forall_app. split; [exact Hp|]. constructor; [exact Hs | exact IH].
Qed.

Lemma encode_ascii enc st sep m : is_sep sep = true -> Forall (enc_bytes enc) m ->
  Forall ascii (encode enc true st sep m).
Proof.
  intros Hs HB. unfold encode. apply join_ascii.
  - unfold is_sep in Hs. apply orb_true_iff in Hs. destruct Hs as [E | E]; apply Z.eqb_eq in E; subst sep;
      unfold ascii; lia.
  - apply Forall_map. revert HB. apply Forall_impl. intros kv. apply enc_pair_ascii.
Qed.

Lemma pqs_noimap c dec s : (if c_imap_full c then imap_full s else imap_prefix s) = false ->
  parse_query_string c dec s = match parse_qs dec s with Some d => QOk d | None => QDecodeErr end.
Proof. intros H. unfold parse_query_string. now rewrite H. Qed.

Section Query.
  Variable enc : list Z -> list Z.
  Variable dec : list Z -> option (list Z).
  Variable rc : list Z -> list Z.
  Hypothesis dec_ascii : forall l, Forall ascii l -> dec l = Some l.
  Hypothesis rc_ascii : forall l, Forall ascii l -> rc l = l.

  Lemma thm_parse_qs st sep m : is_sep sep = true ->
    Forall (enc_bytes enc) m -> Forall (roundtrips enc dec) m ->
    parse_qs dec (rc (encode enc true st sep m)) = Some (to_dict m).
  Proof.
    intros Hs HB HR. rewrite rc_ascii by now apply encode_ascii.
    unfold parse_qs.
    now apply (parse_wire enc true st _ dec (fun bs H => unquote_quote_s dec dec_ascii st bs H)).
  Qed.

  Lemma thm_roundtrip_qs c decs st sep m : is_sep sep = true ->
    Forall (enc_bytes enc) m -> Forall (roundtrips enc dec) m ->
    (if c_imap_full c then imap_full (encode enc true st sep m)
     else imap_prefix (encode enc true st sep m)) = false ->
    request_with c rc dec decs (encode enc true st sep m) None = (200, to_dict m).
  Proof.
    intros Hs HB HR HI. unfold request_with.
    rewrite pqs_noimap by (rewrite (rc_ascii _ (encode_ascii enc st sep m Hs HB)); exact HI).
    now rewrite thm_parse_qs.
  Qed.

  (** query and body together, repaired merge: per key the query values, then the body values *)
  Lemma thm_request_roundtrip (encb : list Z -> list Z) (decb : list Z -> option (list Z)) ds1 ds2 stq stb sepq sepb mq mb (imf : bool) :
    is_sep sepq = true -> is_sep sepb = true ->
    Forall (enc_bytes enc) mq -> Forall (roundtrips enc dec) mq ->
    Forall (enc_bytes encb) mb -> Forall (roundtrips encb decb) mb -> Forall (rejects encb mb) ds1 ->
    (if imf then imap_full (encode enc true stq sepq mq) else imap_prefix (encode enc true stq sepq mq)) = false ->
    exists d,
      request_with (Cfg imf true) rc dec (ds1 ++ decb :: ds2)
                   (encode enc true stq sepq mq) (Some (encode encb false stb sepb mb)) = (200, d)
      /\ NoDup (map fst d)
      /\ forall k, lookup k d = lookup k (to_dict (mq ++ mb)).
  Proof.
    intros Hq Hb HBq HRq HBb HRb HJ HI.
    unfold request_with.
    rewrite pqs_noimap by (rewrite (rc_ascii _ (encode_ascii enc stq sepq mq Hq HBq)); exact HI).
    cbn [c_merge_flat].
    rewrite thm_parse_qs by assumption.
    rewrite thm_roundtrip_body by assumption.
    rewrite merge_into_empty by apply to_dict_keys_NoDup.
    eexists. split; [reflexivity|]. split.
    - apply merge_keys_NoDup, to_dict_keys_NoDup.
    - intros k. apply lookup_merge_to_dict.
  Qed.
End Query.

(** ** merge order *)
Lemma thm_merge_order : forall mq mb k,
  lookup k (merge promote_extend (to_dict mb) (to_dict mq))
  = match values_of k mq ++ values_of k mb with
    | [] => None
    | vs => Some (val_of vs)
    end.
Proof.
  intros mq mb k. rewrite lookup_merge_to_dict, lookup_to_dict, values_of_app. reflexivity.
Qed.

(** ** all or nothing *)
Lemma thm_attempt_none : forall decs body,
  Forall (fun d => Exists (undecodable (fun c => d (unquote_plus_b c))) (wire_pairs body)) decs ->
  attempt decs body = None.
Proof.
  intros decs body H. induction H as [|d decs Hd _ IH]; [reflexivity|].
  cbn [attempt]. unfold parse_body_with at 1. rewrite parse_pairs_fail by exact Hd. exact IH.
Qed.

Lemma thm_attempt_some : forall decs body d',
  attempt decs body = Some d' ->
  exists d m, In d decs /\ Forall2 (decodes (fun c => d (unquote_plus_b c))) (wire_pairs body) m
              /\ d' = to_dict m.
Proof.
  induction decs as [|d decs IH]; intros body d' H; [discriminate|].
  cbn [attempt] in H. destruct (parse_body_with d body) as [x|] eqn:E.
  - injection H as <-. unfold parse_body_with in E. apply parse_pairs_ok in E.
    destruct E as (m & Hm & ->). exists d, m. split; [now left|]. split; [exact Hm | apply build_to_dict].
  - destruct (IH _ _ H) as (d0 & m & Hin & Hm & ->). exists d0, m. split; [now right | tauto].
Qed.

Lemma thm_body_refused : forall c rc decq decs qs body qd,
  parse_query_string c decq (rc qs) = QOk qd ->
  Forall (fun d => Exists (undecodable (fun c => d (unquote_plus_b c))) (wire_pairs body)) decs ->
  request_with c rc decq decs qs (Some body) = (400, []).
Proof.
  intros c rc decq decs qs body qd Hq H. unfold request_with. rewrite Hq.
  now rewrite thm_attempt_none.
Qed.

Lemma thm_query_refused : forall c rc decq decs qs body,
  (if c_imap_full c then imap_full (rc qs) else imap_prefix (rc qs)) = false ->
  Exists (undecodable (unquote_plus_s decq)) (wire_pairs (rc qs)) ->
  request_with c rc decq decs qs body = (404, []).
Proof.
  intros c rc decq decs qs body HI H. unfold request_with, parse_query_string. rewrite HI.
  unfold parse_qs. rewrite parse_pairs_fail by exact H. reflexivity.
Qed.

(** the handler's dict after a successful request is complete: every pair of the
    query and every pair of the body, each side decoded under ONE codec *)
Lemma thm_delivered_complete : forall rc decq decs qs body imf d,
  imap_full (rc qs) = false -> imf = true ->
  request_with (Cfg imf true) rc decq decs qs (Some body) = (200, d) ->
  exists mq db mb,
    Forall2 (decodes (unquote_plus_s decq)) (wire_pairs (rc qs)) mq
    /\ In db decs /\ Forall2 (decodes (fun c => db (unquote_plus_b c))) (wire_pairs body) mb
    /\ forall k, lookup k d = lookup k (to_dict (mq ++ mb)).
Proof.
  intros rc decq decs qs body imf d HI -> H. unfold request_with, parse_query_string in H.
  cbn [c_imap_full c_merge_flat] in H. rewrite HI in H.
  destruct (parse_qs decq (rc qs)) as [qd|] eqn:Eq; [|discriminate].
  destruct (attempt decs body) as [params|] eqn:Ea; [|discriminate].
  injection H as <-.
  unfold parse_qs in Eq. apply parse_pairs_ok in Eq. destruct Eq as (mq & Hmq & ->).
  apply thm_attempt_some in Ea. destruct Ea as (db & mb & Hin & Hmb & ->).
  exists mq, db, mb. repeat split; try assumption.
  intros k. rewrite build_to_dict. rewrite merge_into_empty by apply to_dict_keys_NoDup.
  apply lookup_merge_to_dict.
Qed.

(** ** concrete instances used by the examples in Props/C03.v *)
Definition st_minimal : style := Style (fun _ => true) true true false true.
Definition st_full : style := Style (fun _ => false) false true true false.

Lemma ex_roundtrip :
  let m := [([97], [49]); ([38;61], []); ([97], [32;43;37])] in
  Forall (enc_bytes (fun s => s)) m /\ Forall (roundtrips (fun s => s) utf8_dec) m
  /\ encode (fun s => s) true st_full 59 m
     = [37;54;49;61;37;51;49; 59; 37;50;54;37;51;68;61; 59; 37;54;49;61;43;37;50;66;37;50;53]
  /\ request (Cfg true true) (encode (fun s => s) true st_full 59 m)
             (Some (encode (fun s => s) false st_minimal 38 m)) None None
     = (200, [([97], PList [PStr [49]; PStr [32;43;37]; PStr [49]; PStr [32;43;37]]);
              ([38;61], PList [PStr []; PStr []])]).
Proof.
  cbv zeta. split; [|split; [|split]].
  - repeat constructor; unfold byte; cbn; lia.
  - repeat constructor.
  - vm_compute. reflexivity.
  - vm_compute. reflexivity.
Qed.

Lemma ex_refused :
  request (Cfg true true) [97;61;49] (Some [97;61;50;38;98;61;37;102;102]) None None = (400, [])
  /\ request (Cfg true true) [97;61;37;102;102] (Some [97;61;50]) None None = (404, [])
  /\ request (Cfg true true) [49;50;44;51;52] None None None = (200, [(key_x, PInt 12); (key_y, PInt 34)])
  /\ request (Cfg true true) [49;50;44;51;52;120] None None None = (200, [([49;50;44;51;52;120], PStr [])]).
Proof. repeat split; vm_compute; reflexivity. Qed.
