(** Charset negotiation (ResponseEncoder.find_acceptable_charset), buffered
    bodies, repaired variant: the charset answered is acceptable (q > 0), can
    encode every text chunk, and nothing the client prefers more can. *)
From Coq Require Import ZArith List Bool Lia.
From CV Require Import Lib.Sx Lib.ListZ LibP.ListZ_facts Model.M_gzipframe Model.M_negotiate
     Proof.P_negotiate.
Import ListNotations.
Open Scope Z_scope.

Lemma existsb_order f els : existsb f (header_order els) = existsb f els.
Proof.
  apply eq_true_iff_eq. rewrite !existsb_exists.
  split; intros (e & He & H); exists e; (split; [now apply header_order_In|assumption]).
Qed.

Lemma mem_map_iff (f : elem -> list Z) s l :
  mem s (map f l) = true <-> exists e, In e l /\ f e = s.
Proof.
  rewrite mem_In, in_map_iff. split; intros (e & A & B); exists e; auto.
Qed.

Section Charset.
  Variable T : Type.
  Variable encodable : list Z -> T -> bool.
  Variable usable : list Z -> bool.

  Notation chunkT := (chunk T).
  Notation all_enc := (all_encodable T encodable).

  (** the attempts so far all failed on the (unchanged) body *)
  Definition Inv (b : list chunkT) (s : est T) : Prop :=
    body T s = b /\ forall n, In n (attempted T s) -> all_enc n b = false.

  Lemma try_string_spec b cs s ok s' :
    Inv b s -> try_string T encodable false cs s = (ok, s') ->
    body T s' = b /\ all_enc cs b = ok /\ (ok = false -> Inv b s').
  Proof.
    intros [Hb Ha] H. unfold try_string in H.
    destruct (mem cs (attempted T s)) eqn:M.
    - inversion H; subst. split; [reflexivity|]. split; [|intros _; split; auto].
      apply Ha. now apply mem_In.
    - unfold all_encodable. rewrite Hb in H.
      destruct (first_bad T encodable cs b) eqn:F; inversion H; subst; cbn [body attempted].
      + split; [reflexivity|]. split; [reflexivity|]. intros _. split; [reflexivity|].
        intros n [<-|Hn]; [unfold all_encodable; now rewrite F | now apply Ha].
      + split; [reflexivity|]. split; [reflexivity|]. discriminate.
  Qed.

  (** what it means for the candidate behind a header element to be unusable *)
  Definition fails (c : ccfg) (all : list elem) (b : list chunkT) (x : elem) : Prop :=
    if eqbZs (e_val x) s_star
    then listed (lower (c_default c)) all = true \/ all_enc (c_default c) b = false
    else all_enc (e_val x) b = false.

  (** the element through which [cs] was chosen *)
  Definition chosen_by (c : ccfg) (all : list elem) (cs : list Z) (e : elem) : Prop :=
    (e_val e = s_star /\ cs = c_default c /\ listed (lower (c_default c)) all = false)
    \/ (e_val e <> s_star /\ cs = e_val e).

  Lemma find_loop_spec c all b : c_rep_q0 c = true -> forall l s r s',
    Inv b s -> find_loop T c (try_string T encodable false) all l s = (r, s') ->
    body T s' = b /\
    match r with
    | None => Inv b s' /\ forall x, In x l -> 0 < e_q x -> fails c all b x
    | Some cs => exists pre e post, l = pre ++ e :: post
                 /\ (forall x, In x pre -> 0 < e_q x -> fails c all b x)
                 /\ 0 < e_q e /\ all_enc cs b = true /\ chosen_by c all cs e
    end.
  Proof.
    intros Hrep. induction l as [|e l IH]; intros s r s' Hi H; cbn [find_loop] in H.
    - injection H as <- <-. split; [apply Hi|]. split; [assumption|intros x []].
    - destruct (0 <? e_q e) eqn:Q.
      + apply Z.ltb_lt in Q. destruct (eqbZs (e_val e) s_star) eqn:St.
        * rewrite Hrep in H. cbn [andb] in H.
          destruct (listed (lower (c_default c)) all) eqn:Z0.
          -- destruct (IH _ _ _ Hi H) as [Hb Hr]. split; [assumption|]. destruct r as [cs|].
             ++ destruct Hr as (pre & e' & post & -> & Hp & Hq & He & Hc).
                exists (e :: pre), e', post. split; [reflexivity|]. split; [|auto].
                intros x [<-|Hx] Hx0; [unfold fails; rewrite St; now left | now apply Hp].
             ++ destruct Hr as [Hi' Hr]. split; [assumption|].
                intros x [<-|Hx] Hx0; [unfold fails; rewrite St; now left | now apply Hr].
          -- destruct (try_string T encodable false (c_default c) s) as [ok s1] eqn:Et.
             destruct (try_string_spec _ _ _ _ _ Hi Et) as (Hb1 & Hok & Hi1).
             destruct ok.
             ++ injection H as <- <-. split; [assumption|].
                exists [], e, l. split; [reflexivity|]. split; [intros x []|].
                split; [assumption|]. split; [assumption|]. left.
                apply eqbZs_eq in St. auto.
             ++ destruct (IH _ _ _ (Hi1 eq_refl) H) as [Hb Hr]. split; [assumption|].
                destruct r as [cs|].
                ** destruct Hr as (pre & e' & post & -> & Hp & Hq & He & Hc).
                   exists (e :: pre), e', post. split; [reflexivity|]. split; [|auto].
                   intros x [<-|Hx] Hx0; [unfold fails; rewrite St; now right | now apply Hp].
                ** destruct Hr as [Hi' Hr]. split; [assumption|].
                   intros x [<-|Hx] Hx0; [unfold fails; rewrite St; now right | now apply Hr].
        * destruct (try_string T encodable false (e_val e) s) as [ok s1] eqn:Et.
          destruct (try_string_spec _ _ _ _ _ Hi Et) as (Hb1 & Hok & Hi1).
          destruct ok.
          -- injection H as <- <-. split; [assumption|].
             exists [], e, l. split; [reflexivity|]. split; [intros x []|].
             split; [assumption|]. split; [assumption|]. right.
             apply eqbZs_neq in St. auto.
          -- destruct (IH _ _ _ (Hi1 eq_refl) H) as [Hb Hr]. split; [assumption|].
             destruct r as [cs|].
             ++ destruct Hr as (pre & e' & post & -> & Hp & Hq & He & Hc).
                exists (e :: pre), e', post. split; [reflexivity|]. split; [|auto].
                intros x [<-|Hx] Hx0; [unfold fails; rewrite St; assumption | now apply Hp].
             ++ destruct Hr as [Hi' Hr]. split; [assumption|].
                intros x [<-|Hx] Hx0; [unfold fails; rewrite St; assumption | now apply Hr].
      + apply Z.ltb_ge in Q. destruct (IH _ _ _ Hi H) as [Hb Hr]. split; [assumption|].
        destruct r as [cs|].
        * destruct Hr as (pre & e' & post & -> & Hp & Hq & He & Hc).
          exists (e :: pre), e', post. split; [reflexivity|]. split; [|auto].
          intros x [<-|Hx] Hx0; [lia | now apply Hp].
        * destruct Hr as [Hi' Hr]. split; [assumption|].
          intros x [<-|Hx] Hx0; [lia | now apply Hr].
  Qed.

  (** the configuration the property theorem is about: buffered body, no forced
      encoding, the repaired variants *)
  Definition buffered_repaired (c : ccfg) (oneshot : bool) : Prop :=
    c_stream c = false /\ c_forced c = None /\ c_rep_q0 c = true
    /\ (oneshot = false \/ c_rep_mat c = true).

  Definition star_listed (els : list elem) : Prop := exists e, In e els /\ lower (e_val e) = s_star.
  Definition iso_listed (els : list elem) : Prop := exists e, In e els /\ lower (e_val e) = s_iso.

  Lemma listed_order_eq n els : listed n (header_order els) = listed n els.
  Proof.
    unfold listed. apply eq_true_iff_eq. rewrite !mem_map_iff.
    split; intros (e & He & H); exists e; (split; [now apply header_order_In|assumption]).
  Qed.

  Lemma fails_order c els b x : fails c (header_order els) b x <-> fails c els b x.
  Proof. unfold fails. rewrite listed_order_eq. reflexivity. Qed.

  Lemma chosen_by_order c els cs e : chosen_by c (header_order els) cs e <-> chosen_by c els cs e.
  Proof. unfold chosen_by. rewrite listed_order_eq. reflexivity. Qed.

  Lemma listed_order (n : list Z) els :
    mem n (map (fun e => lower (e_val e)) (header_order els)) = false <->
    ~ exists e, In e els /\ lower (e_val e) = n.
  Proof.
    split.
    - intros H (e & He & Hv).
      assert (mem n (map (fun e => lower (e_val e)) (header_order els)) = true) as C.
      { apply mem_map_iff. exists e. split; [now apply header_order_In|assumption]. }
      congruence.
    - intros H. destruct (mem n _) eqn:M; [|reflexivity]. exfalso. apply H.
      apply mem_map_iff in M. destruct M as (e & He & Hv). exists e.
      split; [now apply header_order_In|assumption].
  Qed.

  (** the outcome of the search, in terms of what the client sent *)
  Definition chosen_ok (c : ccfg) (els : list elem) (b : list chunkT) (cs : list Z) : Prop :=
    all_enc cs b = true /\
    exists q0,
      ((exists e, In e els /\ 0 < e_q e /\ e_q e = q0 /\ chosen_by c els cs e)
       \/ (q0 = 0 /\ cs = s_iso /\ ~ star_listed els /\ ~ iso_listed els))
      /\ forall x, In x els -> 0 < e_q x -> q0 < e_q x -> fails c els b x.

  Definition none_ok (c : ccfg) (els : list elem) (b : list chunkT) : Prop :=
    (forall x, In x els -> 0 < e_q x -> fails c els b x)
    /\ (~ star_listed els -> ~ iso_listed els -> all_enc s_iso b = false).

  Lemma find_charset_spec c oneshot els b r s :
    buffered_repaired c oneshot -> els <> [] ->
    find_charset T encodable usable c oneshot (Some els) b = (r, s) ->
    body T s = b /\
    match r with
    | Some (Some cs) => chosen_ok c els b cs
    | Some None => none_ok c els b
    | None => False
    end.
  Proof.
    intros (Hs & Hf & Hq & Hm) Hne H. unfold find_charset in H. rewrite Hs, Hf in H.
    assert (oneshot && negb (c_rep_mat c) = false) as Ho.
    { destruct Hm as [-> | ->]; [reflexivity|]. cbn [negb]. apply andb_false_r. }
    rewrite Ho in H. clear Ho.
    pose proof (header_order_desc els) as Hd.
    assert (header_order els <> []) as Hne'.
    { destruct els as [|e0 r0]; [contradiction|]. intros E.
      assert (In e0 (header_order (e0 :: r0))) as C by (apply header_order_In; now left).
      rewrite E in C. destruct C. }
    remember (header_order els) as all eqn:Ea.
    destruct all as [|h t]; [contradiction|]. rewrite Ea in H.
    destruct (find_loop T c (try_string T encodable false) (header_order els) (header_order els)
                        (Est T [] b)) as [r1 s1] eqn:El.
    assert (Inv b (Est T [] b)) as Hi0 by (split; [reflexivity|intros n []]).
    destruct (find_loop_spec c _ b Hq _ _ _ _ Hi0 El) as [Hb Hr].
    destruct r1 as [cs|].
    - injection H as <- <-. split; [assumption|].
      destruct Hr as (pre & e & post & Hl & Hp & He0 & Hen & Hc).
      split; [assumption|]. exists (e_q e). split.
      + left. exists e. split; [apply header_order_In; rewrite Hl; apply in_or_app; right; now left|].
        split; [assumption|]. split; [reflexivity|]. now apply chosen_by_order.
      + intros x Hx Hx0 Hlt. apply fails_order.
        apply header_order_In in Hx. rewrite Hl in Hx. apply in_app_or in Hx.
        destruct Hx as [Hx|[<-|Hx]]; [now apply Hp | lia |].
        rewrite Ea, Hl in Hd.
        pose proof (desc_split _ Hd pre e post eq_refl x Hx). lia.
    - destruct Hr as [Hi1 Hr].
      assert (forall x, In x els -> 0 < e_q x -> fails c els b x) as Hall.
      { intros x Hx Hx0. apply fails_order. apply Hr; [now apply header_order_In|assumption]. }
      destruct (negb (mem s_star (map (fun e => lower (e_val e)) (header_order els))) &&
                negb (mem s_iso (map (fun e => lower (e_val e)) (header_order els)))) eqn:Eiso.
      + apply andb_true_iff in Eiso. destruct Eiso as [E1 E2].
        apply negb_true_iff in E1. apply negb_true_iff in E2.
        apply listed_order in E1. apply listed_order in E2.
        destruct (try_string T encodable false s_iso s1) as [ok s2] eqn:Et.
        destruct (try_string_spec _ _ _ _ _ Hi1 Et) as (Hb2 & Hok & _).
        destruct ok; injection H as <- <-; (split; [assumption|]).
        * split; [assumption|]. exists 0. split; [right; auto|]. intros x Hx Hx0 _. now apply Hall.
        * split; [assumption|]. intros _ _. assumption.
      + injection H as <- <-. split; [assumption|]. split; [assumption|].
        intros N1 N2. exfalso.
        apply (proj2 (listed_order s_star els)) in N1. apply (proj2 (listed_order s_iso els)) in N2.
        rewrite N1, N2 in Eiso. discriminate.
  Qed.

  Lemma thm_charset c oneshot ct els b :
    buffered_repaired c oneshot -> els <> [] ->
    match encode_tool T encodable usable c oneshot ct (Some els) b with
    | CChosen cs dropped => dropped = 0 /\ chosen_ok c els b cs
    | C406 => none_ok c els b
    | C500 => False
    | CNoFind => True
    end.
  Proof.
    intros Hc Hne. unfold encode_tool. destruct ct as [v|]; [|exact Logic.I].
    destruct (c_add_charset c && (negb (c_text_only c) || startswith (lower v) s_text_slash));
      [|exact Logic.I].
    destruct (find_charset T encodable usable c oneshot (Some els) b) as [r s] eqn:Ef.
    destruct (find_charset_spec _ _ _ _ _ _ Hc Hne Ef) as [Hb Hr].
    destruct r as [[cs|]|]; [|assumption|assumption].
    split; [rewrite Hb; lia|assumption].
  Qed.
End Charset.

(* ---------- examples (non-vacuity) and witnesses ---------- *)

Definition s_utf8 : list Z := [117;116;102;45;56].
(** text chunk 0 is plain ASCII (every charset encodes it), any other text
    chunk needs utf-8 *)
Definition ex_enc (cs : list Z) (t : Z) : bool := if t =? 0 then true else eqbZs cs s_utf8.
Definition ex_usable (cs : list Z) : bool := negb (eqbZs cs s_deflate).
Definition ex_cfg (stream rep_q0 rep_mat : bool) : ccfg := CCfg stream None s_utf8 true true rep_q0 rep_mat.

Lemma ex_charset :
  buffered_repaired (ex_cfg false true true) true
  /\ encode_tool Z ex_enc ex_usable (ex_cfg false true true) true (Some s_text_plain)
       (Some [el s_iso 1000; el s_utf8 500]) [CText 0; CBytes; CText 1] = CChosen s_utf8 0
  /\ encode_tool Z ex_enc ex_usable (ex_cfg false true true) true (Some s_text_plain)
       (Some [el s_utf8 0; el s_star 1000]) [CText 1] = C406
  /\ encode_tool Z ex_enc ex_usable (ex_cfg false true true) true (Some s_text_plain)
       (Some [el s_deflate 0]) [CText 0] = CChosen s_iso 0
  (* streamed: a name without a codec is skipped *)
  /\ encode_tool Z ex_enc ex_usable (ex_cfg true true true) true (Some s_text_plain)
       (Some [el s_deflate 1000; el s_utf8 500]) [CText 1] = CChosen s_utf8 0.
Proof.
  split; [unfold buffered_repaired; cbn; auto|]. vm_compute. auto.
Qed.
