(** Lemmas about the negotiation model: string equality, the order of
    header_elements (a permutation, descending in q), and the gzip decision. *)
From Coq Require Import ZArith List Bool Lia.
From CV Require Import Lib.Sx Lib.ListZ LibP.ListZ_facts Model.M_gzipframe Model.M_negotiate.
Import ListNotations.
Open Scope Z_scope.

(* ---------- strings ---------- *)

Lemma eqbZs_eq a : forall b, eqbZs a b = true <-> a = b.
Proof.
  unfold eqbZs. induction a as [|x a IH]; intros [|y b].
  - split; reflexivity.
  - split; discriminate.
  - split; discriminate.
  - rewrite andb_true_iff, Z.eqb_eq, IH. split.
    + intros [-> ->]. reflexivity.
    + intros H. inversion H. auto.
Qed.

Lemma eqbZs_refl a : eqbZs a a = true.
Proof. now apply eqbZs_eq. Qed.

Lemma eqbZs_neq a b : eqbZs a b = false <-> a <> b.
Proof.
  split.
  - intros H E. apply eqbZs_eq in E. congruence.
  - intros H. destruct (eqbZs a b) eqn:E; [|reflexivity]. apply eqbZs_eq in E. contradiction.
Qed.

Lemma mem_In s l : mem s l = true <-> In s l.
Proof.
  unfold mem. rewrite existsb_exists. split.
  - intros (x & Hx & E). apply eqbZs_eq in E. now subst.
  - intros H. exists s. split; [assumption | apply eqbZs_refl].
Qed.

(* ---------- the order of header_elements ---------- *)

Fixpoint asc (l : list elem) : Prop :=
  match l with
  | [] => True
  | x :: r => (forall y, In y r -> e_q x <= e_q y) /\ asc r
  end.

Fixpoint desc (l : list elem) : Prop :=
  match l with
  | [] => True
  | x :: r => (forall y, In y r -> e_q y <= e_q x) /\ desc r
  end.

Lemma elem_lt_q a b : elem_lt a b = true -> e_q a <= e_q b.
Proof.
  unfold elem_lt. destruct (e_q a =? e_q b) eqn:E.
  - apply Z.eqb_eq in E. lia.
  - intros H. apply Z.ltb_lt in H. lia.
Qed.

Lemma elem_nlt_q a b : elem_lt a b = false -> e_q b <= e_q a.
Proof.
  unfold elem_lt. destruct (e_q a =? e_q b) eqn:E.
  - apply Z.eqb_eq in E. lia.
  - intros H. apply Z.ltb_ge in H. lia.
Qed.

Lemma insert_In x l y : In y (insert x l) <-> y = x \/ In y l.
Proof.
  induction l as [|z r IH]; cbn [insert In].
  - intuition congruence.
  - destruct (elem_lt x z); cbn [In]; [|rewrite IH]; intuition congruence.
Qed.

Lemma insert_asc x l : asc l -> asc (insert x l).
Proof.
  induction l as [|z r IH]; cbn [insert asc]; intros H.
  - split; [intros y []|exact Logic.I].
  - destruct H as [Hz Hr]. destruct (elem_lt x z) eqn:E; cbn [asc].
    + split; [|split; assumption].
      intros y [<-|Hy]; [now apply elem_lt_q|].
      apply elem_lt_q in E. specialize (Hz y Hy). lia.
    + split; [|now apply IH].
      intros y Hy. apply insert_In in Hy. destruct Hy as [->|Hy]; [now apply elem_nlt_q | now apply Hz].
Qed.

Lemma fold_insert_In l : forall acc y,
  In y (fold_left (fun acc x => insert x acc) l acc) <-> In y l \/ In y acc.
Proof.
  induction l as [|x r IH]; intros acc y; cbn [fold_left In].
  - intuition.
  - rewrite IH, insert_In. intuition congruence.
Qed.

Lemma fold_insert_asc l : forall acc, asc acc -> asc (fold_left (fun acc x => insert x acc) l acc).
Proof.
  induction l as [|x r IH]; intros acc H; cbn [fold_left]; [assumption|].
  apply IH, insert_asc, H.
Qed.

Lemma desc_snoc l x : desc l -> (forall y, In y l -> e_q x <= e_q y) -> desc (l ++ [x]).
Proof.
  induction l as [|z r IH]; cbn [app desc]; intros H Hx.
  - split; [intros y []|exact Logic.I].
  - destruct H as [Hz Hr]. split.
    + intros y Hy. apply in_app_or in Hy. destruct Hy as [Hy|[<-|[]]]; [now apply Hz|].
      apply Hx. now left.
    + apply IH; [assumption|]. intros y Hy. apply Hx. now right.
Qed.

Lemma asc_rev_desc l : asc l -> desc (rev l).
Proof.
  induction l as [|x r IH]; cbn [asc rev]; intros H; [exact Logic.I|].
  destruct H as [Hx Hr]. apply desc_snoc; [now apply IH|].
  intros y Hy. apply in_rev in Hy. now apply Hx.
Qed.

Lemma header_order_In l x : In x (header_order l) <-> In x l.
Proof.
  unfold header_order, sorted_asc. rewrite <- in_rev, fold_insert_In. cbn [In]. intuition.
Qed.

Lemma header_order_desc l : desc (header_order l).
Proof. apply asc_rev_desc, fold_insert_asc. exact Logic.I. Qed.

Lemma desc_split l : desc l -> forall pre e post, l = pre ++ e :: post ->
  forall y, In y post -> e_q y <= e_q e.
Proof.
  intros H pre. revert l H. induction pre as [|p pre IH]; intros l H e post -> y Hy.
  - cbn [app desc] in H. now apply H.
  - cbn [app desc] in H. destruct H as [_ H]. eapply IH; eauto.
Qed.

Lemma desc_tail x r : desc (x :: r) -> desc r.
Proof. cbn [desc]. tauto. Qed.

(** qvalues are never negative *)
Definition WFq (els : list elem) : Prop := forall e, In e els -> 0 <= e_q e.

Lemma WFq_order els : WFq els -> WFq (header_order els).
Proof. intros H e He. apply H. now apply header_order_In. Qed.

(* ---------- gzip: what the client said, as propositions ---------- *)

Definition gzip_listed_pos (els : list elem) : Prop :=
  exists e, In e els /\ is_gzip (e_val e) = true /\ 0 < e_q e.
Definition star_listed_pos (els : list elem) : Prop :=
  exists e, In e els /\ e_val e = s_star /\ 0 < e_q e.
Definition identity_listed_pos (els : list elem) : Prop :=
  exists e, In e els /\ e_val e = s_identity /\ 0 < e_q e.
(** "identity;q=0" or "*;q=0" *)
Definition identity_refused_by (els : list elem) : Prop :=
  exists e, In e els /\ (e_val e = s_identity \/ e_val e = s_star) /\ e_q e = 0.

(** an element the loop passes without returning, whatever comes after it *)
Definition clean (x : elem) : Prop :=
  (eqbZs (e_val x) s_identity && negb (e_q x =? 0)) = false
  /\ (is_gzip (e_val x) = true -> e_q x = 0).

Lemma loop_clean all ct mts l :
  (forall x, In x l -> clean x) -> gz_loop_dec true all ct mts l = falloff true all.
Proof.
  induction l as [|e r IH]; intros H; cbn [gz_loop_dec]; [reflexivity|].
  destruct (H e (or_introl eq_refl)) as [H1 H2]. rewrite H1.
  destruct (is_gzip (e_val e)) eqn:G.
  - rewrite (H2 eq_refl). reflexivity.
  - apply IH. intros x Hx. apply H. now right.
Qed.

Lemma loop_406 all ct mts l :
  desc l -> WFq l -> gz_loop_dec true all ct mts l = G406 ->
  (forall x, In x l -> clean x) /\ falloff true all = G406.
Proof.
  induction l as [|e r IH]; intros Hd Hw H; cbn [gz_loop_dec] in H.
  - split; [intros x []|assumption].
  - destruct (eqbZs (e_val e) s_identity && negb (e_q e =? 0)) eqn:H1; [discriminate|].
    destruct (is_gzip (e_val e)) eqn:G.
    + destruct (e_q e =? 0) eqn:Q.
      * apply Z.eqb_eq in Q. split; [|assumption].
        intros x [<-|Hx]; [unfold clean; rewrite Q; cbn [Z.eqb negb]; split; [apply andb_false_r|reflexivity]|].
        assert (e_q x = 0) as Qx.
        { destruct Hd as [Hd _]. specialize (Hd x Hx). specialize (Hw x (or_intror Hx)). lia. }
        split; [|intros _; assumption].
        rewrite Qx. cbn [Z.eqb negb]. apply andb_false_r.
      * destruct (mime_eligible ct mts); discriminate.
    + destruct (IH (desc_tail _ _ Hd) (fun x Hx => Hw x (or_intror Hx)) H) as [Hc Hf].
      split; [|assumption].
      intros x [<-|Hx]; [split; [assumption|congruence]|now apply Hc].
Qed.

Lemma falloff_406 all :
  falloff true all = G406 <-> identity_refused all = true /\ star_pos all = false.
Proof.
  unfold falloff. destruct (identity_refused all), (star_pos all); cbn [andb negb];
    split; try discriminate; try tauto; intros [? ?]; discriminate.
Qed.

Lemma identity_refused_iff els : identity_refused els = true <-> identity_refused_by els.
Proof.
  unfold identity_refused, identity_refused_by. rewrite existsb_exists.
  split; intros (e & He & H); exists e; (split; [assumption|]).
  - apply andb_true_iff in H. destruct H as [H Q]. apply Z.eqb_eq in Q.
    apply orb_true_iff in H. split; [|assumption].
    destruct H as [H|H]; apply eqbZs_eq in H; auto.
  - destruct H as [H Q]. rewrite Q. cbn [Z.eqb]. rewrite andb_true_r. apply orb_true_iff.
    destruct H as [H|H]; rewrite H; [left|right]; apply eqbZs_refl.
Qed.

Lemma star_pos_false_iff els : WFq els -> (star_pos els = false <-> ~ star_listed_pos els).
Proof.
  intros Hw. unfold star_pos, star_listed_pos. split.
  - intros H (e & He & Hv & Hq).
    assert (existsb (fun e => eqbZs (e_val e) s_star && negb (e_q e =? 0)) els = true) as C.
    { apply existsb_exists. exists e. split; [assumption|]. rewrite Hv, eqbZs_refl.
      destruct (e_q e =? 0) eqn:Q; [apply Z.eqb_eq in Q; lia|reflexivity]. }
    congruence.
  - intros H. destruct (existsb _ els) eqn:E; [|reflexivity]. exfalso. apply H.
    apply existsb_exists in E. destruct E as (e & He & E). apply andb_true_iff in E.
    destruct E as [Ev Eq]. apply eqbZs_eq in Ev. exists e. repeat split; try assumption.
    destruct (e_q e =? 0) eqn:Q; [discriminate|]. apply Z.eqb_neq in Q. specialize (Hw e He). lia.
Qed.

Lemma all_clean_iff els : WFq els ->
  ((forall x, In x els -> clean x) <-> ~ identity_listed_pos els /\ ~ gzip_listed_pos els).
Proof.
  intros Hw. split.
  - intros H. split.
    + intros (e & He & Hv & Hq). destruct (H e He) as [H1 _].
      rewrite Hv, eqbZs_refl in H1. destruct (e_q e =? 0) eqn:Q; [apply Z.eqb_eq in Q; lia|discriminate].
    + intros (e & He & Hv & Hq). destruct (H e He) as [_ H2]. specialize (H2 Hv). lia.
  - intros [Hi Hg] x Hx. split.
    + destruct (eqbZs (e_val x) s_identity) eqn:Ev; [|reflexivity].
      destruct (e_q x =? 0) eqn:Q; [reflexivity|]. exfalso. apply Hi.
      apply eqbZs_eq in Ev. apply Z.eqb_neq in Q. specialize (Hw x Hx).
      exists x. repeat split; try assumption. lia.
    + intros G. specialize (Hw x Hx).
      destruct (Z.eq_dec (e_q x) 0) as [Q|Q]; [assumption|]. exfalso. apply Hg.
      exists x. repeat split; try assumption. lia.
Qed.

(** transport of "exists e in ..." through the sort *)
Lemma ex_order (P : elem -> Prop) els :
  (exists e, In e (header_order els) /\ P e) <-> (exists e, In e els /\ P e).
Proof. split; intros (e & He & H); exists e; (split; [now apply header_order_In|assumption]). Qed.

(** 406 <-> nothing acceptable: neither gzip, nor a wildcard, nor identity has
    q > 0, and identity is refused by identity;q=0 or *;q=0 *)
Lemma thm_gzip_406 falsy cached els ctv mts :
  WFq els ->
  (gzip_tool true falsy cached (Some els) ctv mts = G406 <->
   falsy = false /\ cached = false /\
   ~ gzip_listed_pos els /\ ~ star_listed_pos els /\ ~ identity_listed_pos els /\ identity_refused_by els).
Proof.
  intros Hw. unfold gzip_tool.
  destruct falsy; [split; [discriminate|intros (? & _); discriminate]|].
  destruct cached; [split; [discriminate|intros (_ & ? & _); discriminate]|].
  pose proof (header_order_desc els) as Hd. pose proof (WFq_order els Hw) as Hwo.
  assert (forall P, (exists e, In e (header_order els) /\ P e) <-> (exists e, In e els /\ P e)) as T
    by (intros P; apply ex_order).
  destruct (header_order els) as [|h t] eqn:Eo.
  - split; [discriminate|]. intros (_ & _ & _ & _ & _ & (e & He & _)).
    exfalso. assert (In e (header_order els)) as C by now apply header_order_In.
    rewrite Eo in C. destruct C.
  - set (ct := hd [] (split_on 59 ctv)). split.
    + intros H. apply loop_406 in H; [|assumption|assumption]. destruct H as [Hc Hf].
      apply falloff_406 in Hf. destruct Hf as [Hr Hs].
      apply identity_refused_iff in Hr. apply (star_pos_false_iff _ Hwo) in Hs.
      apply (all_clean_iff _ Hwo) in Hc. destruct Hc as [Hi Hg].
      unfold gzip_listed_pos, star_listed_pos, identity_listed_pos, identity_refused_by in *.
      rewrite T in Hr, Hs, Hi, Hg. tauto.
    + intros (_ & _ & Hg & Hs & Hi & Hr).
      unfold gzip_listed_pos, star_listed_pos, identity_listed_pos, identity_refused_by in *.
      rewrite <- T in Hr, Hs, Hi, Hg.
      rewrite loop_clean.
      * apply falloff_406. split; [now apply identity_refused_iff | now apply (star_pos_false_iff _ Hwo)].
      * apply (all_clean_iff _ Hwo). split; assumption.
Qed.

(** compress => gzip or x-gzip is listed with q > 0 and the media type is eligible *)
Lemma loop_compress rep all ct mts l :
  WFq l -> gz_loop_dec rep all ct mts l = GCompress ->
  (exists e, In e l /\ is_gzip (e_val e) = true /\ 0 < e_q e) /\ mime_eligible ct mts = TYes.
Proof.
  induction l as [|e r IH]; intros Hw H; cbn [gz_loop_dec] in H.
  - unfold falloff in H. destruct rep; [destruct (_ && _)|]; discriminate.
  - destruct (eqbZs (e_val e) s_identity && negb (e_q e =? 0)); [discriminate|].
    destruct (is_gzip (e_val e)) eqn:G.
    + destruct (e_q e =? 0) eqn:Q.
      * unfold falloff in H. destruct rep; [destruct (_ && _)|]; discriminate.
      * apply Z.eqb_neq in Q. pose proof (Hw e (or_introl eq_refl)).
        destruct (mime_eligible ct mts) eqn:M; try discriminate.
        split; [|reflexivity]. exists e. repeat split; [now left|assumption|lia].
    + destruct (IH (fun x Hx => Hw x (or_intror Hx)) H) as [(x & Hx & Hg & Hq) Hm].
      split; [|assumption]. exists x. repeat split; [now right|assumption|assumption].
Qed.

Lemma thm_gzip_compress rep falsy cached ae ctv mts :
  (forall els, ae = Some els -> WFq els) ->
  gzip_tool rep falsy cached ae ctv mts = GCompress ->
  falsy = false /\ cached = false /\
  exists els, ae = Some els /\ gzip_listed_pos els
              /\ mime_eligible (hd [] (split_on 59 ctv)) mts = TYes.
Proof.
  intros Hw H. unfold gzip_tool in H.
  destruct falsy; [discriminate|]. destruct cached; [discriminate|].
  destruct ae as [els|]; [|discriminate]. specialize (Hw els eq_refl).
  pose proof (WFq_order els Hw) as Hwo.
  destruct (header_order els) as [|h t] eqn:Eo; [discriminate|].
  apply loop_compress in H; [|assumption]. destruct H as [(e & He & Hg & Hq) Hm].
  repeat split. exists els. repeat split; [|assumption].
  exists e. repeat split; try assumption. apply header_order_In. now rewrite Eo.
Qed.

(** a ValueError can only come out of the mime-type test, i.e. behind a gzip entry with q > 0 *)
Lemma loop_valueerror rep all ct mts l :
  WFq l -> gz_loop_dec rep all ct mts l = GValueError ->
  exists e, In e l /\ is_gzip (e_val e) = true /\ 0 < e_q e.
Proof.
  induction l as [|e r IH]; intros Hw H; cbn [gz_loop_dec] in H.
  - unfold falloff in H. destruct rep; [destruct (_ && _)|]; discriminate.
  - destruct (eqbZs (e_val e) s_identity && negb (e_q e =? 0)); [discriminate|].
    destruct (is_gzip (e_val e)) eqn:G.
    + destruct (e_q e =? 0) eqn:Q.
      * unfold falloff in H. destruct rep; [destruct (_ && _)|]; discriminate.
      * apply Z.eqb_neq in Q. pose proof (Hw e (or_introl eq_refl)).
        exists e. repeat split; [now left|assumption|lia].
    + destruct (IH (fun x Hx => Hw x (or_intror Hx)) H) as (x & Hx & Hg & Hq).
      exists x. repeat split; [now right|assumption|assumption].
Qed.

(** untouched: when no gzip coding is listed with q > 0 and identity is not
    refused, the answer is 200 and the body is not replaced *)
Lemma thm_identity_untouched falsy cached ae ctv mts d :
  (forall els, ae = Some els -> WFq els /\ ~ gzip_listed_pos els /\
                                (~ identity_refused_by els \/ star_listed_pos els \/ identity_listed_pos els)) ->
  gzip_tool true falsy cached ae ctv mts = d ->
  gz_status d = 200 /\ gz_compresses d = false.
Proof.
  intros Hae H.
  assert (d <> GCompress) as N1.
  { intros ->. apply thm_gzip_compress in H.
    - destruct H as (_ & _ & els & E & Hg & _). destruct (Hae els E) as (_ & Hn & _). contradiction.
    - intros els E. now destruct (Hae els E). }
  assert (d <> G406) as N2.
  { intros ->. destruct ae as [els|].
    - destruct (Hae els eq_refl) as (Hw & _ & Hor).
      apply (thm_gzip_406 _ _ _ _ _ Hw) in H. tauto.
    - unfold gzip_tool in H. destruct falsy; [discriminate|]. destruct cached; discriminate. }
  assert (d <> GValueError) as N3.
  { intros ->. unfold gzip_tool in H. destruct falsy; [discriminate|]. destruct cached; [discriminate|].
    destruct ae as [els|]; [|discriminate]. destruct (Hae els eq_refl) as (Hw & Hn & _).
    destruct (header_order els) as [|h t] eqn:Eo; [discriminate|].
    apply loop_valueerror in H.
    - destruct H as (e & He & Hg & Hq). apply Hn. exists e. repeat split; try assumption.
      apply header_order_In. now rewrite Eo.
    - rewrite <- Eo. now apply WFq_order. }
  destruct d; cbn [gz_status gz_compresses]; try (split; reflexivity); congruence.
Qed.

(** no Accept-Encoding header, an empty body or a cached response: untouched *)
Lemma thm_skip rep falsy cached ae ctv mts :
  falsy = true \/ cached = true \/ ae = None \/ ae = Some [] ->
  let d := gzip_tool rep falsy cached ae ctv mts in gz_status d = 200 /\ gz_compresses d = false.
Proof.
  intros H d. subst d. unfold gzip_tool.
  destruct falsy; [split; reflexivity|]. destruct cached; [split; reflexivity|].
  destruct H as [H|[H|[->| ->]]]; try discriminate; split; reflexivity.
Qed.

(** Vary always names Accept-Encoding afterwards, and keeps what was there *)
Lemma set_vary_spec tokens name :
  In name (set_vary tokens name) /\ (forall t, In t tokens -> In t (set_vary tokens name)).
Proof.
  unfold set_vary. destruct (mem name tokens) eqn:M.
  - apply mem_In in M. split; auto.
  - split; [apply in_or_app; right; now left | intros t Ht; apply in_or_app; now left].
Qed.

(* ---------- examples ---------- *)

Definition el (v : list Z) (q : Z) : elem := Elem v q v.
Definition s_text_plain : list Z := [116;101;120;116;47;112;108;97;105;110].
Definition s_deflate : list Z := [100;101;102;108;97;116;101].

Lemma ex_gzip_decision :
  let els := [el s_identity 0; el s_deflate 500; el s_star 0] in
  WFq els /\ gzip_tool true false false (Some els) s_text_plain [s_text_plain] = G406
  /\ gzip_tool true false false (Some [el s_deflate 1000]) s_text_plain [s_text_plain] = GNotRefused
  /\ gzip_tool true false false (Some [el s_gzip 300; el s_identity 200]) s_text_plain [[116;101;120;116;47;42]] = GCompress.
Proof.
  split; [|vm_compute; auto].
  intros e [<-|[<-|[<-|[]]]]; cbn [el e_q]; lia.
Qed.
