(** Property-level consequences for the request pipeline, decided by running the verified
    symbolic executor / counting analysis on the skeletons (C01, C09). *)
From Coq Require Import ZArith List Bool Lia.
Import ListNotations.
From CV Require Import Model.M_flow Model.M_pipeline Model.M_aflow Proof.P_aflow Proof.P_cnt.
Open Scope Z_scope.

Definition sess_fuel : nat := 400.

(** computed once, by the kernel's VM *)
Definition R_f_sig : { R | aexec prog pparam false false sess_fuel Skip server_session (alpha init_state) = R }.
Proof. eexists. vm_compute. reflexivity. Defined.
Definition R_t_sig : { R | aexec prog pparam true false sess_fuel Skip server_session (alpha init_state) = R }.
Proof. eexists. vm_compute. reflexivity. Defined.
Definition R_of (showtb : bool) := if showtb then proj1_sig R_t_sig else proj1_sig R_f_sig.

Definition getf (r : outcome * astate) : fin := fst (fst (fst (snd r))).

Definition all_results (P : outcome * astate -> bool) (showtb : bool) : bool :=
  match R_of showtb with Some R => forallb P R | None => false end.

(** every terminating run of a server session is among the computed results *)
Lemma session_in_results E fuel o st' :
  env_ok E -> p_throw E = false ->
  run_flow E fuel server_session init_state = (o, st') -> o <> OutOfFuel ->
  forall P, all_results P (p_showtb E) = true -> P (o, alpha st') = true.
Proof.
  intros Hok Hth H Hne P HP. unfold all_results in HP.
  assert (Hinv : Inv init_state) by (unfold Inv; cbn; lia).
  pose proof (aexec_sound prog pparam E Hok fuel Skip server_session init_state o st' Hinv H Hne sess_fuel) as Hs.
  rewrite Hth in Hs. clear H Hok.
  destruct (p_showtb E); unfold R_of in HP.
  - destruct (proj1_sig R_t_sig) as [R|] eqn:HR; [|discriminate].
    rewrite forallb_forall in HP. apply HP. apply Hs. rewrite <- HR. exact (proj2_sig R_t_sig).
  - destruct (proj1_sig R_f_sig) as [R|] eqn:HR; [|discriminate].
    rewrite forallb_forall in HP. apply HP. apply Hs. rewrite <- HR. exact (proj2_sig R_f_sig).
Qed.

Definition ok_outcome (o : outcome) : bool :=
  match o with
  | Normal | Raised XKeyboardInterrupt | Raised XSystemExit | Raised XFromServer => true
  | _ => false
  end.

Lemma chk_no_escape b : all_results (fun r => ok_outcome (fst r)) b = true.
Proof. destruct b; vm_compute; reflexivity. Qed.

Definition one_response (r : outcome * astate) : bool :=
  let f := getf r in
  (sr_plain f <=? 1)
  && (match fst r with Normal => (1 <=? sr_plain f) || sr_exc f | _ => true end)
  && ((sr_plain f =? 0) && negb (sr_exc f)
      || (out_status f =? 2) || (out_status f =? 3) || (out_status f =? 4) || (out_status f =? 5)).

Lemma chk_one_response b : all_results one_response b = true.
Proof. destruct b; vm_compute; reflexivity. Qed.

Definition unexpected_5xx (r : outcome * astate) : bool :=
  let f := getf r in
  match fst r with
  | Normal => negb (unexp f) || redir_in_error f || (out_status f =? 5)
  | _ => true
  end.

Lemma chk_unexpected_5xx b : all_results unexpected_5xx b = true.
Proof. destruct b; vm_compute; reflexivity. Qed.

Definition no_leak (r : outcome * astate) : bool :=
  let f := getf r in negb (out_taint f) || trap_outside f.

Lemma chk_no_leak : all_results no_leak false = true.
Proof. vm_compute; reflexivity. Qed.

Lemma thm_no_escape E fuel o st' :
  env_ok E -> p_throw E = false ->
  run_flow E fuel server_session init_state = (o, st') -> o <> OutOfFuel ->
  o = Normal \/ o = Raised XKeyboardInterrupt \/ o = Raised XSystemExit \/ o = Raised XFromServer.
Proof.
  intros Hok Hth H Hne.
  pose proof (session_in_results E fuel o st' Hok Hth H Hne _ (chk_no_escape _)) as Hc. cbn [fst] in Hc.
  destruct o as [| |e|]; try discriminate; try tauto. destruct e; try discriminate; tauto.
Qed.

Lemma thm_one_response E fuel o st' :
  env_ok E -> p_throw E = false ->
  run_flow E fuel server_session init_state = (o, st') -> o <> OutOfFuel ->
  let f := sfin st' in
  sr_plain f <= 1
  /\ (o = Normal -> 1 <= sr_plain f \/ sr_exc f = true)
  /\ (1 <= sr_plain f \/ sr_exc f = true -> 2 <= out_status f <= 5).
Proof.
  intros Hok Hth H Hne.
  pose proof (session_in_results E fuel o st' Hok Hth H Hne _ (chk_one_response _)) as Hc.
  unfold one_response, getf, alpha in Hc. cbn [fst snd] in Hc.
  apply andb_prop in Hc. destruct Hc as [Hc H3]. apply andb_prop in Hc. destruct Hc as [H1 H2].
  apply Z.leb_le in H1. cbv zeta. split; [exact H1|]. split.
  - intros ->. apply orb_prop in H2. destruct H2 as [H2|H2]; [left; now apply Z.leb_le | right; exact H2].
  - intros Hcalled.
    repeat (apply orb_prop in H3; destruct H3 as [H3|H3]); try (apply Z.eqb_eq in H3; lia).
    apply andb_prop in H3. destruct H3 as [Ha Hb]. apply Z.eqb_eq in Ha. apply negb_true_iff in Hb.
    destruct Hcalled as [Hx|Hx]; [lia | congruence].
Qed.

Lemma thm_unexpected_5xx E fuel st' :
  env_ok E -> p_throw E = false ->
  run_flow E fuel server_session init_state = (Normal, st') ->
  unexp (sfin st') = true -> redir_in_error (sfin st') = false -> out_status (sfin st') = 5.
Proof.
  intros Hok Hth H Hu Hr.
  pose proof (session_in_results E fuel Normal st' Hok Hth H ltac:(discriminate) _ (chk_unexpected_5xx _)) as Hc.
  unfold unexpected_5xx, getf, alpha in Hc. cbn [fst snd] in Hc. rewrite Hu, Hr in Hc. cbn in Hc.
  now apply Z.eqb_eq.
Qed.

Lemma thm_no_leak E fuel o st' :
  env_ok E -> p_throw E = false -> p_showtb E = false ->
  run_flow E fuel server_session init_state = (o, st') -> o <> OutOfFuel ->
  out_taint (sfin st') = true -> trap_outside (sfin st') = true.
Proof.
  intros Hok Hth Hsh H Hne Ht.
  pose proof (session_in_results E fuel o st' Hok Hth H Hne no_leak) as Hc. rewrite Hsh in Hc.
  specialize (Hc chk_no_leak). unfold no_leak, getf, alpha in Hc. cbn [fst snd] in Hc. rewrite Ht in Hc.
  exact Hc.
Qed.

(** ---- C09: on_end_resource runs exactly once per respond(), whatever happens ---- *)

Lemma chk_end_resource : cnt prog pparam 20 (RunHooks OnEndResource) Skip (Call F_respond) = Some (1, 1)%nat.
Proof. vm_compute. reflexivity. Qed.

Lemma thm_end_resource_once E fuel st o st' :
  run_flow E fuel (Call F_respond) st = (o, st') -> o <> OutOfFuel ->
  count (RunHooks OnEndResource) (journal st') = S (count (RunHooks OnEndResource) (journal st)).
Proof.
  intros H Hne.
  pose proof (cnt_sound prog pparam E (RunHooks OnEndResource) fuel 20 Skip (Call F_respond) st o st' H Hne
                        1%nat 1%nat chk_end_resource) as Hw. lia.
Qed.

(** how often each hook point can run in one Request.run (the documented order): the main-line points
    at most once, before_finalize at most twice (again on the HTTPError/HTTPRedirect path), the error
    points at most once, on_end_resource at most once - exactly once as soon as respond() is entered
    (above) -, on_end_request never (it belongs to close()) *)
Definition hook_table (f : fname) : list (option (nat * nat)) :=
  map (fun p => cnt prog pparam 80 (RunHooks p) Skip (Call f))
      [OnStartResource; BeforeRequestBody; BeforeHandler; BeforeFinalize;
       OnEndResource; OnEndRequest; BeforeErrorResponse; AfterErrorResponse].

Lemma chk_hook_table_run :
  hook_table F_request_run =
  [Some (0, 1); Some (0, 1); Some (0, 1); Some (0, 2); Some (0, 1); Some (0, 0); Some (0, 1); Some (0, 1)]%nat.
Proof. vm_compute. reflexivity. Qed.

Lemma chk_hook_table_respond :
  hook_table F_respond =
  [Some (0, 1); Some (0, 1); Some (0, 1); Some (0, 2); Some (1, 1); Some (0, 0); Some (0, 1); Some (0, 1)]%nat.
Proof. vm_compute. reflexivity. Qed.

Lemma chk_close_once : cnt prog pparam 80 (RunHooks OnEndRequest) Skip (Call F_appresponse_close) = Some (0, 1)%nat.
Proof. vm_compute. reflexivity. Qed.

Lemma thm_hook_bounds E fuel f st o st' p n lo hi :
  run_flow E fuel (Call f) st = (o, st') -> o <> OutOfFuel ->
  nth_error [OnStartResource; BeforeRequestBody; BeforeHandler; BeforeFinalize;
             OnEndResource; OnEndRequest; BeforeErrorResponse; AfterErrorResponse] n = Some p ->
  nth_error (hook_table f) n = Some (Some (lo, hi)) ->
  (count (RunHooks p) (journal st) + lo <= count (RunHooks p) (journal st')
   <= count (RunHooks p) (journal st) + hi)%nat.
Proof.
  intros H Hne Hp Ht. unfold hook_table in Ht.
  rewrite nth_error_map, Hp in Ht. cbn [option_map] in Ht. apply Some_inj in Ht.
  exact (cnt_sound prog pparam E (RunHooks p) fuel 80 Skip (Call f) st o st' H Hne lo hi Ht).
Qed.

(** ---- C09: on_end_request at most once per request object, in every execution ---- *)
From CV Require Import Proof.P_endreq.

Lemma prog_safe : forall g, safe (prog g) = true.
Proof. intros g; destruct g; vm_compute; reflexivity. Qed.
Lemma pparam_safe : forall g, safe (pparam g) = true.
Proof. intros g; destruct g; vm_compute; reflexivity. Qed.
Lemma session_safe : safe server_session = true.
Proof. vm_compute; reflexivity. Qed.

Lemma thm_end_request_at_most_once E fuel o st' r :
  run_flow E fuel server_session init_state = (o, st') ->
  (countr r (journal st') <= 1)%nat.
Proof.
  intros H.
  assert (HJ0 : J init_state) by (intros q; cbn; lia).
  pose proof (J_preserved prog pparam E prog_safe pparam_safe fuel Skip server_session init_state o st' eq_refl session_safe HJ0 H r) as HJ.
  destruct (memZ r (closed (sid st'))); lia.
Qed.

(** ... and it is only ever run by close(): never inside Request.run *)
Lemma thm_end_request_not_in_run E fuel st o st' :
  run_flow E fuel (Call F_request_run) st = (o, st') -> o <> OutOfFuel ->
  count (RunHooks OnEndRequest) (journal st') = count (RunHooks OnEndRequest) (journal st).
Proof.
  intros H Hne.
  assert (Hc : cnt prog pparam 80 (RunHooks OnEndRequest) Skip (Call F_request_run) = Some (0, 0)%nat)
    by (vm_compute; reflexivity).
  pose proof (cnt_sound prog pparam E (RunHooks OnEndRequest) fuel 80 Skip (Call F_request_run) st o st' H Hne _ _ Hc). lia.
Qed.

(** ---- C01: the trapper leaks a traceback when the failure happens outside a request (refutation witness) ---- *)
Definition leak_env : env :=
  Env (fun _ a => match a with Handler => Some XInternalRedirect
                             | NextChunk | ServerCloseAgain => Some XStopIteration | _ => None end)
      (fun _ f => match f with
                  | FHandlerSet | FVisitedBefore | FStatusIsBytes | FHeaderKeyIsBytes | FHeaderValIsBytes => true
                  | _ => false
                  end)
      false false.

Lemma leak_env_ok : env_ok leak_env.
Proof. intros t a e H. destruct a; cbn in H; try discriminate; inversion H; subst; cbn; tauto. Qed.

Lemma leak_witness :
  exists st', run_flow leak_env 200 server_session init_state = (Normal, st')
              /\ out_taint (sfin st') = true /\ out_status (sfin st') = 5 /\ trap_outside (sfin st') = true.
Proof. eexists. split; [vm_compute; reflexivity|]. repeat split. Qed.
