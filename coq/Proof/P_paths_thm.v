(** C11 for the model: every path staticdir / staticfile / FileSession hand to
    the file system resolves inside the configured root when the guards
    compare on a separator boundary ([strict = true]). *)
From Coq Require Import ZArith List Bool Lia.
From CV Require Import Lib.Sx Lib.ListZ Model.M_paths Proof.P_paths.
Import ListNotations.
Open Scope Z_scope.

Lemma SegPrefix_trans a b c : SegPrefix a b -> SegPrefix b c -> SegPrefix a c.
Proof. intros [r ->] [r' ->]. exists (r ++ r'). now rewrite app_assoc. Qed.

(** all calls of a result are on paths resolving under [root] *)
Definition OpsIn (root : list str) (ops : list op) : Prop :=
  forall k p, In (k, p) ops -> SegPrefix root (resolve p).

Lemma OpsIn_nil root : OpsIn root [].
Proof. intros k p []. Qed.

Lemma OpsIn_app root a b : OpsIn root a -> OpsIn root b -> OpsIn root (a ++ b).
Proof. intros Ha Hb k p H. apply in_app_or in H as [H|H]; eauto. Qed.

Lemma OpsIn_one root k p : SegPrefix root (resolve p) -> OpsIn root [(k, p)].
Proof. intros H k' p' [E|[]]. now inversion E; subst. Qed.

Lemma OpsIn_cons root k p l : SegPrefix root (resolve p) -> OpsIn root l -> OpsIn root ((k, p) :: l).
Proof. intros H Hl. apply (OpsIn_app root [(k, p)] l); [now apply OpsIn_one|assumption]. Qed.

(* ---------- static ---------- *)

Lemma attempt_ops fs f h ops : attempt fs f = (h, ops) -> forall k p, In (k, p) ops -> p = f.
Proof.
  unfold attempt. intro H. destruct (kstat fs f); inversion H; subst; cbn;
    intros k p K; repeat (destruct K as [K|K]; [now inversion K|]); contradiction.
Qed.

Lemma attempt_OpsIn root fs f h ops :
  attempt fs f = (h, ops) -> SegPrefix root (resolve f) -> OpsIn root ops.
Proof. intros H Hf k p K. now rewrite (attempt_ops _ _ _ _ H k p K). Qed.

Theorem thm_static_contained :
  forall section path_info dir root index fs tag st ops d,
    safe_rel index = true ->
    staticdir true section path_info dir root index fs = (tag, st, ops) ->
    eff_dir dir root = Some d ->
    OpsIn (segments (normpath d)) ops.
Proof.
  intros section pi dir root index fs tag st ops d Hidx H Hd.
  unfold staticdir in H. rewrite Hd in H.
  set (filename := join2 d (branch_of section pi)) in *.
  destruct (guard_static true filename d) eqn:G; cbn [negb] in H;
    [|inversion H; apply OpsIn_nil].
  destruct (isabs filename) eqn:A; cbn [negb] in H; [|inversion H; apply OpsIn_nil].
  assert (Hf : SegPrefix (segments (normpath d)) (resolve filename)).
  { rewrite <- (segments_normpath_abs filename A). now apply guard_static_strict_sound. }
  destruct (attempt fs filename) as [h ops1] eqn:E1.
  pose proof (attempt_OpsIn _ _ _ _ _ E1 Hf) as O1.
  destruct h; [now inversion H; subst|].
  destruct (is_nil index); [now inversion H; subst|].
  destruct (isabs (join2 filename index)) eqn:A2; cbn [negb] in H; [|now inversion H; subst].
  destruct (attempt fs (join2 filename index)) as [h2 ops2] eqn:E2.
  assert (Hne : filename <> []) by (intro K; rewrite K in A; discriminate).
  assert (Hfi : SegPrefix (segments (normpath d)) (resolve (join2 filename index))).
  { eapply SegPrefix_trans; [exact Hf|]. now apply resolve_join_safe. }
  pose proof (attempt_OpsIn _ _ _ _ _ E2 Hfi) as O2.
  destruct h2; inversion H; subst; now apply OpsIn_app.
Qed.

(** a request whose file name resolves outside is refused with 403 before
    any file-system call *)
Theorem thm_static_refuses :
  forall section path_info dir root index fs d,
    eff_dir dir root = Some d ->
    isabs (join2 d (branch_of section path_info)) = true ->
    ~ SegPrefix (segments (normpath d)) (resolve (join2 d (branch_of section path_info))) ->
    staticdir true section path_info dir root index fs = (4, 403, []).
Proof.
  intros section pi dir root index fs d Hd A Hout.
  unfold staticdir. rewrite Hd.
  destruct (guard_static true (join2 d (branch_of section pi)) d) eqn:G; [|reflexivity].
  exfalso. apply Hout. rewrite <- (segments_normpath_abs _ A).
  now apply guard_static_strict_sound.
Qed.

(** the string-prefix guard the code had is implied by the repaired one:
    the repair only refuses more *)
Lemma guard_static_strict_stronger f d :
  guard_static true f d = true -> guard_static false f d = true.
Proof.
  unfold guard_static. intro H. apply orb_true_iff in H as [H|H].
  - apply eqbZs_true in H. rewrite H. rewrite <- (app_nil_r (normpath d)) at 1.
    apply startswith_app.
  - revert H. unfold join2. cbn [isabs].
    destruct (normpath d) as [|c nd] eqn:E; [now destruct (normpath_nonnil d)|].
    cbn [is_nil orb]. destruct (ends_slash (c :: nd)); intro H.
    + now rewrite app_nil_r in H.
    + apply startswith_spec in H as [r ->]. rewrite <- app_assoc. apply startswith_app.
Qed.

Theorem thm_staticfile_fixed : forall filename root fs tag st ops f,
  staticfile filename root fs = (tag, st, ops) ->
  (if isabs filename then Some filename
   else if is_nil root then None else Some (join2 root filename)) = Some f ->
  forall k p, In (k, p) ops -> p = f.
Proof.
  intros filename root fs tag st ops f H Hf. unfold staticfile in H. rewrite Hf in H.
  destruct (isabs f); cbn [negb] in H; [|inversion H; intros k p []].
  destruct (attempt fs f) as [h o] eqn:E. pose proof (attempt_ops _ _ _ _ E) as K.
  destruct h; inversion H; subst; exact K.
Qed.

(* ---------- sessions ---------- *)

Lemma s_lock_slashfree : slashfree s_lock.
Proof. unfold slashfree, s_lock. cbn. intuition discriminate. Qed.

Lemma s_lock_longish : longish s_lock.
Proof. unfold longish, s_lock. cbn. lia. Qed.

Lemma abspath_abs cwd p : isabs cwd = true -> isabs (abspath cwd p) = true.
Proof.
  intro H. unfold abspath. apply normpath_abs_isabs.
  destruct (isabs p) eqn:E; [assumption|now apply join2_abs].
Qed.

(** a path accepted by the repaired _get_file_path, and its lock file,
    resolve inside the storage directory *)
Lemma get_file_path_inside cwd sp id f :
  isabs sp = true ->
  get_file_path true cwd sp id = Some f ->
  SegPrefix (segments sp) (resolve f) /\ SegPrefix (segments sp) (resolve (f ++ s_lock)).
Proof.
  intros Hsp H. unfold get_file_path in H.
  destruct (guard_sess true cwd sp (sess_file sp id)) eqn:G; [|discriminate].
  inversion H; subst f. clear H.
  assert (A : isabs (sess_file sp id) = true) by (unfold sess_file; now apply join2_abs).
  unfold guard_sess, abspath in G. rewrite A in G.
  assert (Hne : sp <> []) by (intro K; rewrite K in Hsp; discriminate).
  destruct (guard_prefix_strict sp _ Hne A G) as (r & E & Hs).
  split.
  - now exists r.
  - eapply resolve_suffix_inside; eauto using s_lock_slashfree, s_lock_longish.
Qed.

Lemma exists_call_OpsIn root fs f ex eops :
  exists_call fs f = (ex, eops) -> SegPrefix root (resolve f) -> OpsIn root eops.
Proof.
  unfold exists_call. intros H Hf. destruct (endswith f s_lock); inversion H; subst;
    [apply OpsIn_nil | now apply OpsIn_one].
Qed.

Lemma fresh_id_inside cwd sp fs : isabs sp = true -> forall gens acc g f rest ops,
  OpsIn (segments sp) acc ->
  fresh_id true cwd sp fs gens acc = Some (Some (g, f, rest, ops)) ->
  OpsIn (segments sp) ops /\ SegPrefix (segments sp) (resolve f)
  /\ SegPrefix (segments sp) (resolve (f ++ s_lock)).
Proof.
  intro Hsp. induction gens as [|g0 gens IH]; intros acc g f rest ops Hacc H; [discriminate|].
  cbn [fresh_id] in H. destruct (get_file_path true cwd sp g0) as [f0|] eqn:E; [|discriminate].
  destruct (get_file_path_inside _ _ _ _ Hsp E) as [I1 I2].
  destruct (exists_call fs f0) as [ex eops] eqn:X.
  assert (Hacc' : OpsIn (segments sp) (acc ++ eops))
    by (apply OpsIn_app; [assumption|eapply exists_call_OpsIn; eauto]).
  destruct ex.
  - eapply IH; eauto.
  - inversion H; subst. auto.
Qed.

Theorem thm_session_contained :
  forall cwd sp_cfg id action gens fs tag st ops,
    isabs cwd = true ->
    sess_request true cwd sp_cfg id action gens fs = (tag, st, ops) ->
    OpsIn (segments (abspath cwd sp_cfg)) ops.
Proof.
  intros cwd sp_cfg id action gens fs tag st ops Hcwd H.
  unfold sess_request in H. set (sp := abspath cwd sp_cfg) in *.
  assert (Hsp : isabs sp = true) by now apply abspath_abs.
  match type of H with (match ?s with _ => _ end) = _ => destruct s as [t|[[[[tg cur] f] rest] ops0]] eqn:Es end.
  - inversion H. apply OpsIn_nil.
  - assert (Inv : OpsIn (segments sp) ops0 /\ SegPrefix (segments sp) (resolve f)
                  /\ SegPrefix (segments sp) (resolve (f ++ s_lock))).
    { destruct id as [i|].
      - destruct (get_file_path true cwd sp i) as [f0|] eqn:E; [|discriminate].
        destruct (get_file_path_inside _ _ _ _ Hsp E) as [I1 I2].
        destruct (exists_call fs f0) as [ex eops] eqn:X.
        pose proof (exists_call_OpsIn _ _ _ _ _ X I1) as OX.
        destruct ex.
        + inversion Es; subst. split; [assumption|auto].
        + destruct (fresh_id true cwd sp fs gens eops) as [[[[[g f'] rest'] ops']|]|] eqn:F;
            try discriminate.
          inversion Es; subst. eapply fresh_id_inside; eauto.
      - destruct (fresh_id true cwd sp fs gens []) as [[[[[g f'] rest'] ops']|]|] eqn:F;
          try discriminate.
        inversion Es; subst. eapply fresh_id_inside; eauto. apply OpsIn_nil. }
    destruct Inv as (O0 & If & Il).
    assert (O1 : OpsIn (segments sp) (ops0 ++ [(4, f ++ s_lock)]))
      by (apply OpsIn_app; [assumption|now apply OpsIn_one]).
    destruct (action =? 1).
    { assert (O2 : OpsIn (segments sp) ((ops0 ++ [(4, f ++ s_lock)]) ++ [(1, f); (2, f)])).
      { apply OpsIn_app; [assumption|]. apply OpsIn_cons; [assumption|now apply OpsIn_one]. }
      destruct (kisdir fs f); inversion H; subst; exact O2. }
    destruct (action =? 2).
    { inversion H; subst. apply OpsIn_app; [assumption|now apply OpsIn_one]. }
    destruct (action =? 3); [|inversion H; subst; exact O1].
    assert (O3 : OpsIn (segments sp) ((ops0 ++ [(4, f ++ s_lock)]) ++ [(3, f)]))
      by (apply OpsIn_app; [assumption|now apply OpsIn_one]).
    destruct (fresh_id true cwd sp fs rest ((ops0 ++ [(4, f ++ s_lock)]) ++ [(3, f)]))
      as [[[[[g f'] rest'] ops']|]|] eqn:F; try (inversion H; subst; exact O3).
    destruct (fresh_id_inside cwd sp fs Hsp _ _ _ _ _ _ O3 F) as (Oa & _ & Ib).
    inversion H; subst. apply OpsIn_app; [assumption|now apply OpsIn_one].
Qed.

(** an id whose file would resolve outside (or onto) the storage directory is
    answered 400 and nothing is touched *)
Theorem thm_session_refuses :
  forall cwd sp_cfg i action gens fs,
    isabs cwd = true ->
    ~ SegPrefix (segments (abspath cwd sp_cfg))
                (resolve (sess_file (abspath cwd sp_cfg) i)) ->
    sess_request true cwd sp_cfg (Some i) action gens fs = (13, 400, []).
Proof.
  intros cwd sp_cfg i action gens fs Hcwd Hout. unfold sess_request.
  set (sp := abspath cwd sp_cfg) in *.
  destruct (get_file_path true cwd sp i) as [f|] eqn:E; [|reflexivity].
  exfalso. apply Hout.
  assert (Hsp : isabs sp = true) by now apply abspath_abs.
  destruct (get_file_path_inside _ _ _ _ Hsp E) as [I _].
  unfold get_file_path in E. destruct (guard_sess true cwd sp (sess_file sp i)); [|discriminate].
  now inversion E; subst.
Qed.

(* ---------- concrete runs (used by Props/ and Refuted/) ---------- *)

Definition ex_fs : fsys :=
  [ ([], true); ([[114]], true); ([[114]; [115]], true); ([[114]; [115]; [97]], false);
    ([[114]; [115]; [100]], true); ([[114]; [115]; [100]; [105]], false);
    ([[114]; [115; 120]], true); ([[114]; [115; 120]; [102]], false);
    ([[112]], true); ([[112]; [115; 101; 115; 115; 105; 111; 110; 45; 100]], true);
    ([[112]; [115; 101; 115; 115; 105; 111; 110; 45; 97]], false);
    ([[112; 120]], true); ([[112; 120]; [120]], false) ].
(* /r/s/a  /r/s/d/i  /r/sx/f   /p/session-d/  /p/session-a  /px/x *)

Definition s_static : str := [47; 115; 116; 97; 116; 105; 99].          (* "/static" *)
Definition s_rs : str := [47; 114; 47; 115].                            (* "/r/s" *)

(** "/static/a" is served, "/static/d" falls through to the index "i" *)
Lemma ex_static_nonvacuous :
  safe_rel [105] = true /\
  eff_dir s_rs [] = Some s_rs /\
  staticdir true s_static (s_static ++ [47; 97]) s_rs [] [105] ex_fs
    = (1, 200, [(0, s_rs ++ [47; 97]); (1, s_rs ++ [47; 97])]) /\
  staticdir true s_static (s_static ++ [47; 100]) s_rs [] [105] ex_fs
    = (2, 200, [(0, s_rs ++ [47; 100]); (0, s_rs ++ [47; 100; 47; 105]); (1, s_rs ++ [47; 100; 47; 105])]) /\
  (* ../sx/f is refused, and the refusal theorem's hypotheses hold for it *)
  staticdir true s_static (s_static ++ [47; 46; 46; 47; 115; 120; 47; 102]) s_rs [] [105] ex_fs = (4, 403, []) /\
  isabs (join2 s_rs (branch_of s_static (s_static ++ [47; 46; 46; 47; 115; 120; 47; 102]))) = true /\
  ~ SegPrefix (segments (normpath s_rs))
      (resolve (join2 s_rs (branch_of s_static (s_static ++ [47; 46; 46; 47; 115; 120; 47; 102])))).
Proof.
  repeat split; try (vm_compute; reflexivity).
  intro H. apply seg_prefixb_complete in H. vm_compute in H. discriminate.
Qed.

Definition s_p : str := [47; 112].                                       (* "/p" *)
Definition id_evil : str := [100; 47; 46; 46; 47; 46; 46; 47; 112; 120; 47; 120].   (* "d/../../px/x" *)

(** cookie "a" is adopted, read and saved; the traversal id is answered 400 *)
Lemma ex_session_nonvacuous :
  isabs s_p = true /\
  sess_request true s_p s_p (Some [97]) 1 [[103]] ex_fs
    = (10, 200, [(0, s_p ++ 47 :: s_prefix ++ [97]); (4, s_p ++ 47 :: s_prefix ++ [97] ++ s_lock);
                 (1, s_p ++ 47 :: s_prefix ++ [97]); (2, s_p ++ 47 :: s_prefix ++ [97])]) /\
  sess_request true s_p s_p (Some id_evil) 1 [[103]] ex_fs = (13, 400, []) /\
  ~ SegPrefix (segments (abspath s_p s_p)) (resolve (sess_file (abspath s_p s_p) id_evil)).
Proof.
  repeat split; try (vm_compute; reflexivity).
  intro H. apply seg_prefixb_complete in H. vm_compute in H. discriminate.
Qed.

(* ---------- clean_up ---------- *)

Definition plain (c : str) : Prop :=
  good c /\ (is_empty c || is_dot c) = false /\ is_dotdot c = false.

Lemma rs_fold_plain comps : Forall slashfree comps -> forall acc, Forall plain acc ->
  Forall plain (fold_left rs_step comps acc).
Proof.
  induction comps as [|c comps IH]; intros Hc acc Ha; [assumption|].
  inversion Hc; subst. cbn [fold_left]. apply IH; [assumption|].
  unfold rs_step. destruct (is_empty c || is_dot c) eqn:E; [assumption|].
  destruct (is_dotdot c) eqn:E2; [destruct acc; [constructor | now inversion Ha]|].
  constructor; [|assumption]. repeat split; try assumption.
  intro K. subst c. discriminate.
Qed.

Lemma fold_plain l : Forall plain l -> forall acc, fold_left rs_step l acc = rev l ++ acc.
Proof.
  induction l as [|c l IH]; intros H acc; [reflexivity|].
  inversion H as [|? ? (_ & E1 & E2) Hl]; subst. cbn [fold_left rev].
  unfold rs_step at 2. rewrite E1, E2. rewrite IH by assumption. now rewrite <- app_assoc.
Qed.

(** a normalised absolute path resolves to its own segments *)
Lemma resolve_normpath p : isabs p = true -> resolve (normpath p) = segments (normpath p).
Proof.
  intro H. rewrite (segments_normpath_abs p H).
  assert (P : Forall plain (resolve p)).
  { unfold resolve. apply Forall_rev. apply rs_fold_plain; [apply split_all_slashfree|constructor]. }
  assert (SF : Forall slashfree (resolve p)).
  { eapply Forall_impl; [|exact P]. intros a ((_ & Hs) & _). exact Hs. }
  assert (R : forall l, Forall plain l -> Forall slashfree l -> resolve (47 :: join_slash l) = l).
  { intros l Pl Sl. unfold resolve. cbn [split_slash]. rewrite Z.eqb_refl. cbn [fold_left].
    unfold rs_step at 2. cbn [is_empty is_nil orb]. destruct l as [|c l'].
    - reflexivity.
    - rewrite split_join by (assumption || discriminate).
      rewrite fold_plain by assumption. now rewrite app_nil_r, rev_involutive. }
  destruct (normpath_abs_form p H) as (sl & [-> | ->] & E); rewrite E; cbn [app].
  - now apply R.
  - unfold resolve. cbn [split_slash]. rewrite Z.eqb_refl. cbn [fold_left].
    unfold rs_step at 2. cbn [is_empty is_nil orb]. now apply R.
Qed.

Lemma have_session_plain n : have_session n = true -> slashfree n -> plain n /\ isabs n = false.
Proof.
  unfold have_session. intros H Hs. apply andb_true_iff in H as [H _].
  apply startswith_spec in H as [r ->].
  assert (L : longish (s_prefix ++ r)) by (unfold longish; rewrite app_length; cbn; lia).
  destruct (is_special_app [] (s_prefix ++ r) L) as [E1 E2]. cbn [app] in E1, E2.
  repeat split; try assumption. discriminate.
Qed.

Theorem thm_cleanup_contained : forall cwd sp_cfg names tag st ops,
  isabs cwd = true ->
  Forall (fun nf : str * bool => slashfree (fst nf)) names ->
  cleanup cwd sp_cfg names = (tag, st, ops) ->
  OpsIn (segments (abspath cwd sp_cfg)) ops.
Proof.
  intros cwd sp_cfg names tag st ops Hcwd Hn H. unfold cleanup in H.
  set (sp := abspath cwd sp_cfg) in *. inversion H; subst tag st ops. clear H.
  assert (Habs : isabs sp = true) by now apply abspath_abs.
  assert (Hres : resolve sp = segments sp).
  { unfold sp, abspath. apply resolve_normpath.
    destruct (isabs sp_cfg) eqn:E; [assumption|now apply join2_abs]. }
  assert (Hne : sp <> []) by (intro K; rewrite K in Habs; discriminate).
  apply OpsIn_cons; [rewrite Hres; apply SegPrefix_refl|].
  induction names as [|[n e] names IH]; [apply OpsIn_nil|].
  inversion Hn as [|? ? Hs Hn']; subst. cbn [flat_map]. apply OpsIn_app; [|now apply IH].
  destruct (have_session n) eqn:Hh; [|apply OpsIn_nil].
  destruct (have_session_plain n Hh Hs) as [Pn An].
  assert (E : resolve (join2 sp n) = segments sp ++ [n]).
  { unfold resolve. rewrite fold_join2 by assumption. rewrite (split_slashfree n Hs).
    rewrite (fold_plain [n]) by (constructor; [assumption|constructor]).
    cbn [rev app]. fold (resolve sp). now rewrite Hres. }
  assert (I1 : SegPrefix (segments sp) (resolve (join2 sp n))) by (rewrite E; now exists [n]).
  assert (I2 : SegPrefix (segments sp) (resolve (join2 sp n ++ s_lock))).
  { eapply resolve_suffix_inside; eauto using s_lock_slashfree, s_lock_longish.
    right. discriminate. }
  apply OpsIn_cons; [assumption|]. apply OpsIn_cons; [assumption|].
  destruct e; [now apply OpsIn_one|apply OpsIn_nil].
Qed.

(** storage "/p" listing "session-a" (expired) and "x": only the session file
    is locked, read and removed *)
Lemma ex_cleanup_nonvacuous :
  isabs s_p = true /\
  Forall (fun nf : str * bool => slashfree (fst nf)) [(s_prefix ++ [97], true); ([120], false)] /\
  cleanup s_p s_p [(s_prefix ++ [97], true); ([120], false)]
  = (20, 0, [(5, s_p); (4, s_p ++ 47 :: s_prefix ++ [97] ++ s_lock);
             (1, s_p ++ 47 :: s_prefix ++ [97]); (3, s_p ++ 47 :: s_prefix ++ [97])]).
Proof.
  split; [reflexivity|]. split; [|vm_compute; reflexivity].
  repeat constructor; unfold slashfree; cbn; intuition discriminate.
Qed.
