(** C13, part (a): the invariant [Inv] is preserved by every step of every thread of the
    repaired system (c_fixed = true); hence it holds in every reachable state. *)
From Coq Require Import ZArith List Bool Lia.
From CV Require Import Lib.Sx Lib.ListZ LibP.ListZ_facts Model.M_locks Proof.P_locks.
Import ListNotations.
Open Scope Z_scope.

Ltac simp_st := cbn [put reqs objs table sw set_objs set_table set_sw sw_pc s_pc].
Tactic Notation "simp_st" "in" hyp(H) := cbn [put reqs objs table sw set_objs set_table set_sw sw_pc s_pc] in H.

(* ------------------------------------------------------------------ *)
(** * lock objects *)

Lemma free_for_cases me o : free_for me o = true -> l_owner o = None \/ l_owner o = Some me.
Proof.
  unfold free_for. destruct (l_owner o) as [x|]; [|auto]. intros E. apply Z.eqb_eq in E. subst. auto.
Qed.

Lemma owned_by_true me o : owned_by me o = true <-> l_owner o = Some me.
Proof.
  unfold owned_by. destruct (l_owner o) as [x|]; split; intros H; try discriminate.
  - apply Z.eqb_eq in H. subst. reflexivity.
  - injection H as ->. apply Z.eqb_refl.
Qed.

Lemma lock_rel_one o : l_count o = 1 -> lock_rel o = LO None 0.
Proof. intros E. unfold lock_rel. rewrite E. reflexivity. Qed.

Lemma tid_lt s tid (t : rthread) : nthZ tid (reqs s) = Some t -> tid <> lenZ (reqs s).
Proof. intros H. apply nthZ_range in H. lia. Qed.

(* ------------------------------------------------------------------ *)
(** * frame lemmas: one per kind of update of the lock-relevant state *)

(** the thread changes local fields only; it keeps what it owns *)
Lemma Inv_put_local s s' tid t t' :
  Inv s -> nthZ tid (reqs s) = Some t ->
  r_own t' = r_own t ->
  (r_cs t' = true -> exists l, r_own t' = Some l /\ aget (r_sid t') (table s) = Some l) ->
  pc_ok t' ->
  lk s' = lk (put tid t' s) -> Inv s'.
Proof.
  intros (HT & HL & HS) Hn O C P E. apply (Inv_lk _ _ (eq_sym E)). clear E s'.
  split; [|split].
  - intros tid0 t0 H0. simp_st in H0. apply updN_cases in H0.
    destruct H0 as [[-> (t1 & _ & ->)]|[N H0]].
    + destruct (HT tid t Hn) as (A1 & A2 & A3). split; [|split; [exact C|exact P]].
      intros l El. rewrite O in El. exact (A1 l El).
    + exact (HT tid0 t0 H0).
  - intros l o Ho. simp_st in Ho. specialize (HL l o Ho). unfold lock_ok in *.
    destruct (l_owner o) as [x|]; [|exact HL]. destruct HL as (Cn & [(t0 & N0 & O0)|R]); split; auto.
    + left. simp_st. destruct (Z.eq_dec tid x) as [<-|Ne].
      * exists t'. rewrite nthZ_updN_eq, Hn. cbn. split; [reflexivity|]. rewrite Hn in N0. injection N0 as <-. congruence.
      * exists t0. rewrite nthZ_updN_neq by exact Ne. auto.
    + right. simp_st. rewrite lenZ_updN. exact R.
  - unfold sw_ok in *. simp_st. rewrite lenZ_updN. exact HS.
Qed.

(** ... in particular when the critical-section flag and the session id do not change *)
Lemma Inv_put_same s s' tid t t' :
  Inv s -> nthZ tid (reqs s) = Some t ->
  r_own t' = r_own t -> r_cs t' = r_cs t -> (r_cs t = true -> r_sid t' = r_sid t) -> pc_ok t' ->
  lk s' = lk (put tid t' s) -> Inv s'.
Proof.
  intros HI Hn O C Sd P E. eapply Inv_put_local; eauto.
  intros Ct. destruct HI as (HT & _). destruct (HT tid t Hn) as (_ & A2 & _).
  rewrite C in Ct. destruct (A2 Ct) as (l & E1 & E2). exists l. rewrite O, (Sd Ct). auto.
Qed.

(** a request thread acquires a lock object *)
Lemma Inv_acquire s s' tid t l o t' :
  Inv s -> nthZ tid (reqs s) = Some t -> r_own t = None ->
  nthZ l (objs s) = Some o -> free_for tid o = true ->
  r_own t' = Some l -> r_cs t' = false -> pc_ok t' ->
  lk s' = lk (put tid t' (set_objs (updN l (lock_acq tid) (objs s)) s)) -> Inv s'.
Proof.
  intros (HT & HL & HS) Hn O Ho F O' C' P' E. apply (Inv_lk _ _ (eq_sym E)). clear E s'.
  assert (Fr : l_owner o = None /\ l_count o = 0).
  { pose proof (HL l o Ho) as K. unfold lock_ok in K. apply free_for_cases in F. destruct F as [F|F]; rewrite F in K.
    - auto.
    - destruct K as (_ & [(t0 & N0 & O0)|(R & _)]).
      + rewrite Hn in N0. injection N0 as <-. congruence.
      + exfalso. eapply tid_lt; eauto. }
  destruct Fr as (Fo & Fc).
  split; [|split].
  - intros tid0 t0 H0. simp_st in H0. apply updN_cases in H0.
    destruct H0 as [[-> (t1 & _ & ->)]|[N H0]].
    + split; [|split; [intros X; congruence|exact P']].
      intros l0 El. rewrite O' in El. injection El as <-.
      exists (lock_acq tid o). simp_st. rewrite nthZ_updN_eq, Ho. cbn. auto.
    + destruct (HT tid0 t0 H0) as (A1 & A2 & A3). split; [|split; [exact A2|exact A3]].
      intros l0 El. destruct (A1 l0 El) as (o0 & N0 & W0). exists o0. simp_st.
      rewrite nthZ_updN_neq; [auto|]. intros <-. rewrite Ho in N0. injection N0 as <-. congruence.
  - intros l0 o0 H0. simp_st in H0. apply updN_cases in H0.
    destruct H0 as [[-> (o1 & N1 & ->)]|[N H0]].
    + rewrite Ho in N1. injection N1 as <-. unfold lock_ok, lock_acq. cbn [l_owner l_count].
      split; [lia|]. left. exists t'. simp_st. rewrite nthZ_updN_eq, Hn. cbn. auto.
    + specialize (HL l0 o0 H0). unfold lock_ok in *.
      destruct (l_owner o0) as [x|]; [|exact HL]. destruct HL as (Cn & [(t0 & N0 & O0)|R]); split; auto.
      * left. simp_st. destruct (Z.eq_dec tid x) as [<-|Ne].
        -- rewrite Hn in N0. injection N0 as <-. congruence.
        -- exists t0. rewrite nthZ_updN_neq by exact Ne. auto.
      * right. simp_st. rewrite lenZ_updN. exact R.
  - unfold sw_ok in *. simp_st. rewrite lenZ_updN.
    assert (K : forall l', (exists o', nthZ l' (objs s) = Some o' /\ l_owner o' = Some (lenZ (reqs s))) ->
                           exists o', nthZ l' (updN l (lock_acq tid) (objs s)) = Some o' /\
                                      l_owner o' = Some (lenZ (reqs s))).
    { intros l' (o' & N' & W'). exists o'. rewrite nthZ_updN_neq; [auto|].
      intros <-. rewrite Ho in N'. injection N' as <-. congruence. }
    destruct (s_pc (sw s)); try exact Logic.I; try exact HS; try (apply K; exact HS);
      (destruct HS as (G1 & G2); split; [exact G1|apply K; exact G2]).
Qed.

(** a request thread releases the lock object it owns *)
Lemma Inv_release s s' tid t l t' :
  Inv s -> nthZ tid (reqs s) = Some t -> r_own t = Some l ->
  r_own t' = None -> r_cs t' = false -> pc_ok t' ->
  lk s' = lk (put tid t' (set_objs (updN l lock_rel (objs s)) s)) -> Inv s'.
Proof.
  intros (HT & HL & HS) Hn O O' C' P' E. apply (Inv_lk _ _ (eq_sym E)). clear E s'.
  destruct (HT tid t Hn) as (A1 & _ & _). destruct (A1 l O) as (o & Ho & Wo).
  assert (Cn : l_count o = 1). { pose proof (HL l o Ho) as K. unfold lock_ok in K. rewrite Wo in K. tauto. }
  pose proof (tid_lt _ _ _ Hn) as Lt.
  split; [|split].
  - intros tid0 t0 H0. simp_st in H0. apply updN_cases in H0.
    destruct H0 as [[-> (t1 & _ & ->)]|[N H0]].
    + split; [|split; [intros X; congruence|exact P']]. intros l0 El. congruence.
    + destruct (HT tid0 t0 H0) as (B1 & B2 & B3). split; [|split; [exact B2|exact B3]].
      intros l0 El. destruct (B1 l0 El) as (o0 & N0 & W0). exists o0. simp_st.
      rewrite nthZ_updN_neq; [auto|]. intros <-. rewrite Ho in N0. injection N0 as <-. congruence.
  - intros l0 o0 H0. simp_st in H0. apply updN_cases in H0.
    destruct H0 as [[-> (o1 & N1 & ->)]|[N H0]].
    + rewrite Ho in N1. injection N1 as <-. rewrite lock_rel_one by exact Cn. reflexivity.
    + specialize (HL l0 o0 H0). unfold lock_ok in *.
      destruct (l_owner o0) as [x|]; [|exact HL]. destruct HL as (Cn0 & [(t0 & N0 & O0)|R]); split; auto.
      * left. simp_st. destruct (Z.eq_dec tid x) as [<-|Ne].
        -- rewrite Hn in N0. injection N0 as <-. congruence.
        -- exists t0. rewrite nthZ_updN_neq by exact Ne. auto.
      * right. simp_st. rewrite lenZ_updN. exact R.
  - unfold sw_ok in *. simp_st. rewrite lenZ_updN.
    assert (K : forall l', (exists o', nthZ l' (objs s) = Some o' /\ l_owner o' = Some (lenZ (reqs s))) ->
                           exists o', nthZ l' (updN l lock_rel (objs s)) = Some o' /\
                                      l_owner o' = Some (lenZ (reqs s))).
    { intros l' (o' & N' & W'). exists o'. rewrite nthZ_updN_neq; [auto|].
      intros <-. rewrite Ho in N'. injection N' as <-. congruence. }
    destruct (s_pc (sw s)); try exact Logic.I; try exact HS; try (apply K; exact HS);
      (destruct HS as (G1 & G2); split; [exact G1|apply K; exact G2]).
Qed.

(** setdefault installs a fresh lock object *)
Lemma Inv_install s s' tid t t' :
  Inv s -> nthZ tid (reqs s) = Some t -> aget (r_sid t) (table s) = None ->
  r_own t' = r_own t -> r_cs t' = false -> pc_ok t' ->
  lk s' = lk (put tid t' (set_table (table s ++ [(r_sid t, lenZ (objs s))])
                                    (set_objs (objs s ++ [LO None 0]) s))) -> Inv s'.
Proof.
  intros (HT & HL & HS) Hn Ab O' C' P' E. apply (Inv_lk _ _ (eq_sym E)). clear E s'.
  split; [|split].
  - intros tid0 t0 H0. simp_st in H0. apply updN_cases in H0.
    destruct H0 as [[-> (t1 & _ & ->)]|[N H0]].
    + destruct (HT tid t Hn) as (A1 & _ & _). split; [|split; [intros X; congruence|exact P']].
      intros l El. rewrite O' in El. destruct (A1 l El) as (o & N0 & W0). exists o.
      simp_st. split; [apply nthZ_app_l; exact N0|exact W0].
    + destruct (HT tid0 t0 H0) as (B1 & B2 & B3). split; [|split; [|exact B3]].
      * intros l El. destruct (B1 l El) as (o & N0 & W0). exists o.
        simp_st. split; [apply nthZ_app_l; exact N0|exact W0].
      * intros Ct. destruct (B2 Ct) as (l & E1 & E2). exists l. split; [exact E1|].
        simp_st. apply aget_app_some. exact E2.
  - intros l o H0. simp_st in H0. apply nthZ_app_inv in H0.
    destruct H0 as [H0|[-> ->]]; [|reflexivity].
    specialize (HL l o H0). unfold lock_ok in *.
    destruct (l_owner o) as [x|]; [|exact HL]. destruct HL as (Cn0 & [(t0 & N0 & O0)|R]); split; auto.
    + left. simp_st. destruct (Z.eq_dec tid x) as [<-|Ne].
      * exists t'. rewrite nthZ_updN_eq, Hn. cbn. split; [reflexivity|].
        rewrite Hn in N0. injection N0 as <-. congruence.
      * exists t0. rewrite nthZ_updN_neq by exact Ne. auto.
    + right. simp_st. rewrite lenZ_updN. exact R.
  - unfold sw_ok in *. simp_st. rewrite lenZ_updN.
    assert (K : forall l', (exists o', nthZ l' (objs s) = Some o' /\ l_owner o' = Some (lenZ (reqs s))) ->
                           exists o', nthZ l' (objs s ++ [LO None 0]) = Some o' /\
                                      l_owner o' = Some (lenZ (reqs s))).
    { intros l' (o' & N' & W'). exists o'. split; [apply nthZ_app_l; exact N'|exact W']. }
    destruct (s_pc (sw s)); try exact Logic.I; try (apply aget_app_some; exact HS); try (apply K; exact HS);
      (destruct HS as (G1 & G2); split; [apply aget_app_some; exact G1|apply K; exact G2]).
Qed.

(* ------------------------------------------------------------------ *)
(** * the sweeper *)

Definition quiet (w : sweeper) : Prop := forall l, ~ sw_owns w l.

(** the sweeper moves between program counters at which it owns nothing *)
Lemma Inv_sw_local s s' w' :
  Inv s -> quiet (sw s) -> quiet w' -> sw_ok (set_sw w' s) ->
  lk s' = lk (set_sw w' s) -> Inv s'.
Proof.
  intros (HT & HL & HS) Q Q' K E. apply (Inv_lk _ _ (eq_sym E)). clear E s'.
  split; [|split; [|exact K]].
  - intros tid0 t0 H0. exact (HT tid0 t0 H0).
  - intros l o H0. specialize (HL l o H0). unfold lock_ok in *. simp_st.
    destruct (l_owner o) as [x|]; [|exact HL]. destruct HL as (Cn0 & [L|(R1 & R2)]); split; auto.
    exfalso. exact (Q l R2).
Qed.

(** acquire(blocking=False) succeeds *)
Lemma Inv_sw_acquire s s' id l o p :
  Inv s -> quiet (sw s) -> aget id (table s) = Some l ->
  nthZ l (objs s) = Some o -> free_for (lenZ (reqs s)) o = true ->
  (p = SPop1 id l \/ p = SPop2 id l) ->
  lk s' = lk (set_sw (sw_pc p (sw s)) (set_objs (updN l (lock_acq (lenZ (reqs s))) (objs s)) s)) -> Inv s'.
Proof.
  intros (HT & HL & HS) Q Tb Ho F Pp E. apply (Inv_lk _ _ (eq_sym E)). clear E s'.
  assert (Fr : l_owner o = None /\ l_count o = 0).
  { pose proof (HL l o Ho) as K. unfold lock_ok in K. apply free_for_cases in F. destruct F as [F|F]; rewrite F in K.
    - auto.
    - destruct K as (_ & [(t0 & N0 & O0)|(_ & R)]).
      + exfalso. eapply tid_lt; eauto.
      + exfalso. exact (Q l R). }
  destruct Fr as (Fo & Fc).
  split; [|split].
  - intros tid0 t0 H0. simp_st in H0.
    destruct (HT tid0 t0 H0) as (A1 & A2 & A3). split; [|split; [exact A2|exact A3]].
    intros l0 El. destruct (A1 l0 El) as (o0 & N0 & W0). exists o0. simp_st.
    rewrite nthZ_updN_neq; [auto|]. intros <-. rewrite Ho in N0. injection N0 as <-. congruence.
  - intros l0 o0 H0. simp_st in H0. apply updN_cases in H0.
    destruct H0 as [[-> (o1 & N1 & ->)]|[N H0]].
    + rewrite Ho in N1. injection N1 as <-. unfold lock_ok, lock_acq. cbn [l_owner l_count].
      split; [lia|]. right. simp_st. split; [reflexivity|].
      unfold sw_owns, sw_pc. cbn [s_pc]. destruct Pp as [-> | ->]; reflexivity.
    + specialize (HL l0 o0 H0). unfold lock_ok in *. simp_st.
      destruct (l_owner o0) as [x|]; [|exact HL]. destruct HL as (Cn & [L|(R1 & R2)]); split; auto.
      exfalso. exact (Q l0 R2).
  - unfold sw_ok. simp_st.
    assert (G : aget id (table s) = Some l /\
                exists o', nthZ l (updN l (lock_acq (lenZ (reqs s))) (objs s)) = Some o' /\
                           l_owner o' = Some (lenZ (reqs s))).
    { split; [exact Tb|]. exists (lock_acq (lenZ (reqs s)) o). rewrite nthZ_updN_eq, Ho. cbn. auto. }
    destruct Pp as [-> | ->]; exact G.
Qed.

(** locks.pop(id) of the lock object the sweeper holds *)
Lemma Inv_sw_pop s s' id l p :
  Inv s -> (s_pc (sw s) = SPop1 id l \/ s_pc (sw s) = SPop2 id l) ->
  (p = SRel1 l \/ p = SRel2 l) ->
  lk s' = lk (set_sw (sw_pc p (sw s)) (set_table (adel id (table s)) s)) -> Inv s'.
Proof.
  intros (HT & HL & HS) Pc Pp E. apply (Inv_lk _ _ (eq_sym E)). clear E s'.
  assert (G : aget id (table s) = Some l /\
              exists o, nthZ l (objs s) = Some o /\ l_owner o = Some (lenZ (reqs s))).
  { unfold sw_ok in HS. destruct Pc as [Pc|Pc]; rewrite Pc in HS; exact HS. }
  destruct G as (Tb & o & Ho & Wo).
  split; [|split].
  - intros tid0 t0 H0. simp_st in H0.
    destruct (HT tid0 t0 H0) as (A1 & A2 & A3). split; [exact A1|split; [|exact A3]].
    intros Ct. destruct (A2 Ct) as (l0 & E1 & E2). exists l0. split; [exact E1|].
    simp_st. rewrite aget_adel_neq; [exact E2|].
    intros EE. rewrite <- EE, Tb in E2. injection E2 as <-.
    destruct (A1 l E1) as (o' & N' & W'). rewrite Ho in N'. injection N' as <-.
    rewrite Wo in W'. injection W' as W'. symmetry in W'. revert W'. eapply tid_lt; eauto.
  - intros l0 o0 H0. simp_st in H0. specialize (HL l0 o0 H0).
    unfold lock_ok in *. simp_st.
    destruct (l_owner o0) as [x|]; [|exact HL]. destruct HL as (Cn & [L|(R1 & R2)]); split; auto.
    right. split; [exact R1|]. unfold sw_owns in *. unfold sw_pc. cbn [s_pc].
    assert (l = l0) by (destruct Pc as [Pc|Pc]; rewrite Pc in R2; exact R2). subst l0.
    destruct Pp as [-> | ->]; reflexivity.
  - unfold sw_ok. simp_st.
    destruct Pp as [-> | ->]; exists o; auto.
Qed.

(** the sweeper releases the lock object it popped and goes on *)
Lemma Inv_sw_release s s' l w' :
  Inv s -> (s_pc (sw s) = SRel1 l \/ s_pc (sw s) = SRel2 l) ->
  quiet w' -> sw_ok (set_sw w' (set_objs (updN l lock_rel (objs s)) s)) ->
  lk s' = lk (set_sw w' (set_objs (updN l lock_rel (objs s)) s)) -> Inv s'.
Proof.
  intros (HT & HL & HS) Pc Q' K E. apply (Inv_lk _ _ (eq_sym E)). clear E s'.
  assert (G : exists o, nthZ l (objs s) = Some o /\ l_owner o = Some (lenZ (reqs s))).
  { unfold sw_ok in HS. destruct Pc as [Pc|Pc]; rewrite Pc in HS; exact HS. }
  destruct G as (o & Ho & Wo).
  assert (Cn : l_count o = 1). { pose proof (HL l o Ho) as X. unfold lock_ok in X. rewrite Wo in X. tauto. }
  split; [|split; [|exact K]].
  - intros tid0 t0 H0. simp_st in H0.
    destruct (HT tid0 t0 H0) as (A1 & A2 & A3). split; [|split; [exact A2|exact A3]].
    intros l0 El. destruct (A1 l0 El) as (o0 & N0 & W0). exists o0. simp_st.
    rewrite nthZ_updN_neq; [auto|]. intros <-. rewrite Ho in N0. injection N0 as <-.
    rewrite Wo in W0. injection W0 as W0. symmetry in W0. revert W0. eapply tid_lt; eauto.
  - intros l0 o0 H0. simp_st in H0. apply updN_cases in H0.
    destruct H0 as [[-> (o1 & N1 & ->)]|[N H0]].
    + rewrite Ho in N1. injection N1 as <-. rewrite lock_rel_one by exact Cn. reflexivity.
    + specialize (HL l0 o0 H0). unfold lock_ok in *. simp_st.
      destruct (l_owner o0) as [x|]; [|exact HL]. destruct HL as (Cn0 & [L|(R1 & R2)]); split; auto.
      exfalso. apply N. unfold sw_owns in R2. destruct Pc as [Pc|Pc]; rewrite Pc in R2; congruence.
Qed.
