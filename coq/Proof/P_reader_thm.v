(** Top-level statements about executions from the initial state. *)
From Coq Require Import ZArith List Bool Lia.
From CV Require Import Lib.Sx Lib.ListZ LibP.ListZ_facts Model.M_reader Proof.P_reader.
Import ListNotations.
Open Scope Z_scope.

Lemma run_init c body fr ops outs s :
  WF c -> forallb op_nonneg ops = true -> run c ops (init body fr) = (outs, s) ->
  run_post c body [] outs s.
Proof. intros W Hn H. eapply run_spec; eauto using Inv_init. Qed.

Lemma thm_statuses : forall c body fr ops outs s,
  WF c -> forallb op_nonneg ops = true ->
  run c ops (init body fr) = (outs, s) ->
  all_ok outs \/ exists pre last, outs = pre ++ [(S413, last)] /\ all_ok pre.
Proof.
  intros c body fr ops outs s W Hn H.
  destruct (run_init _ _ _ _ _ _ W Hn H) as [(Hok & _) | (pre & last & sp & E & Hok & _)].
  - now left.
  - right. exists pre, last. tauto.
Qed.

Lemma all_ok_not_413 pre last : ~ all_ok (pre ++ [(S413, last)]).
Proof.
  intros H. apply Forall_app in H. destruct H as [_ H]. inversion H; subst. cbn in *. discriminate.
Qed.

Lemma run_init_ok c body fr ops outs s :
  WF c -> forallb op_nonneg ops = true -> run c ops (init body fr) = (outs, s) -> all_ok outs ->
  Inv c body (delivered outs) s.
Proof.
  intros W Hn H Hok.
  destruct (run_init _ _ _ _ _ _ W Hn H) as [(_ & Hi) | (pre & last & sp & E & _)].
  - exact Hi.
  - subst outs. now apply all_ok_not_413 in Hok.
Qed.

Lemma thm_exact_ordered : forall c body fr ops outs s,
  WF c -> forallb op_nonneg ops = true ->
  run c ops (init body fr) = (outs, s) -> all_ok outs ->
  exists rest, delivered outs ++ rest = body_eff c body.
Proof.
  intros c body fr ops outs s W Hn H Hok.
  eapply Inv_prefix; [exact W | eapply run_init_ok; eassumption].
Qed.

Lemma thm_complete : forall c body fr ops outs s st ou s',
  WF c -> forallb op_nonneg ops = true ->
  run c ops (init body fr) = (outs, s) -> all_ok outs ->
  step c (ORead None) s = (st, ou, s') -> st = SOk ->
  delivered outs ++ out_bytes ou = body_eff c body.
Proof.
  intros c body fr ops outs s st ou s' W Hn H Hok Hs E.
  eapply read_all_complete; [exact W | eapply run_init_ok; eassumption | exact Hs | exact E].
Qed.

Lemma dropZ_app_exact {A} (a b : list A) : dropZ (lenZ a) (a ++ b) = b.
Proof.
  rewrite dropZ_app_ge by lia. replace (lenZ a - lenZ a) with 0 by lia. now apply dropZ_nonpos.
Qed.

Lemma thm_read_refines : forall c body fr ops outs s size data s',
  WF c -> forallb op_nonneg ops = true ->
  run c ops (init body fr) = (outs, s) -> all_ok outs ->
  neg_size size = false ->
  read c size s = (SOk, data, s') ->
  data = takeR (read_rem c size s) (dropZ (lenZ (delivered outs)) body)
  /\ bread s = lenZ (delivered outs).
Proof.
  intros c body fr ops outs s size data s' W Hn H Hok Hng Hr.
  pose proof (run_init_ok _ _ _ _ _ _ W Hn H Hok) as Hi.
  pose proof (read_spec _ _ _ _ _ _ _ _ W Hi Hng Hr) as Hs. unfold read_ok in Hs.
  destruct Hs as [(_ & -> & _) | (Habs & _)]; [|discriminate].
  destruct Hi as [Isp Ibr _ _ _]. split; [|exact Ibr].
  rewrite <- Isp at 1. now rewrite dropZ_app_exact.
Qed.

Lemma thm_no_overread : forall c body fr ops outs s cl,
  WF c -> forallb op_nonneg ops = true ->
  run c ops (init body fr) = (outs, s) ->
  c_len c = Some cl -> taken s <= cl.
Proof.
  intros c body fr ops outs s cl W Hn H E.
  destruct (run_init _ _ _ _ _ _ W Hn H) as [(_ & Hi) | (pre & last & sp & _ & _ & _ & _ & _ & _ & Htk)].
  - eapply Inv_no_overread; eassumption.
  - now apply Htk.
Qed.

Lemma thm_maxbytes : forall c body fr ops outs s,
  WF c -> forallb op_nonneg ops = true ->
  run c ops (init body fr) = (outs, s) ->
  0 < c_maxb c -> lenZ (delivered outs) <= c_maxb c.
Proof.
  intros c body fr ops outs s W Hn H Hm.
  destruct (run_init _ _ _ _ _ _ W Hn H) as [(_ & Hi) | (pre & last & sp & _ & _ & _ & _ & Hle & _)].
  - cbn [app] in Hi. eapply Inv_maxbytes; eassumption.
  - change (lenZ (@nil Z)) with 0 in Hle. lia.
Qed.

Lemma thm_413_justified : forall c body fr ops outs s last,
  WF c -> forallb op_nonneg ops = true ->
  run c ops (init body fr) = (outs, s) ->
  In (S413, last) outs -> 0 < c_maxb c /\ c_maxb c < lenZ (body_eff c body).
Proof.
  intros c body fr ops outs s last W Hn H Hin.
  destruct (run_init _ _ _ _ _ _ W Hn H) as [(Hok & _) | (pre & l & sp & _ & _ & _ & Hm & _ & Hlt & _)].
  - unfold all_ok in Hok. rewrite Forall_forall in Hok. specialize (Hok _ Hin). discriminate.
  - tauto.
Qed.

Lemma thm_too_long_refused : forall c body fr ops outs s st ou s',
  WF c -> forallb op_nonneg ops = true ->
  run c ops (init body fr) = (outs, s) -> all_ok outs ->
  0 < c_maxb c -> c_maxb c < lenZ (body_eff c body) ->
  step c (ORead None) s = (st, ou, s') -> st = S413.
Proof.
  intros c body fr ops outs s st ou s' W Hn H Hok Hm Hlt Hs.
  pose proof (run_init_ok _ _ _ _ _ _ W Hn H Hok) as Hi.
  pose proof (step_spec c body _ (ORead None) s st ou s' W Hi eq_refl Hs) as Hp. unfold op_post in Hp.
  destruct Hp as [(-> & Hi1) | (-> & _)]; [|reflexivity].
  exfalso.
  pose proof (read_all_complete _ _ _ _ _ _ _ W Hi Hs eq_refl) as Hc.
  pose proof (Inv_maxbytes _ _ _ _ W Hi1 Hm) as Hb. rewrite Hc in Hb. lia.
Qed.

Lemma ex_nonvacuous :
  let c := Cfg (Some 11) 0 8 true in
  WF c /\
  exists outs s,
    run c [OReadline None; OReadline (Some 5); ORead None]
        (init [97;98;99;10;100;101;102;10;103;104;105] [1;1;3]) = (outs, s)
    /\ all_ok outs /\ delivered outs = [97;98;99;10;100;101;102;10;103;104;105]
    /\ length outs = 3%nat.
Proof.
  split.
  - constructor; cbn; try lia; try reflexivity. intros cl E. inversion E. lia.
  - eexists. eexists. split; [vm_compute; reflexivity|].
    split; [repeat constructor|]. split; reflexivity.
Qed.
