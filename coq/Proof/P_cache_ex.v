(** Concrete histories used by the non-vacuity examples of Props/C15.v. *)
From Coq Require Import ZArith List Bool.
From CV Require Import Lib.Sx Lib.ListZ Model.M_cache Proof.P_cache Proof.P_cache_thm.
Import ListNotations.
Open Scope Z_scope.


Definition xa : str := [88;45;65].   (* X-A *)
Definition xb : str := [88;45;66].   (* X-B *)
Definition u0 : str := [47;114;48].  (* /r0 *)
Definition Vex (u : str) : list str := if eqbZs u u0 then [xa; xb] else [].
Definition cex : cfg := Cfg 10 1000 100000 10000000 2 true true false.
Definition plx : plan := Plan 200 5 [xa; xb] [] [] 0.
Definition rq (m : Z) (a b : Z) (cc : list str) : request :=
  Req m u0 [(xa, [a]); (xb, [b])] [] cc plx 0 0.
(* "max-age=3" and "no-store" *)
Definition ma3 : str := [109;97;120;45;97;103;101;61;51].

(** Vary: X-A, X-B; (1,2) and (2,1) are produced separately (generations 1, 2);
    5 ticks (2.5 s) later a request (1,2) with Cache-Control: no-store, max-age=3
    is a hit on generation 1 with Age 2: the hypotheses of c15_genuine,
    c15_fresh and c15_nostore hold together on a non-trivial state. *)
Lemma ex_hit_nonvacuous :
  let ops := [OReq (rq 0 49 50 []); OReq (rq 0 50 49 []); OTick 5] in
  let r := rq 0 49 50 [s_no_store; ma3] in
  c_keyfix cex = true /\ c_agefix cex = true /\ 0 < c_tps cex /\ ops_ok Vex ops /\
  req_max_age r = Some 3 /\
  exists outs s v s',
    run cex ops init = (outs, s)
    /\ outs = [Some (OMiss 1, false); Some (OMiss 2, false); None]
    /\ do_req cex r s = (OHit v 2, true, s') /\ served (OHit v 2) v 2 /\ v_gen v = 1.
Proof.
  cbv zeta. repeat split.
  - intros r [H|[H|[H|[]]]]; inversion H; reflexivity.
  - do 4 eexists. split; [vm_compute; reflexivity|]. split; [reflexivity|].
    split; [vm_compute; reflexivity|]. split; [left; reflexivity | reflexivity].
Qed.

(** GET (stored), POST on the same URI, a request elsewhere, a clock step and a
    sweep, then GET: the hypotheses of c15_invalidation hold and the state before
    the POST really had the response cached. *)
Lemma ex_invalidation_nonvacuous :
  let other := Req 0 [47;114;49] [] [] [] (Plan 200 3 [] [] [] 0) 0 0 in
  let mid := [OReq other; OTick 1; OSweep] in
  exists outs0 s fl s1 outs s2 v,
    run cex [OReq (rq 0 49 50 [])] init = (outs0, s)
    /\ do_req cex (rq 0 49 50 []) s = (OHit v 0, true, s)
    /\ is_invalidating (r_meth (rq 2 49 50 [])) = true
    /\ do_req cex (rq 2 49 50 []) s = (OMiss 2, fl, s1)
    /\ others u0 mid /\ run cex mid s1 = (outs, s2)
    /\ exists fl2 s3, do_req cex (rq 0 49 50 []) s2 = (OMiss 4, fl2, s3).
Proof.
  cbv zeta. do 7 eexists.
  split; [vm_compute; reflexivity|]. split; [vm_compute; reflexivity|].
  split; [reflexivity|]. split; [vm_compute; reflexivity|].
  split; [intros r [H|[H|[H|[]]]]; inversion H; discriminate|].
  split; [vm_compute; reflexivity|]. do 2 eexists. vm_compute. reflexivity.
Qed.

(** Cache-Control: max-age=3, no-cache on a request that would otherwise hit. *)
Lemma ex_nocache_nonvacuous :
  exists outs s v fl s',
    run cex [OReq (rq 0 49 50 [])] init = (outs, s)
    /\ do_req cex (rq 0 49 50 [ma3]) s = (OHit v 0, true, s)
    /\ mem s_no_cache (r_cc (rq 0 49 50 [ma3; s_no_cache])) = true
    /\ do_req cex (rq 0 49 50 [ma3; s_no_cache]) s = (OMiss 2, fl, s').
Proof.
  do 5 eexists. split; [vm_compute; reflexivity|]. split; [vm_compute; reflexivity|].
  split; [reflexivity | vm_compute; reflexivity].
Qed.

(** a stored response with Last-Modified (date 1); If-Modified-Since: date 1 gets a 304,
    date 2 gets the stored response *)
Definition pll : plan := Plan 200 5 [] [] [] 1.
Lemma ex_revalidation_nonvacuous :
  exists outs s v,
    run cex [OReq (Req 0 u0 [] [] [] pll 0 0)] init = (outs, s)
    /\ do_req cex (Req 0 u0 [] [] [] pll 1 0) s = (O304 v 0, true, s)
    /\ served (O304 v 0) v 0 /\ v_gen v = 1
    /\ do_req cex (Req 0 u0 [] [] [] pll 2 0) s = (OHit v 0, true, s).
Proof.
  do 3 eexists. split; [vm_compute; reflexivity|]. split; [vm_compute; reflexivity|].
  split; [right; reflexivity|]. split; [reflexivity | vm_compute; reflexivity].
Qed.
