(** process_multipart_form_data / _old_process_multipart: parts that share a name
    arrive as the list of their values in wire order (a scalar when there is one). *)
From Coq Require Import ZArith List Bool Lia.
From CV Require Import Lib.Sx Lib.ListZ LibP.ListZ_facts Model.M_reader Model.M_multipart Proof.P_multipart.
Import ListNotations.
Open Scope Z_scope.

Lemma eqbZs_false_ne a b : eqbZs a b = false -> a <> b.
Proof. intros H ->. now rewrite eqbZs_refl in H. Qed.

Lemma aget_aset_same {V} k (v : V) m : aget k (aset k v m) = Some v.
Proof.
  induction m as [|[k' v'] m IH]; cbn [aset aget].
  - now rewrite eqbZs_refl.
  - destruct (eqbZs k k') eqn:E; cbn [aget]; rewrite E; [reflexivity | exact IH].
Qed.

Lemma aget_aset_other {V} k' k (v : V) m : eqbZs k' k = false -> aget k' (aset k v m) = aget k' m.
Proof.
  intros Hne. induction m as [|[k2 v2] m IH]; cbn [aset aget].
  - now rewrite Hne.
  - destruct (eqbZs k k2) eqn:E; cbn [aget].
    + apply eqbZs_eq in E. subst k2. now rewrite Hne.
    + now rewrite IH.
Qed.

Lemma aget_app {V} k' k (x : V) m :
  aget k' (m ++ [(k, x)]) = match aget k' m with
                            | Some y => Some y
                            | None => if eqbZs k' k then Some x else None
                            end.
Proof.
  induction m as [|[k2 v2] m IH]; cbn [app aget]; [reflexivity|].
  destruct (eqbZs k' k2); [reflexivity | exact IH].
Qed.

(** the values stored under a name *)
Definition vals (k : list Z) (m : params) : list value :=
  match aget k m with Some (_, vs) => vs | None => [] end.

Lemma vals_add k' k v m :
  vals k' (add_param k v m) = vals k' m ++ (if eqbZs k' k then [v] else []).
Proof.
  unfold vals, add_param. destruct (aget k m) as [[il vs]|] eqn:Ek.
  - destruct (eqbZs k' k) eqn:E.
    + apply eqbZs_eq in E. subst k'. now rewrite aget_aset_same, Ek.
    + rewrite (aget_aset_other k' k _ m E). now rewrite app_nil_r.
  - rewrite aget_app. destruct (eqbZs k' k) eqn:E.
    + apply eqbZs_eq in E. subst k'. now rewrite Ek.
    + destruct (aget k' m) as [[il vs]|]; [now rewrite app_nil_r | reflexivity].
Qed.

(** scalar/list flag: a list exactly when more than one value arrived *)
Definition flag_ok (m : params) : Prop :=
  forall k il vs, aget k m = Some (il, vs) -> vs <> [] /\ il = (1 <? lenZ vs).

Lemma flag_ok_add k v m : flag_ok m -> flag_ok (add_param k v m).
Proof.
  intros H k' il vs Hg. unfold add_param in Hg. destruct (aget k m) as [[il0 vs0]|] eqn:Ek.
  - destruct (eqbZs k' k) eqn:E.
    + apply eqbZs_eq in E. subst k'. rewrite aget_aset_same in Hg. inversion Hg; subst.
      destruct (H k il0 vs0 Ek) as [Hne _]. split.
      * intros Hnil. now apply app_eq_nil in Hnil.
      * rewrite lenZ_app. change (lenZ [v]) with 1.
        assert (1 <= lenZ vs0).
        { destruct vs0; [congruence|]. rewrite lenZ_cons. pose proof (lenZ_nonneg vs0). lia. }
        symmetry. apply Z.ltb_lt. lia.
    + rewrite (aget_aset_other k' k _ m E) in Hg. now apply (H k').
  - rewrite aget_app in Hg. destruct (aget k' m) as [[il1 vs1]|] eqn:Ek'.
    + inversion Hg; subst. now apply (H k').
    + destruct (eqbZs k' k); [|discriminate]. inversion Hg; subst. split; [discriminate | reflexivity].
Qed.

(** the name a part is filed under *)
Definition pkey (old : bool) (p : part) : option (list Z) :=
  match p_name p with
  | Some n => Some n
  | None => if old then Some s_parts else None
  end.

(** the values of the parts filed under [k], in wire order *)
Fixpoint wire_vals (old : bool) (k : list Z) (ps : list part) : list value :=
  match ps with
  | [] => []
  | p :: r =>
    (match pkey old p with
     | Some k' => if eqbZs k k' then [snd (part_value p)] else []
     | None => []
     end) ++ wire_vals old k r
  end.

(** the parts left in entity.parts *)
Definition kept_of (old : bool) (ps : list part) : list part :=
  if old then ps
  else filter (fun p => match p_name p with None => true | Some _ => false end) ps.

Lemma collect_spec : forall ps old m0 k0 m kept,
  collect old ps m0 k0 = (MOk, m, kept) -> flag_ok m0 ->
  (forall k, vals k m = vals k m0 ++ wire_vals old k ps)
  /\ flag_ok m /\ kept = k0 ++ kept_of old ps.
Proof.
  induction ps as [|p r IH]; intros old m0 k0 m kept H Hf.
  - cbn in H. inversion H; subst. split; [intros k; cbn; now rewrite app_nil_r|].
    split; [exact Hf|]. unfold kept_of. destruct old; cbn; now rewrite app_nil_r.
  - cbn [collect] in H. unfold pkey, kept_of in *. cbn [wire_vals filter]. unfold pkey.
    destruct (p_name p) as [n|] eqn:En; [|destruct old].
    + destruct (part_value p) as [st v] eqn:Ev. destruct st; try discriminate.
      destruct (IH old _ _ _ _ H (flag_ok_add n v m0 Hf)) as (Hv & Hf' & Hk).
      split; [|split; [exact Hf'|]].
      * intros k. rewrite Hv, vals_add. cbn [snd]. now rewrite <- app_assoc.
      * rewrite Hk. destruct old; [now rewrite <- app_assoc | reflexivity].
    + destruct (part_value p) as [st v] eqn:Ev. destruct st; try discriminate.
      destruct (IH true _ _ _ _ H (flag_ok_add s_parts v m0 Hf)) as (Hv & Hf' & Hk).
      split; [|split; [exact Hf'|]].
      * intros k. rewrite Hv, vals_add. cbn [snd]. now rewrite <- app_assoc.
      * rewrite Hk. now rewrite <- app_assoc.
    + destruct (IH false _ _ _ _ H Hf) as (Hv & Hf' & Hk).
      split; [|split; [exact Hf'|]].
      * intros k. rewrite Hv. reflexivity.
      * rewrite Hk. now rewrite <- app_assoc.
Qed.

Lemma flag_ok_nil : flag_ok [].
Proof. intros k il vs H. discriminate. Qed.

(** Top level: what the handler is given under every name, and what stays in
    request.body.parts. *)
Lemma thm_grouping old ps m kept :
  collect old ps [] [] = (MOk, m, kept) ->
  (forall k, vals k m = wire_vals old k ps)
  /\ (forall k il vs, aget k m = Some (il, vs) -> vs <> [] /\ il = (1 <? lenZ vs))
  /\ kept = kept_of old ps.
Proof.
  intros H. destruct (collect_spec ps old [] [] m kept H flag_ok_nil) as (Hv & Hf & Hk).
  split; [intros k; now rewrite Hv|]. split; [exact Hf | exact Hk].
Qed.

(** a plain field is delivered as the decoding of exactly the bytes read;
    a part with a filename is delivered as the part itself *)
Lemma part_value_file p f : p_fname p = Some f -> part_value p = (MOk, VPart p).
Proof. unfold part_value. now intros ->. Qed.

Lemma part_value_latin1 p :
  p_fname p = None -> aget s_charset (p_ctparams p) = Some s_iso ->
  part_value p = (MOk, VField (p_body p)).
Proof. unfold part_value, decode_field. intros -> ->. reflexivity. Qed.

Lemma utf8_ascii l : forallb (fun z => z <? 128) l = true -> utf8 l = Some l.
Proof.
  induction l as [|x l IH]; cbn [forallb utf8]; intros H; [reflexivity|].
  apply andb_true_iff in H. destruct H as [Hx Hl]. now rewrite Hx, (IH Hl).
Qed.

Lemma part_value_ascii p :
  p_fname p = None -> aget s_charset (p_ctparams p) = None ->
  forallb (fun z => z <? 128) (p_body p) = true ->
  part_value p = (MOk, VField (p_body p)).
Proof.
  unfold part_value, decode_field. intros -> -> H. cbn. now rewrite (utf8_ascii _ H).
Qed.
