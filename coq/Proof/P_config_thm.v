(** The statements Props/C08.v exports, composed from P_config / P_config_tools / P_unrepr. *)
From Coq Require Import ZArith List Bool Lia.
From CV Require Import Lib.Sx Lib.ListZ LibP.ListZ_facts Model.M_dispatch Model.M_unrepr Model.M_config
     Proof.P_dispatch Proof.P_dispatch_thm Proof.P_config Proof.P_config_tools Proof.P_unrepr.
Import ListNotations.
Open Scope Z_scope.

(* ---------- decidable "every key once" (for the concrete examples) ---------- *)

Fixpoint uniqb {A} (c : list (M_dispatch.str * A)) : bool :=
  match c with
  | [] => true
  | (k, _) :: r => negb (mem_str k (map fst r)) && uniqb r
  end.

Lemma uniqb_ok {A} (c : list (M_dispatch.str * A)) : uniqb c = true -> uniq c.
Proof.
  unfold uniq. induction c as [|[k v] r IH]; cbn [uniqb map fst]; intros H; [constructor|].
  apply andb_true_iff in H. destruct H as [H1 H2]. constructor; [|auto].
  intros Hin. apply mem_str_In in Hin. rewrite Hin in H1. discriminate.
Qed.

Lemma all_uniqb (l : list conf) : forallb uniqb l = true -> Forall uniq l.
Proof.
  intros H. rewrite forallb_forall in H. apply Forall_forall. intros c Hc. apply uniqb_ok. auto.
Qed.

(* ---------- merge: both dispatchers ---------- *)

(** the MethodDispatcher merges the verb handler's _cp_config last *)
Definition handler_levels (mode : Z) (na : attrs) (root : node) (aconf : appconf)
           (path method : M_dispatch.str) : list conf :=
  if mode =? 0 then []
  else match find_handler na root aconf path with
       | FHFound r _ _ _ _ _ =>
         if n_truthy r then
           match verb_lookup r (upper method) with
           | Some f => if n_truthy f then [n_conf f] else []
           | None => []
           end
         else []
       | _ => []
       end.

(** all the dicts of one request, in merge order (after the global config) *)
Definition all_levels (mode : Z) (na : attrs) (root : node) (aconf : appconf)
           (path method : M_dispatch.str) (rest : list entry) : list conf :=
  req_levels aconf root (fullpath_of path) rest ++ handler_levels mode na root aconf path method.

Lemma request_conf_cases mode na root aconf gconf path method cfg :
  request_conf mode na root aconf gconf path method = Some cfg ->
  exists T, fh_trail (find_handler na root aconf path) = Some T /\
            cfg = fold_left overlay (handler_levels mode na root aconf path method)
                            (set_conf gconf T (fullpath_of path) (lenZ (fullpath_of path))).
Proof.
  unfold request_conf, handler_levels. destruct (mode =? 0) eqn:Em.
  - unfold dispatch_default.
    destruct (find_handler na root aconf path); try discriminate;
      intros H; injection H as <-; eexists; split; reflexivity.
  - unfold dispatch_method.
    destruct (find_handler na root aconf path) as [r v ii i vd T|T| | | |]; try discriminate.
    + destruct (n_truthy r).
      * destruct (verb_lookup r (upper method)) as [f|].
        -- destruct (n_truthy f); intros H; injection H as <-; eexists; split; reflexivity.
        -- intros H; injection H as <-; eexists; split; reflexivity.
      * intros H; injection H as <-; eexists; split; reflexivity.
    + intros H; injection H as <-; eexists; split; reflexivity.
Qed.

(** request.config = the global config overlaid with the levels, root first *)
Lemma thm_request_merge mode na root aconf gconf path method cfg :
  request_conf mode na root aconf gconf path method = Some cfg ->
  exists rest,
    fh_trail (find_handler na root aconf path)
    = Some (root_entry root aconf (lenZ (fullpath_of path)) :: rest) /\
    (Forall uniq (all_levels mode na root aconf path method rest) ->
     same_dict cfg (fold_left overlay (all_levels mode na root aconf path method rest) gconf)).
Proof.
  intros H. destruct (request_conf_cases _ _ _ _ _ _ _ _ H) as (T & HT & ->).
  destruct (thm_merge na root aconf gconf path T HT) as (rest & -> & Hm).
  exists rest. split; [exact HT|]. intros Hu. unfold all_levels in *.
  apply Forall_app in Hu. destruct Hu as [Hu1 Hu2].
  rewrite fold_left_app. apply fold_overlay_ext; [exact Hu2|]. apply Hm. exact Hu1.
Qed.

(** ... so the value of every key is the one of the last dict that sets it *)
Lemma thm_request_value mode na root aconf gconf path method cfg :
  request_conf mode na root aconf gconf path method = Some cfg ->
  exists rest,
    fh_trail (find_handler na root aconf path)
    = Some (root_entry root aconf (lenZ (fullpath_of path)) :: rest) /\
    (Forall uniq (all_levels mode na root aconf path method rest) ->
     forall k, assoc k cfg = lookup_levels k (all_levels mode na root aconf path method rest) gconf).
Proof.
  intros H. destruct (thm_request_merge _ _ _ _ _ _ _ _ H) as (rest & HT & Hm).
  exists rest. split; [exact HT|]. intros Hu k. rewrite (Hm Hu k). now apply fold_overlay_assoc.
Qed.

Lemma thm_deeper_wins mode na root aconf gconf path method cfg :
  request_conf mode na root aconf gconf path method = Some cfg ->
  exists rest,
    fh_trail (find_handler na root aconf path)
    = Some (root_entry root aconf (lenZ (fullpath_of path)) :: rest) /\
    forall k l1 c l2 v,
      all_levels mode na root aconf path method rest = l1 ++ c :: l2 ->
      Forall uniq (all_levels mode na root aconf path method rest) ->
      assoc k c = Some v -> Forall (fun c' => assoc k c' = None) l2 ->
      assoc k cfg = Some v.
Proof.
  intros H. destruct (thm_request_value _ _ _ _ _ _ _ _ H) as (rest & HT & Hv).
  exists rest. split; [exact HT|]. intros k l1 c l2 v Hs Hu Hc Hl2.
  rewrite (Hv Hu k), Hs. now apply lookup_levels_last.
Qed.

Lemma thm_nobody_sets_request mode na root aconf gconf path method cfg :
  request_conf mode na root aconf gconf path method = Some cfg ->
  exists rest,
    fh_trail (find_handler na root aconf path)
    = Some (root_entry root aconf (lenZ (fullpath_of path)) :: rest) /\
    forall k,
      Forall uniq (all_levels mode na root aconf path method rest) ->
      Forall (fun c => assoc k c = None) (all_levels mode na root aconf path method rest) ->
      assoc k cfg = assoc k gconf.
Proof.
  intros H. destruct (thm_request_value _ _ _ _ _ _ _ _ H) as (rest & HT & Hv).
  exists rest. split; [exact HT|]. intros k Hu Hn.
  rewrite (Hv Hu k). unfold lookup_levels. now apply lookup_levels_none.
Qed.

(* ---------- the levels of one trail entry; section after _cp_config ---------- *)

(** segleft of the entry before (what the sections of the next entry start from) *)
Definition last_segleft (prev : Z) (r : list entry) : Z := fold_left (fun _ e => e_segleft e) r prev.

Lemma trail_levels_app aconf fp flen : forall r1 prev e r2,
  trail_levels aconf fp flen prev (r1 ++ e :: r2)
  = trail_levels aconf fp flen prev r1
    ++ (node_conf (e_node e) :: entry_sections aconf fp flen (last_segleft prev r1) (e_segleft e))
    ++ marker fp flen e ++ trail_levels aconf fp flen (e_segleft e) r2.
Proof.
  induction r1 as [|a r1 IH]; intros prev e r2.
  - reflexivity.
  - cbn [app trail_levels last_segleft fold_left]. rewrite IH. unfold last_segleft.
    rewrite <- !app_assoc. reflexivity.
Qed.

(** an application section beats the _cp_config of the object at the same level (and
    everything shallower), whatever that _cp_config says *)
Lemma thm_section_beats mode na root aconf gconf path method cfg :
  request_conf mode na root aconf gconf path method = Some cfg ->
  exists rest,
    fh_trail (find_handler na root aconf path)
    = Some (root_entry root aconf (lenZ (fullpath_of path)) :: rest) /\
    forall r1 e r2 s1 sec s2 k v,
      rest = r1 ++ e :: r2 ->
      entry_sections aconf (fullpath_of path) (lenZ (fullpath_of path))
                     (last_segleft (lenZ (fullpath_of path)) r1) (e_segleft e) = s1 ++ sec :: s2 ->
      Forall uniq (all_levels mode na root aconf path method rest) ->
      assoc k sec = Some v ->
      Forall (fun c => assoc k c = None)
             (s2 ++ marker (fullpath_of path) (lenZ (fullpath_of path)) e
                 ++ trail_levels aconf (fullpath_of path) (lenZ (fullpath_of path)) (e_segleft e) r2
                 ++ handler_levels mode na root aconf path method) ->
      assoc k cfg = Some v.
Proof.
  intros H. destruct (thm_deeper_wins _ _ _ _ _ _ _ _ H) as (rest & HT & Hd).
  exists rest. split; [exact HT|]. intros r1 e r2 s1 sec s2 k v Hr Hs Hu Hc Hn.
  set (fp := fullpath_of path) in *. set (flen := lenZ fp) in *.
  eapply (Hd k (root_levels aconf root ++ marker fp flen (root_entry root aconf flen)
                ++ trail_levels aconf fp flen flen r1 ++ node_conf (e_node e) :: s1) sec);
    [|exact Hu|exact Hc|exact Hn].
  unfold all_levels, req_levels. fold fp. fold flen. rewrite Hr, trail_levels_app, Hs.
  repeat (rewrite <- app_assoc || rewrite <- app_comm_cons). reflexivity.
Qed.

(** the same at the root: the section "/" beats the root object's _cp_config *)
Lemma thm_root_section_beats mode na root aconf gconf path method cfg :
  request_conf mode na root aconf gconf path method = Some cfg ->
  exists rest,
    fh_trail (find_handler na root aconf path)
    = Some (root_entry root aconf (lenZ (fullpath_of path)) :: rest) /\
    forall sec k v,
      assoc s_slash aconf = Some sec ->
      Forall uniq (all_levels mode na root aconf path method rest) ->
      assoc k sec = Some v ->
      Forall (fun c => assoc k c = None)
             (marker (fullpath_of path) (lenZ (fullpath_of path))
                     (root_entry root aconf (lenZ (fullpath_of path)))
                 ++ trail_levels aconf (fullpath_of path) (lenZ (fullpath_of path))
                                 (lenZ (fullpath_of path)) rest
                 ++ handler_levels mode na root aconf path method) ->
      assoc k cfg = Some v.
Proof.
  intros H. destruct (thm_deeper_wins _ _ _ _ _ _ _ _ H) as (rest & HT & Hd).
  exists rest. split; [exact HT|]. intros sec k v Hs Hu Hc Hn.
  eapply (Hd k [n_conf root] sec); [|exact Hu|exact Hc|exact Hn].
  unfold all_levels, req_levels, root_levels. rewrite Hs. cbn [opt_list].
  repeat (rewrite <- app_assoc || rewrite <- app_comm_cons). reflexivity.
Qed.

(* ---------- the default handler's _cp_config sits at the level of its owner ---------- *)

Lemma entry_sections_same aconf fp flen p : entry_sections aconf fp flen p p = [].
Proof.
  unfold entry_sections, sliceZ. replace (flen - p - (flen - p)) with 0 by lia.
  rewrite (takeZ_nonpos (dropZ (flen - p) fp) 0) by lia. reflexivity.
Qed.

Lemma thm_default_level na root aconf path d v ii i T :
  find_handler na root aconf path = FHFound d v ii i true T ->
  exists trail e owner,
    trail_of na root aconf path = WOk trail /\ nthZ i trail = Some e /\
    e_node e = Some owner /\ getattr owner s_default = Some d /\
    (forall j e', i < j -> nthZ j trail = Some e' -> pick e' = None) /\
    T = insert_at (i + 1) (Entry s_default (Some d) (n_conf d) (e_segleft e)) trail /\
    (forall r, trail_levels aconf (fullpath_of path) (lenZ (fullpath_of path)) (e_segleft e)
                            (Entry s_default (Some d) (n_conf d) (e_segleft e) :: r)
               = n_conf d :: marker (fullpath_of path) (lenZ (fullpath_of path))
                                    (Entry s_default (Some d) (n_conf d) (e_segleft e))
                         ++ trail_levels aconf (fullpath_of path) (lenZ (fullpath_of path)) (e_segleft e) r).
Proof.
  intros H. rewrite thm_spec in H. unfold resolve_spec in H.
  destruct (trail_of na root aconf path) as [trail| | | |]; try discriminate.
  destruct (deepest trail) as [[[[i0 e] h] vd]|] eqn:Ed; cbn [found_of] in H; [|discriminate].
  destruct vd; [|congruence].
  injection H as <- _ _ <- <-.
  destruct (deepest_some _ _ _ _ _ Ed) as (Hn & Hp & Hj).
  unfold pick, offer in Hp. destruct (e_node e) as [owner|] eqn:En; [|discriminate].
  assert (Hd : getattr owner s_default = Some h).
  { unfold exposed_default in Hp. destruct (getattr owner s_default) as [d0|].
    - destruct (n_exposed d0).
      + injection Hp as ->. reflexivity.
      + destruct (n_exposed owner); congruence.
    - destruct (n_exposed owner); congruence. }
  exists trail, e, owner. repeat split; auto.
  intros r. cbn [trail_levels e_node e_segleft node_conf]. rewrite entry_sections_same. reflexivity.
Qed.

(* ---------- scoped by SEGMENT prefixes ---------- *)

Lemma thm_scoped_segments q mode na root aconf gconf path method :
  q <> [] -> Forall seg_ok q ->
  (forall suf, segments path ++ [s_index] <> q ++ suf) ->
  request_conf mode na root (remove_section (path_of q) aconf) gconf path method
  = request_conf mode na root aconf gconf path method.
Proof.
  intros Hq Hok Hnp. apply thm_scoped. apply off_path_segments; assumption.
Qed.

(** whatever is done to that section (added, removed, any content) *)
Lemma thm_scoped_change q mode na root aconf aconf' gconf path method :
  q <> [] -> Forall seg_ok q ->
  (forall suf, segments path ++ [s_index] <> q ++ suf) ->
  remove_section (path_of q) aconf = remove_section (path_of q) aconf' ->
  request_conf mode na root aconf gconf path method
  = request_conf mode na root aconf' gconf path method.
Proof.
  intros Hq Hok Hnp Heq.
  rewrite <- (thm_scoped_segments q mode na root aconf gconf path method Hq Hok Hnp).
  rewrite <- (thm_scoped_segments q mode na root aconf' gconf path method Hq Hok Hnp).
  now rewrite Heq.
Qed.

(* ---------- find_config for every path ---------- *)

Lemma path_of_split : forall r, path_of (split_on 47 r) = 47 :: r.
Proof.
  induction r as [|c r IH]; [reflexivity|]. cbn [split_on].
  destruct (c =? 47) eqn:E.
  - apply Z.eqb_eq in E. subst c.
    change (path_of ([] :: split_on 47 r)) with (47 :: path_of (split_on 47 r)). now rewrite IH.
  - destruct (split_on 47 r) as [|w ws]; [discriminate|].
    change (path_of ((c :: w) :: ws)) with (47 :: c :: w ++ path_of ws).
    change (path_of (w :: ws)) with (47 :: w ++ path_of ws) in IH.
    injection IH as ->. reflexivity.
Qed.

(** as P_config.loop_cands, with empty segments allowed ("/a//b", "/a/") *)
Lemma loop_cands_gen aconf key : forall (rsegs : list M_dispatch.str) fuel,
  Forall (fun s : M_dispatch.str => ~ In 47 s) rsegs -> (length rsegs < fuel)%nat ->
  find_config_loop fuel aconf (match rsegs with [] => s_slash | _ => path_of (rev rsegs) end) key
  = first_hit aconf key (cands_rev rsegs).
Proof.
  induction rsegs as [|s r IH]; intros fuel Hok Hf.
  - destruct fuel as [|f]; [cbn in Hf; lia|]. cbn [find_config_loop first_hit cands_rev s_slash].
    destruct (assoc key _); reflexivity.
  - destruct fuel as [|f]; [cbn in Hf; lia|].
    inversion Hok as [|? ? Hns Hr]; subst.
    cbn [cands_rev first_hit]. cbn [rev]. rewrite path_of_snoc.
    set (A := path_of (rev r)).
    assert (Htrail : exists c t, A ++ 47 :: s = c :: t).
    { destruct A; eexists; eexists; reflexivity. }
    destruct Htrail as (c & t & Htrail). rewrite Htrail. cbn [find_config_loop]. rewrite <- Htrail.
    destruct (assoc key _) eqn:Ea; [reflexivity|].
    rewrite rcut_app by exact Hns.
    specialize (IH f Hr). cbn [length] in Hf.
    destruct r as [|s' r'].
    + subst A. cbn [rev path_of flat_map app] in *.
      destruct (eqbZs (47 :: s) s_slash) eqn:E.
      * apply eqbZs_eq in E. injection E as ->.
        cbn [cands_rev first_hit].
        match goal with |- _ = match ?X with _ => _ end =>
          replace X with (@None M_dispatch.str) by (symmetry; exact Ea) end.
        reflexivity.
      * apply IH. cbn. lia.
    + assert (HA : exists c' t', A = c' :: t').
      { subst A. cbn [rev]. rewrite path_of_snoc. destruct (path_of (rev r')); eexists; eexists; reflexivity. }
      destruct HA as (c' & t' & HA). rewrite HA. rewrite <- HA. apply IH. lia.
Qed.

(** the candidate section names for the path "/" ++ r, longest first:
    the path itself, then cut at each "/" from the right, then "/" *)
Definition cands (r : M_dispatch.str) : list M_dispatch.str := cands_rev (rev (split_on 47 r)).

Lemma thm_find_config_gen aconf r key :
  find_config aconf (47 :: r) key = first_hit aconf key (cands r).
Proof.
  unfold find_config, cands. cbv iota.
  rewrite <- (loop_cands_gen aconf key (rev (split_on 47 r)) (S (S (length (47 :: r))))).
  - rewrite rev_involutive, path_of_split.
    destruct (rev (split_on 47 r)) eqn:E; [|reflexivity].
    exfalso. apply (f_equal (@rev _)) in E. rewrite rev_involutive in E. cbn in E.
    destruct r as [|c r']; cbn [split_on] in E; [discriminate|].
    destruct (c =? 47); [discriminate|]. destruct (split_on 47 r'); discriminate.
  - apply Forall_rev. apply split_on_noslash.
  - rewrite rev_length. pose proof (length_path_of (split_on 47 r)) as H.
    rewrite path_of_split in H. lia.
Qed.

(** path "" is looked up as "/" *)
Lemma find_config_empty aconf key : find_config aconf [] key = find_config aconf s_slash key.
Proof. reflexivity. Qed.

(* ---------- tools: set up iff turned on, with the merged arguments ---------- *)

Lemma split_dot_nodot : forall k t a, split_dot k = Some (t, a) -> ~ In 46 t.
Proof.
  induction k as [|c r IH]; intros t a H; [discriminate|]. cbn [split_dot] in H.
  destruct (c =? 46) eqn:E.
  - injection H as <- _. intros [].
  - destruct (split_dot r) as [[t' a']|] eqn:Es; [|discriminate]. injection H as <- _.
    intros [Hc|Hin]; [apply Z.eqb_neq in E; congruence | exact (IH _ _ eq_refl Hin)].
Qed.

(** a toolmap as Toolbox.__enter__ builds it: every tool once, tool names without a
    dot, every settings dict with every key once *)
Definition tm_ok (m : toolmap) : Prop :=
  uniq m /\ Forall (fun ts => ~ In 46 (fst ts) /\ uniq (snd ts)) m.

Lemma in_tm_set t a v x : forall m, In x (map fst (tm_set t a v m)) -> x = t \/ In x (map fst m).
Proof.
  induction m as [|[t0 c0] r IH]; cbn [tm_set map fst].
  - intros [<-|[]]. now left.
  - destruct (eqbZs t t0) eqn:E; cbn [map fst].
    + intros H. now right.
    + intros [<-|H]; [right; now left|]. destruct (IH H) as [->|H']; [now left | right; now right].
Qed.

Lemma tm_set_ok t a v : ~ In 46 t -> forall m, tm_ok m -> tm_ok (tm_set t a v m).
Proof.
  intros Ht. unfold tm_ok, uniq. induction m as [|[t0 c0] r IH]; intros [Hu Hf]; cbn [tm_set].
  - split.
    + cbn. constructor; [intros []|constructor].
    + constructor; [|constructor]. cbn [fst snd]. split; [exact Ht|].
      unfold uniq. cbn. constructor; [intros []|constructor].
  - inversion Hu as [|? ? Hnin Hu']; subst. inversion Hf as [|? ? [H0 Hc0] Hf']; subst.
    cbn [fst snd] in *.
    destruct (eqbZs t t0) eqn:E.
    + split.
      * cbn [map fst]. constructor; assumption.
      * constructor; [|exact Hf']. cbn [fst snd]. split; [exact H0 | now apply uniq_conf_set].
    + destruct (IH (conj Hu' Hf')) as [Hu2 Hf2]. split.
      * cbn [map fst]. constructor; [|exact Hu2].
        intros Hin. destruct (in_tm_set _ _ _ _ _ Hin) as [->|H']; [|contradiction].
        rewrite eqbZs_refl' in E. discriminate.
      * constructor; [|exact Hf2]. cbn [fst snd]. split; assumption.
Qed.

Lemma populate_ok : forall bucket m0 m, populate bucket m0 = (m, true) -> tm_ok m0 -> tm_ok m.
Proof.
  induction bucket as [|[k v] r IH]; intros m0 m H Hm0; cbn [populate] in H.
  - injection H as <-. exact Hm0.
  - destruct (split_dot k) as [[t a]|] eqn:Es; [|discriminate].
    eapply IH; [exact H|]. apply tm_set_ok; [|exact Hm0]. eapply split_dot_nodot; exact Es.
Qed.

Lemma uniq_In_assoc {A} (m : list (M_dispatch.str * A)) t st :
  uniq m -> In (t, st) m -> assoc t m = Some st.
Proof.
  unfold uniq. induction m as [|[t0 c0] r IH]; intros Hu Hin; [contradiction|].
  inversion Hu as [|? ? Hnin Hu']; subst. cbn [assoc]. destruct Hin as [Heq|Hin].
  - injection Heq as -> ->. now rewrite eqbZs_refl'.
  - destruct (eqbZs t t0) eqn:E; [|auto].
    apply eqbZs_eq in E. subst t0. exfalso. apply Hnin.
    change t with (fst (t, st)). now apply in_map.
Qed.

Lemma assoc_In_pair {A} (m : list (M_dispatch.str * A)) t st : assoc t m = Some st -> In (t, st) m.
Proof.
  induction m as [|[t0 c0] r IH]; cbn [assoc]; [discriminate|].
  destruct (eqbZs t t0) eqn:E.
  - apply eqbZs_eq in E. subst t0. intros H; injection H as ->. now left.
  - intros H. right. auto.
Qed.

Lemma NoDup_map_filter {A B} (f : A -> B) (p : A -> bool) : forall l,
  NoDup (map f l) -> NoDup (map f (filter p l)).
Proof.
  induction l as [|x r IH]; intros H; [exact H|]. cbn [map filter] in *.
  inversion H as [|? ? Hnin Hr]; subst. destruct (p x); [|auto].
  cbn [map]. constructor; [|auto]. intros Hin. apply Hnin.
  apply in_map_iff in Hin. destruct Hin as (y & <- & Hy). apply filter_In in Hy.
  apply in_map. tauto.
Qed.

Definition tool_key (ns t a : M_dispatch.str) : M_dispatch.str := ns ++ 46 :: t ++ 46 :: a.

Section ToolsThm.
Variable truthy : M_dispatch.str -> bool.
Variable is_none : M_dispatch.str -> bool.

(** bool(config.get("ns.t.on", False)) *)
Definition tool_on (ns t : M_dispatch.str) (config : conf) : bool :=
  match assoc (tool_key ns t s_on) config with Some v => truthy v | None => false end.

Lemma thm_tools ns known config m l :
  ~ In 46 ns -> uniq config ->
  run_toolbox truthy is_none ns known config = (m, l, true) ->
  NoDup (map s_tool l) /\
  forall t,
    ((exists s, In s l /\ s_tool s = t) <-> (~ In 46 t /\ tool_on ns t config = true)) /\
    (forall s, In s l -> s_tool s = t ->
       mem_str t known = true /\
       (forall a, a <> s_on -> a <> s_priority ->
                  assoc a (s_kwargs s) = assoc (tool_key ns t a) config) /\
       assoc s_on (s_kwargs s) = None /\
       assoc s_priority (s_kwargs s) = None /\
       s_prio s = match assoc (tool_key ns t s_priority) config with
                  | Some v => if is_none v then None else Some v
                  | None => None
                  end).
Proof.
  intros Hns Hu H.
  assert (Hprobe : forall t a, ~ In 46 t -> lookup2 t a m = assoc (tool_key ns t a) config).
  { intros t a Ht. eapply thm_toolmap_of_config; eauto. }
  unfold run_toolbox in H.
  destruct (populate (ns_bucket ns config) []) as [m' ok1] eqn:Ep.
  destruct (exit_toolbox truthy is_none known m') as [l' ok2] eqn:Ex.
  injection H as -> -> Hok. apply andb_true_iff in Hok. destruct Hok as [-> ->].
  assert (Hm : tm_ok m).
  { eapply populate_ok; [exact Ep|]. split; [constructor | constructor]. }
  destruct Hm as [Hmu Hmf]. rewrite Forall_forall in Hmf.
  pose proof (exit_spec truthy is_none known m l Ex) as Hl.
  pose proof (proj1 (exit_ok truthy is_none known m)) as Hk. rewrite Ex in Hk. specialize (Hk eq_refl).
  assert (Hin_l : forall s, In s l -> exists st, In (s_tool s, st) m /\ is_on truthy st = true
                                                 /\ s = setup_of is_none (s_tool s) st).
  { intros s Hs. rewrite Hl in Hs. apply in_map_iff in Hs. destruct Hs as ([t st] & <- & Hts).
    unfold on_entries in Hts. apply filter_In in Hts. cbn [fst snd] in *.
    exists st. unfold setup_of at 1 2. cbn [s_tool]. tauto. }
  split.
  { rewrite Hl, map_map. cbn [setup_of s_tool].
    unfold on_entries. apply NoDup_map_filter. exact Hmu. }
  intros t. split; [split|].
  - intros (s & Hs & <-). destruct (Hin_l s Hs) as (st & Hm & Hon & _).
    destruct (Hmf _ Hm) as [Hnd _]. cbn [fst] in Hnd. split; [exact Hnd|].
    unfold tool_on. rewrite <- Hprobe by exact Hnd. unfold lookup2.
    rewrite (uniq_In_assoc m _ _ Hmu Hm). exact Hon.
  - intros [Hnd Hon]. unfold tool_on in Hon. rewrite <- Hprobe in Hon by exact Hnd.
    unfold lookup2 in Hon. destruct (assoc t m) as [st|] eqn:Et; [|discriminate].
    exists (setup_of is_none t st). split; [|reflexivity].
    rewrite Hl. apply in_map_iff. exists (t, st). split; [reflexivity|].
    unfold on_entries. apply filter_In. split; [now apply assoc_In_pair|]. exact Hon.
  - intros s Hs <-. destruct (Hin_l s Hs) as (st & Hm & Hon & Hs').
    destruct (Hmf _ Hm) as [Hnd Hust]. cbn [fst snd] in *.
    assert (Hst : forall a, assoc a st = assoc (tool_key ns (s_tool s) a) config).
    { intros a. rewrite <- Hprobe by exact Hnd. unfold lookup2.
      now rewrite (uniq_In_assoc m _ _ Hmu Hm). }
    split.
    { apply (Hk (s_tool s, st)). unfold on_entries. apply filter_In. split; assumption. }
    destruct (setup_args is_none (s_tool s) st Hust) as (_ & Ha & Hno & Hnp & Hp).
    assert (Hkw : s_kwargs s = s_kwargs (setup_of is_none (s_tool s) st)) by (rewrite Hs' at 1; reflexivity).
    assert (Hpr : s_prio s = s_prio (setup_of is_none (s_tool s) st)) by (rewrite Hs' at 1; reflexivity).
    rewrite Hkw, Hpr, <- !Hst. repeat split; try assumption.
    intros a H1 H2. rewrite <- Hst. now apply Ha.
Qed.

End ToolsThm.

(* ---------- unrepr ---------- *)

Lemma thm_unrepr_full c E v :
  wf_lit v = true -> c_sub c = true \/ sub_free v = true ->
  build c E (to_ast v) = Ok (canon v) /\ py_eq (canon v) v = true /\
  (zero_free v = true -> canon v = v).
Proof.
  intros Hwf Hs. split; [now apply thm_unrepr|]. split; [apply thm_canon_pyeq | apply thm_canon_id].
Qed.

(* ---------- concrete configurations (non-vacuity) ---------- *)

Definition rest_of (r : fh) : list entry :=
  match fh_trail r with Some (_ :: rest) => rest | _ => [] end.

Definition c8_fn (id : Z) (cf : conf) : node := Node id true true true cf [] [] [].
(** /a/b: an exposed callable with _cp_config {k: b} *)
Definition c8_b : node := c8_fn 5 [([107], [98])].
(** the default handler of /a with _cp_config {n: d} *)
Definition c8_d : node := c8_fn 4 [([110], [100])].
(** /a: an un-exposed object with _cp_config {k: a, l: a2} *)
Definition c8_a : node :=
  Node 3 false false true [([107], [97]); ([108], [97;50])] []
       [(s_default, c8_d); ([98], c8_b)] [].
(** root: _cp_config {k: r} *)
Definition c8_root : node :=
  Node 1 false false true [([107], [114])] [] [([97], c8_a); (s_index, c8_fn 2 [])] [].
(** sections "/" {k: S/}, "/a" {k: Sa, l: Sa2}, "/a/b" {m: Sab}, "/ab" {k: LEAK} *)
Definition c8_aconf : appconf :=
  [([47], [([107], [83;47])]);
   ([47;97], [([107], [83;97]); ([108], [83;97;50])]);
   ([47;97;47;98], [([109], [83;97;98])]);
   ([47;97;98], [([107], [76;69;65;75])])].
(** global {k: g, o: g5} *)
Definition c8_g : conf := [([107], [103]); ([111], [103;53])].
Definition c8_p_ab : M_dispatch.str := [47;97;47;98].      (* "/a/b" *)
Definition c8_p_ax : M_dispatch.str := [47;97;47;120].     (* "/a/x": served by /a's default *)
Definition c8_p_abc : M_dispatch.str := [47;97;98;99].     (* "/abc": shares a STRING prefix with "/ab" *)

Lemma ex8_merge :
  (* /a/b : k from b's _cp_config (deepest), l from the section "/a" (beats a's _cp_config),
     m from the section "/a/b", o from the global config *)
  request_conf 0 [] c8_root c8_aconf c8_g c8_p_ab []
  = Some [([107], [98]); ([111], [103;53]); ([108], [83;97;50]); ([109], [83;97;98])] /\
  (let rest := rest_of (find_handler [] c8_root c8_aconf c8_p_ab) in
   fh_trail (find_handler [] c8_root c8_aconf c8_p_ab)
   = Some (root_entry c8_root c8_aconf (lenZ (fullpath_of c8_p_ab)) :: rest) /\
   all_levels 0 [] c8_root c8_aconf c8_p_ab [] rest
   = [[([107], [114])]; [([107], [83;47])];
      [([107], [97]); ([108], [97;50])]; [([107], [83;97]); ([108], [83;97;50])];
      [([107], [98])]; [([109], [83;97;98])]; []] /\
   Forall uniq (all_levels 0 [] c8_root c8_aconf c8_p_ab [] rest)) /\
  (* /a/x : the default handler's {n: d} comes right after the level of /a *)
  request_conf 0 [] c8_root c8_aconf c8_g c8_p_ax []
  = Some [([107], [83;97]); ([111], [103;53]); ([108], [83;97;50]); ([110], [100])] /\
  (let rest := rest_of (find_handler [] c8_root c8_aconf c8_p_ax) in
   fh_trail (find_handler [] c8_root c8_aconf c8_p_ax)
   = Some (root_entry c8_root c8_aconf (lenZ (fullpath_of c8_p_ax)) :: rest) /\
   all_levels 0 [] c8_root c8_aconf c8_p_ax [] rest
   = [[([107], [114])]; [([107], [83;47])];
      [([107], [97]); ([108], [97;50])]; [([107], [83;97]); ([108], [83;97;50])];
      [([110], [100])]; []; []] /\
   Forall uniq (all_levels 0 [] c8_root c8_aconf c8_p_ax [] rest)) /\
  (exists v ii T, find_handler [] c8_root c8_aconf c8_p_ax = FHFound c8_d v ii 1 true T).
Proof.
  split; [vm_compute; reflexivity|].
  split; [cbv zeta; split; [vm_compute; reflexivity|]; split;
          [vm_compute; reflexivity | apply all_uniqb; vm_compute; reflexivity]|].
  split; [vm_compute; reflexivity|].
  split; [cbv zeta; split; [vm_compute; reflexivity|]; split;
          [vm_compute; reflexivity | apply all_uniqb; vm_compute; reflexivity]|].
  eexists; eexists; eexists. vm_compute. reflexivity.
Qed.

(** the hypotheses of thm_section_beats on /a/b: level /a, key l *)
Lemma ex8_section_beats :
  let fp := fullpath_of c8_p_ab in
  let rest := rest_of (find_handler [] c8_root c8_aconf c8_p_ab) in
  exists e r2 sec,
    rest = [] ++ e :: r2 /\
    entry_sections c8_aconf fp (lenZ fp) (last_segleft (lenZ fp) []) (e_segleft e) = [] ++ sec :: [] /\
    assoc [108] (node_conf (e_node e)) = Some [97;50] /\
    assoc [108] sec = Some [83;97;50] /\
    Forall (fun c => assoc [108] c = None)
           ([] ++ marker fp (lenZ fp) e ++ trail_levels c8_aconf fp (lenZ fp) (e_segleft e) r2
               ++ handler_levels 0 [] c8_root c8_aconf c8_p_ab []).
Proof.
  cbv zeta.
  exists (hd dflt_entry (rest_of (find_handler [] c8_root c8_aconf c8_p_ab))),
         (tl (rest_of (find_handler [] c8_root c8_aconf c8_p_ab))),
         [([107], [83;97]); ([108], [83;97;50])].
  split; [vm_compute; reflexivity|]. split; [vm_compute; reflexivity|].
  split; [vm_compute; reflexivity|]. split; [vm_compute; reflexivity|].
  vm_compute. repeat constructor.
Qed.

(** "/ab" is not a segment prefix of "/abc": the section does not leak, although the
    strings share a prefix; on "/ab" itself it applies *)
Lemma ex8_scoped :
  [[97;98]] <> [] /\ Forall seg_ok [[97;98]] /\
  (forall suf, segments c8_p_abc ++ [s_index] <> [[97;98]] ++ suf) /\
  path_of [[97;98]] = [47;97;98] /\
  request_conf 0 [] c8_root c8_aconf c8_g c8_p_abc [] = Some [([107], [83;47]); ([111], [103;53])] /\
  request_conf 0 [] c8_root c8_aconf c8_g [47;97;98] []
  = Some [([107], [76;69;65;75]); ([111], [103;53])].
Proof.
  split; [discriminate|].
  split; [constructor; [|constructor]; split; [discriminate | cbn; intuition discriminate]|].
  split; [intros suf H; vm_compute in H; discriminate H|].
  repeat split; vm_compute; reflexivity.
Qed.

Lemma ex8_find_config :
  cands [97;47;98;47] = [[47;97;47;98;47]; [47;97;47;98]; [47;97]; [47]] /\
  find_config c8_aconf [47;97;47;98;47;99] [107] = FCFound [83;97] /\      (* /a/b/c : k from "/a" *)
  find_config c8_aconf c8_p_abc [107] = FCFound [83;47] /\                 (* /abc   : k from "/"  *)
  find_config c8_aconf c8_p_ab [109] = FCFound [83;97;98] /\               (* /a/b   : m from "/a/b" *)
  find_config c8_aconf c8_p_ab [122] = FCDefault.
Proof. repeat split; vm_compute; reflexivity. Qed.

(** tools.gz.on = True, level = 9, priority = 70; tools.off.on = False, x = 1;
    other.key = z; tools.np.on = 1, priority = None *)
Definition c8_s_tools : M_dispatch.str := [116;111;111;108;115].
Definition c8_tconf : conf :=
  [([116;111;111;108;115;46;103;122;46;111;110], [84;114;117;101]);
   ([116;111;111;108;115;46;103;122;46;108;101;118;101;108], [57]);
   ([116;111;111;108;115;46;103;122;46;112;114;105;111;114;105;116;121], [55;48]);
   ([116;111;111;108;115;46;111;102;102;46;111;110], [70;97;108;115;101]);
   ([116;111;111;108;115;46;111;102;102;46;120], [49]);
   ([111;116;104;101;114;46;107;101;121], [122]);
   ([116;111;111;108;115;46;110;112;46;111;110], [49]);
   ([116;111;111;108;115;46;110;112;46;112;114;105;111;114;105;116;121], [78;111;110;101])].
Definition c8_truthy (v : M_dispatch.str) : bool := negb (eqbZs v [70;97;108;115;101]).
Definition c8_is_none (v : M_dispatch.str) : bool := eqbZs v s_NoneTok.

Lemma ex8_tools :
  ~ In 46 c8_s_tools /\ uniq c8_tconf /\
  run_toolbox c8_truthy c8_is_none c8_s_tools [[103;122]; [110;112]] c8_tconf
  = ([([103;122], [(s_on, [84;114;117;101]); ([108;101;118;101;108], [57]); (s_priority, [55;48])]);
      ([111;102;102], [(s_on, [70;97;108;115;101]); ([120], [49])]);
      ([110;112], [(s_on, [49]); (s_priority, [78;111;110;101])])],
     [Setup [103;122] (Some [55;48]) [([108;101;118;101;108], [57])];
      Setup [110;112] None []],
     true).
Proof.
  split; [cbn; intuition discriminate|].
  split; [apply uniqb_ok; vm_compute; reflexivity | vm_compute; reflexivity].
Qed.

(** [(1-2j), -3]: needs build_Sub; nothing to canonicalise *)
Definition ex_lit2 : value := VList [VComplex (Fl false (MInt 1)) (Fl true (MInt 2)); VInt (-3)].

Lemma ex8_unrepr :
  wf_lit ex_lit = true /\ sub_free ex_lit = false /\ zero_free ex_lit = false /\
  build (Cfg true) (Env [] [] []) (to_ast ex_lit) = Ok (canon ex_lit) /\
  wf_lit ex_lit2 = true /\ sub_free ex_lit2 = false /\ zero_free ex_lit2 = true /\
  build (Cfg true) (Env [] [] []) (to_ast ex_lit2) = Ok ex_lit2 /\
  build (Cfg false) (Env [] [] []) (to_ast ex_lit2) = Err ENoBuilder.
Proof. repeat split; vm_compute; reflexivity. Qed.
