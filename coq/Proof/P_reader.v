(** Proofs about Model.M_reader: invariant, functional spec of read, prefix /
    completeness / bounds for every operation list. *)
From Coq Require Import ZArith List Bool Lia.
From CV Require Import Lib.Sx Lib.ListZ LibP.ListZ_facts Model.M_reader.
Import ListNotations.
Open Scope Z_scope.

Definition takeR {A} (rem : option Z) (l : list A) : list A :=
  match rem with None => l | Some r => takeZ r l end.
Definition dropR {A} (rem : option Z) (l : list A) : list A :=
  match rem with None => [] | Some r => dropZ r l end.

Lemma takeR_dropR {A} rem (l : list A) : takeR rem l ++ dropR rem l = l.
Proof. destruct rem; cbn; [apply take_drop | apply app_nil_r]. Qed.

Lemma takeZ_app_ge {A} (a b : list A) r : lenZ a <= r -> takeZ r (a ++ b) = a ++ takeZ (r - lenZ a) b.
Proof.
  intros H. pose proof (lenZ_nonneg a).
  replace r with (lenZ a + (r - lenZ a)) at 1 by lia.
  rewrite takeZ_add by lia. f_equal.
  - rewrite takeZ_app_le by lia. apply takeZ_all; lia.
  - rewrite dropZ_skipn, lenZ_spec, Nat2Z.id. rewrite skipn_app, skipn_all, Nat.sub_diag. reflexivity.
Qed.

Lemma dropZ_app_ge {A} (a b : list A) r : lenZ a <= r -> dropZ r (a ++ b) = dropZ (r - lenZ a) b.
Proof.
  intros H. pose proof (lenZ_nonneg a).
  replace r with (lenZ a + (r - lenZ a)) at 1 by lia.
  rewrite <- dropZ_dropZ by lia. f_equal.
  rewrite dropZ_skipn, lenZ_spec, Nat2Z.id. rewrite skipn_app, skipn_all, Nat.sub_diag. reflexivity.
Qed.

Lemma dropZ_app_le {A} (a b : list A) r : r <= lenZ a -> dropZ r (a ++ b) = dropZ r a ++ b.
Proof.
  intros H. rewrite !dropZ_skipn, skipn_app. rewrite lenZ_spec in H.
  replace (Z.to_nat r - length a)%nat with O by lia. reflexivity.
Qed.

Lemma takeR_split {A} rem k (l : list A) :
  0 <= k -> (forall r, rem = Some r -> k <= r) ->
  takeZ k l ++ takeR (rem_sub rem (lenZ (takeZ k l))) (dropZ k l) = takeR rem l.
Proof.
  intros Hk Hr. destruct rem as [r|]; cbn [takeR rem_sub].
  - specialize (Hr r eq_refl). rewrite lenZ_takeZ.
    destruct (Z_le_gt_dec (lenZ l) k) as [Hl|Hl].
    + rewrite (dropZ_all l k) by lia. rewrite (takeZ_all l k) by lia.
      rewrite (takeZ_all l r) by lia. destruct (_ - _); now rewrite ?app_nil_r.
    + replace (Z.min (Z.max 0 k) (lenZ l)) with k by lia.
      replace r with (k + (r - k)) at 2 by lia. now rewrite takeZ_add by lia.
  - apply take_drop.
Qed.

Lemma dropR_split {A} rem k (l : list A) :
  0 <= k -> (forall r, rem = Some r -> k <= r) ->
  dropR (rem_sub rem (lenZ (takeZ k l))) (dropZ k l) = dropR rem l.
Proof.
  intros Hk Hr. destruct rem as [r|]; cbn [dropR rem_sub]; [|reflexivity].
  specialize (Hr r eq_refl). rewrite lenZ_takeZ.
  destruct (Z_le_gt_dec (lenZ l) k) as [Hl|Hl].
  - rewrite (dropZ_all l k) by lia. rewrite (dropZ_all l r) by lia. now destruct (_ - _).
  - replace (Z.min (Z.max 0 k) (lenZ l)) with k by lia.
    rewrite dropZ_dropZ by lia. f_equal. lia.
Qed.

(** ---------- the socket ---------- *)

Lemma fp_read_spec n s data s1 :
  fp_read n s = (data, s1) -> 1 <= n ->
  exists k, 1 <= k <= n /\ data = takeZ k (src s) /\ src s1 = dropZ k (src s) /\
            buf s1 = buf s /\ bread s1 = bread s /\ taken s1 = taken s + lenZ data.
Proof.
  unfold fp_read. intros H Hn. inversion H; subst; clear H. cbn.
  destruct (frags s) as [|f fr].
  - exists n. repeat split; lia.
  - exists (Z.min n (Z.max 1 f)). repeat split; lia.
Qed.

Lemma takeZ_pos_nil {A} k (l : list A) : 1 <= k -> takeZ k l = [] -> l = [].
Proof.
  intros Hk H. destruct l as [|x r]; [reflexivity|]. cbn [takeZ] in H.
  destruct (0 <? k) eqn:E; [discriminate | apply Z.ltb_ge in E; lia].
Qed.

Lemma over_false_le c s s' : over c s = false -> bread s' <= bread s -> over c s' = false.
Proof.
  unfold over. intros H Hle. destruct (c_maxb c =? 0); cbn in *; [reflexivity|].
  apply Z.ltb_ge in H. apply Z.ltb_ge. lia.
Qed.

Lemma takeZ_nonpos_nil {A} r : takeZ r (@nil A) = [].
Proof. reflexivity. Qed.

Definition sock_post (c : cfg) (rem : option Z) (acc : list Z) (s : rd)
           (st : status) (out : list Z) (s' : rd) : Prop :=
  buf s' = buf s /\
  ((st = SOk /\ out = acc ++ takeR rem (src s) /\ src s' = dropR rem (src s)
    /\ bread s' = bread s + lenZ (takeR rem (src s))
    /\ taken s' = taken s + lenZ (takeR rem (src s))
    /\ (over c s = false -> over c s' = false)
    /\ (rem_pos rem = true -> done s' = true \/ exists r, rem = Some r /\ lenZ (takeR rem (src s)) = r))
   \/
   (st = S413 /\ exists pre, out = acc ++ pre /\ 0 < c_maxb c
    /\ (over c s = false -> bread s + lenZ pre <= c_maxb c)
    /\ c_maxb c < bread s' /\ bread s' <= bread s + lenZ (takeR rem (src s))
    /\ taken s' = taken s + (bread s' - bread s))).

Lemma rem_pos_false_takeR {A} rem (l : list A) : rem_pos rem = false -> takeR rem l = [] /\ dropR rem l = l.
Proof.
  destruct rem as [r|]; cbn; [|discriminate]. intros H. apply Z.ltb_ge in H.
  split; [apply takeZ_nonpos | apply dropZ_nonpos]; lia.
Qed.

Lemma sock_loop_spec : forall fuel c rem acc s st out s',
  1 <= c_bufsize c -> 0 <= c_maxb c ->
  (length (src s) < fuel)%nat ->
  sock_loop fuel c rem acc s = (st, out, s') ->
  sock_post c rem acc s st out s'.
Proof.
  unfold sock_post. induction fuel as [|f IH]; intros c rem acc s st out s' Hb Hm Hf H; [lia|].
  cbn [sock_loop] in H.
  destruct (rem_pos rem) eqn:Hp; cbv beta iota in H.
  2:{ inversion H; subst. destruct (rem_pos_false_takeR rem (src s') Hp) as [E1 E2].
      split; [reflexivity|]. left. rewrite E1, E2, app_nil_r, lenZ_nil.
      repeat split; try lia; try tauto; intros; congruence. }
  set (chunksize := match rem with None => c_bufsize c | Some r => Z.min r (c_bufsize c) end) in *.
  assert (Hcs : 1 <= chunksize).
  { subst chunksize. destruct rem as [r|]; [|lia]. cbn in Hp. apply Z.ltb_lt in Hp. lia. }
  assert (Hcr : forall r, rem = Some r -> chunksize <= r).
  { intros r ->. subst chunksize. lia. }
  destruct (fp_read chunksize s) as [data s1] eqn:Hfp.
  destruct (fp_read_spec _ _ _ _ Hfp Hcs) as (k & Hk & Hdata & Hsrc & Hbuf & Hbr & Htk).
  destruct data as [|x data'].
  - (* EOF *)
    inversion H; subst st out s'; clear H.
    symmetry in Hdata. apply takeZ_pos_nil in Hdata; [|lia].
    rewrite Hdata in *. split; [cbn; exact Hbuf|]. left.
    assert (Et : takeR rem (@nil Z) = []) by (destruct rem as [r|]; [apply takeZ_nonpos_nil|reflexivity]).
    assert (Ed : dropR rem (@nil Z) = []) by (destruct rem; reflexivity).
    rewrite Et, Ed, app_nil_r, lenZ_nil. cbn. rewrite Hbr, Htk. cbn.
    repeat split; try lia; try reflexivity.
    + rewrite Hsrc. reflexivity.
    + intros Ho. eapply over_false_le; [exact Ho|]. cbn. lia.
  - remember (x :: data') as data eqn:Edata.
    assert (Hlen : 1 <= lenZ data) by (subst data; rewrite lenZ_cons; pose proof (lenZ_nonneg data'); lia).
    assert (Hsplit : data ++ takeR (rem_sub rem (lenZ data)) (src s1) = takeR rem (src s)).
    { rewrite Hsrc, Hdata. apply takeR_split; [lia|]. intros r Hr. specialize (Hcr r Hr). lia. }
    assert (Hdsplit : dropR (rem_sub rem (lenZ data)) (src s1) = dropR rem (src s)).
    { rewrite Hsrc, Hdata. apply dropR_split; [lia|]. intros r Hr. specialize (Hcr r Hr). lia. }
    destruct (over c (add_bread (lenZ data) s1)) eqn:Hov.
    + (* 413 *)
      inversion H; subst st out s'; clear H.
      split; [cbn; exact Hbuf|]. right. split; [reflexivity|]. exists [].
      rewrite app_nil_r. change (lenZ (@nil Z)) with 0. cbn [add_bread bread taken].
      unfold over in Hov. cbn [add_bread bread] in Hov.
      apply andb_prop in Hov. destruct Hov as [H1 H2]. apply Z.ltb_lt in H2.
      apply negb_true_iff, Z.eqb_neq in H1.
      rewrite <- Hsplit, lenZ_app. pose proof (lenZ_nonneg (takeR (rem_sub rem (lenZ data)) (src s1))).
      repeat split; try lia.
      intros Ho. unfold over in Ho. apply andb_false_iff in Ho. destruct Ho as [Ho|Ho].
      * apply negb_false_iff, Z.eqb_eq in Ho. lia.
      * apply Z.ltb_ge in Ho. lia.
    + specialize (IH c (rem_sub rem (lenZ data)) (acc ++ data) (add_bread (lenZ data) s1) st out s' Hb Hm).
      assert (Hf' : (length (src (add_bread (lenZ data) s1)) < f)%nat).
      { cbn [add_bread src]. rewrite Hsrc, dropZ_skipn, skipn_length.
        assert (length (src s) <> 0)%nat by (intros E; apply length_zero_iff_nil in E; rewrite E in Hdata; subst data; discriminate).
        lia. }
      specialize (IH Hf' H). cbn [add_bread src buf bread taken] in IH.
      destruct IH as [IHb IH]. split; [congruence|].
      destruct IH as [(-> & Eo & Es & Ebr & Etk & Eov & Edone) | (-> & pre & Eo & Em & Ebd & Elt & Ele & Etk)].
      * left. rewrite <- Hsplit, <- Hdsplit, lenZ_app, Eo, Es, Ebr, Etk, Hbr, Htk, app_assoc.
        repeat split; try lia.
        -- intros _. apply Eov. exact Hov.
        -- intros _. assert (Hp' : rem_pos (rem_sub rem (lenZ data)) = true \/ rem_pos (rem_sub rem (lenZ data)) = false)
             by (destruct (rem_pos _); tauto).
           destruct Hp' as [Hp'|Hp'].
           ++ destruct (Edone Hp') as [Hd|(r & Er & El)]; [now left|right].
              destruct rem as [r0|]; [|discriminate]. cbn [rem_sub] in Er. inversion Er; subst r.
              exists r0. split; [reflexivity|]. lia.
           ++ right. destruct rem as [r0|]; [|discriminate]. cbn [rem_sub rem_pos] in Hp'.
              apply Z.ltb_ge in Hp'. exists r0. split; [reflexivity|].
              destruct (rem_pos_false_takeR (Some (r0 - lenZ data)) (src s1)) as [E1 _]; [cbn; now apply Z.ltb_ge|].
              cbn [rem_sub] in *. rewrite E1, lenZ_nil.
              specialize (Hcr r0 eq_refl).
              assert (lenZ data <= k) by (rewrite Hdata, lenZ_takeZ; lia). lia.
      * right. split; [reflexivity|]. exists (data ++ pre).
        rewrite <- Hsplit, lenZ_app, Eo, app_assoc, lenZ_app. rewrite Hbr in *. rewrite Htk in *.
        repeat split; try lia.
        intros Ho. apply Ebd in Hov. lia.
Qed.

Lemma takeR_app {A} rem (a b : list A) :
  (forall r, rem = Some r -> 0 <= r) ->
  takeR rem a ++ takeR (rem_sub rem (lenZ (takeR rem a))) b = takeR rem (a ++ b).
Proof.
  intros H0. destruct rem as [r|]; cbn [takeR rem_sub]; [|reflexivity].
  specialize (H0 r eq_refl). pose proof (lenZ_nonneg a).
  destruct (Z_le_gt_dec r (lenZ a)).
  - rewrite lenZ_takeZ. replace (r - Z.min (Z.max 0 r) (lenZ a)) with 0 by lia.
    rewrite (takeZ_nonpos b 0) by lia. rewrite app_nil_r. now rewrite takeZ_app_le.
  - rewrite (takeZ_all a r) by lia. now rewrite takeZ_app_ge by lia.
Qed.

Lemma dropR_app {A} rem (a b : list A) :
  (forall r, rem = Some r -> 0 <= r) ->
  dropR rem a ++ dropR (rem_sub rem (lenZ (takeR rem a))) b = dropR rem (a ++ b).
Proof.
  intros H0. destruct rem as [r|]; cbn [takeR dropR rem_sub]; [|reflexivity].
  specialize (H0 r eq_refl). pose proof (lenZ_nonneg a).
  destruct (Z_le_gt_dec r (lenZ a)).
  - rewrite lenZ_takeZ. replace (r - Z.min (Z.max 0 r) (lenZ a)) with 0 by lia.
    rewrite (dropZ_nonpos b 0) by lia. now rewrite dropZ_app_le.
  - rewrite (takeZ_all a r) by lia. rewrite (dropZ_all a r) by lia. now rewrite dropZ_app_ge by lia.
Qed.

Lemma lenZ_takeR_le {A} rem (l : list A) : lenZ (takeR rem l) <= lenZ l.
Proof. destruct rem; cbn [takeR]; [rewrite lenZ_takeZ|]; pose proof (lenZ_nonneg l); lia. Qed.

Lemma lenZ_takeR_rem {A} r (l : list A) : 0 <= r -> lenZ (takeR (Some r) l) <= r.
Proof. intros. cbn [takeR]. rewrite lenZ_takeZ. lia. Qed.

Lemma lenZ_take_drop_R {A} rem (l : list A) : lenZ (takeR rem l) + lenZ (dropR rem l) = lenZ l.
Proof. rewrite <- lenZ_app, takeR_dropR. reflexivity. Qed.

(** ---------- invariant and the functional spec of read ---------- *)

Record WF (c : cfg) : Prop := {
  wf_buf : 1 <= c_bufsize c;
  wf_max : 0 <= c_maxb c;
  wf_len : forall cl, c_len c = Some cl -> 0 <= cl;
  wf_front : c_front c = true }.

Record Inv (c : cfg) (body d : list Z) (s : rd) : Prop := {
  i_split : d ++ buf s ++ src s = body;
  i_bread : bread s = lenZ d;
  i_taken : taken s = lenZ d + lenZ (buf s);
  i_len : forall cl, c_len c = Some cl -> taken s <= cl;
  i_over : over c s = false }.

Definition body_eff (c : cfg) (body : list Z) : list Z :=
  match c_len c with Some cl => takeZ cl body | None => body end.

Lemma over_false_bound c s : 0 <= c_maxb c -> over c s = false -> c_maxb c = 0 \/ bread s <= c_maxb c.
Proof.
  unfold over. intros Hm H. apply andb_false_iff in H. destruct H as [H|H].
  - apply negb_false_iff, Z.eqb_eq in H. now left.
  - apply Z.ltb_ge in H. now right.
Qed.

Lemma over_true_bound c s : over c s = true -> c_maxb c <> 0 /\ c_maxb c < bread s.
Proof.
  unfold over. intros H. apply andb_prop in H. destruct H as [H1 H2].
  apply negb_true_iff, Z.eqb_neq in H1. apply Z.ltb_lt in H2. tauto.
Qed.

Lemma lenZ_body_eff_ge c body d s k :
  WF c -> Inv c body d s -> 0 <= k ->
  k <= lenZ (buf s) + lenZ (src s) ->
  (forall cl, c_len c = Some cl -> lenZ d + k <= cl) ->
  lenZ d + k <= lenZ (body_eff c body).
Proof.
  intros W Hi Hk Hle Hcl. unfold body_eff.
  assert (Hb : lenZ body = lenZ d + lenZ (buf s) + lenZ (src s)).
  { rewrite <- (i_split _ _ _ _ Hi), !lenZ_app. lia. }
  destruct (c_len c) as [cl|] eqn:E.
  - specialize (Hcl cl eq_refl). rewrite lenZ_takeZ. pose proof (wf_len _ W cl E). lia.
  - lia.
Qed.

Definition read_ok (c : cfg) (body d : list Z) (s : rd) (size : option Z)
           (st : status) (data : list Z) (s' : rd) : Prop :=
  (st = SOk /\ data = takeR (read_rem c size s) (buf s ++ src s) /\ Inv c body (d ++ data) s')
  \/ (st = S413 /\ 0 < c_maxb c /\ lenZ d + lenZ data <= c_maxb c
      /\ c_maxb c < lenZ (body_eff c body)
      /\ (forall cl, c_len c = Some cl -> taken s' <= cl)).

Lemma read_spec c body d s size st data s' :
  WF c -> Inv c body d s -> neg_size size = false ->
  read c size s = (st, data, s') ->
  read_ok c body d s size st data s'.
Proof.
  intros W Hi Hneg H. unfold read_ok. unfold read in H. rewrite Hneg in H.
  pose proof (wf_buf _ W) as Hb. pose proof (wf_max _ W) as Hm.
  destruct Hi as [Isp Ibr Itk Ilen Iov].
  assert (Hbody : lenZ body = lenZ d + lenZ (buf s) + lenZ (src s)).
  { rewrite <- Isp, !lenZ_app. lia. }
  pose proof (lenZ_nonneg (buf s)) as Hnb. pose proof (lenZ_nonneg (src s)) as Hns.
  pose proof (lenZ_nonneg d) as Hnd.
  set (rem := read_rem c size s) in *.
  (* bounds on rem when a length is declared *)
  assert (Hrem : forall cl, c_len c = Some cl -> exists r, rem = Some r /\ 0 <= r /\ lenZ d + r <= cl).
  { intros cl E. subst rem. unfold read_rem. rewrite E.
    specialize (Ilen cl E).
    destruct size as [n|].
    - cbn in Hneg. apply Z.ltb_ge in Hneg.
      destruct (negb (n =? 0) && (n <? cl - bread s)) eqn:Ec.
      + apply andb_prop in Ec. destruct Ec as [_ Ec]. apply Z.ltb_lt in Ec. exists n. split; [reflexivity|lia].
      + exists (cl - bread s). split; [reflexivity|lia].
    - exists (cl - bread s). split; [reflexivity|lia]. }
  assert (Hrem0 : forall r, rem = Some r -> 0 <= r).
  { intros r Er. destruct (c_len c) as [cl|] eqn:E.
    - destruct (Hrem cl eq_refl) as (r' & Er' & H0 & _). rewrite Er in Er'. inversion Er'; subst. lia.
    - subst rem. unfold read_rem in Er. rewrite E in Er. subst size. cbn in Hneg. apply Z.ltb_ge in Hneg. lia. }
  clearbody rem.
  destruct (match rem with Some 0 => true | _ => false end) eqn:Hz.
  { (* remaining == 0 *)
    assert (rem = Some 0) as -> by (destruct rem as [[| |]|]; try discriminate; reflexivity).
    inversion H; subst st data s'; clear H. left. split; [reflexivity|]. cbn [takeR].
    rewrite takeZ_nonpos by lia. split; [reflexivity|]. rewrite app_nil_r.
    constructor; cbn; assumption. }
  destruct (buf s) as [|b0 bs] eqn:Ebuf.
  - (* empty buffer: straight to the socket *)
    apply sock_loop_spec in H; [|assumption|assumption|lia].
    destruct H as [Hbuf' H]. cbn [app] in *.
    destruct H as [(-> & Eo & Es & Ebr & Etk & Eov & _) | (-> & pre & Eo & Em & Ebd & Elt & Ele & Etk)].
    + left. split; [reflexivity|]. cbn [app] in Eo. split; [exact Eo|].
      subst data. constructor.
      * rewrite Hbuf', Ebuf, Es. cbn [app]. rewrite <- app_assoc, takeR_dropR. exact Isp.
      * rewrite Ebr, lenZ_app. lia.
      * rewrite Etk, Hbuf', Ebuf, lenZ_app. change (lenZ (@nil Z)) with 0 in *. lia.
      * intros cl E. destruct (Hrem cl E) as (r & -> & H0 & Hle). cbn [takeR] in *.
        rewrite Etk, lenZ_takeZ. change (lenZ (@nil Z)) with 0 in *. lia.
      * apply Eov. exact Iov.
    + right. split; [reflexivity|]. split; [exact Em|]. subst data. cbn [app].
      split; [specialize (Ebd Iov); lia|].
      split.
      * eapply Z.lt_le_trans; [exact Elt|].
        rewrite Ibr in Ele.
        eapply Z.le_trans; [exact Ele|].
        eapply (lenZ_body_eff_ge c body d s); [exact W| constructor; rewrite ?Ebuf; assumption | apply lenZ_nonneg | |].
        -- rewrite Ebuf. change (lenZ (@nil Z)) with 0. destruct rem as [r|]; cbn [takeR]; [rewrite lenZ_takeZ|]; lia.
        -- intros cl E. destruct (Hrem cl E) as (r & -> & H0 & Hle). cbn [takeR]. rewrite lenZ_takeZ. lia.
      * intros cl E. destruct (Hrem cl E) as (r & -> & H0 & Hle). cbn [takeR] in *.
        rewrite lenZ_takeZ in Ele. change (lenZ (@nil Z)) with 0 in *. lia.
  - rewrite <- Ebuf in *. clear b0 bs Ebuf.
    change (match rem with Some r => takeZ r (buf s) | None => buf s end) with (takeR rem (buf s)) in H.
    change (match rem with Some r => dropZ r (buf s) | None => [] end) with (dropR rem (buf s)) in H.
    set (db := takeR rem (buf s)) in *. set (rest := dropR rem (buf s)) in *.
    set (s1 := add_bread (lenZ db) (set_buf rest s)) in *.
    assert (Hdb : lenZ db + lenZ rest = lenZ (buf s)) by apply lenZ_take_drop_R.
    pose proof (lenZ_nonneg db) as Hndb. pose proof (lenZ_nonneg rest) as Hnrest.
    assert (Hk1 : lenZ db <= lenZ (buf s) + lenZ (src s)) by lia.
    assert (Hk2 : forall cl, c_len c = Some cl -> lenZ d + lenZ (takeR rem (buf s ++ src s)) <= cl).
    { intros cl E. destruct (Hrem cl E) as (r & -> & H0 & Hle). pose proof (lenZ_takeR_rem r (buf s ++ src s) H0). lia. }
    assert (Hk3 : lenZ (takeR rem (buf s ++ src s)) <= lenZ (buf s) + lenZ (src s)).
    { pose proof (lenZ_takeR_le rem (buf s ++ src s)). rewrite lenZ_app in *. lia. }
    assert (Htot : lenZ db + lenZ (takeR (rem_sub rem (lenZ db)) (src s)) = lenZ (takeR rem (buf s ++ src s))).
    { rewrite <- lenZ_app. subst db. now rewrite takeR_app. }
    destruct (over c s1) eqn:Hov.
    + inversion H; subst st data s'; clear H. right. split; [reflexivity|].
      destruct (over_true_bound _ _ Hov) as [Hne Hlt].
      destruct (over_false_bound _ _ Hm Iov) as [Hz0|Hle]; [lia|].
      change (lenZ (@nil Z)) with 0. subst s1. cbn [add_bread set_buf bread] in Hlt.
      split; [lia|]. split; [lia|]. split.
      * eapply Z.lt_le_trans; [exact Hlt|]. rewrite Ibr.
        pose proof (lenZ_nonneg (takeR (rem_sub rem (lenZ db)) (src s))).
        eapply Z.le_trans with (m := lenZ d + lenZ (takeR rem (buf s ++ src s))); [lia|].
        eapply (lenZ_body_eff_ge c body d s); [exact W| constructor; assumption | apply lenZ_nonneg | exact Hk3 | exact Hk2].
      * cbn [add_bread set_buf taken]. exact Ilen.
    + apply sock_loop_spec in H; [|assumption|assumption|subst s1; cbn; lia].
      destruct H as [Hbuf' H]. subst s1. cbn [add_bread set_buf src buf bread taken] in *.
      destruct H as [(-> & Eo & Es & Ebr & Etk & Eov & _) | (-> & pre & Eo & Em & Ebd & Elt & Ele & Etk)].
      * left. split; [reflexivity|].
        assert (Edata : data = takeR rem (buf s ++ src s)) by (rewrite Eo; subst db; now apply takeR_app).
        split; [exact Edata|]. constructor.
        -- rewrite Hbuf', Es. subst rest db. rewrite dropR_app by assumption. rewrite Edata.
           rewrite <- app_assoc, takeR_dropR. exact Isp.
        -- rewrite Ebr, Edata, lenZ_app. lia.
        -- rewrite Etk, Hbuf', Edata, lenZ_app. lia.
        -- intros cl E. rewrite Etk. specialize (Hk2 cl E). specialize (Ilen cl E).
           destruct (Hrem cl E) as (r & Er & H0 & Hle). subst rem.
           cbn [takeR rem_sub] in *. subst db. cbn [takeR] in *. rewrite !lenZ_takeZ in *. lia.
        -- apply Eov. exact Hov.
      * right. split; [reflexivity|]. split; [exact Em|]. subst data. rewrite lenZ_app.
        split; [specialize (Ebd Hov); lia|].
        split.
        -- eapply Z.lt_le_trans; [exact Elt|].
           eapply Z.le_trans with (m := lenZ d + lenZ (takeR rem (buf s ++ src s))); [lia|].
           eapply (lenZ_body_eff_ge c body d s); [exact W| constructor; assumption | apply lenZ_nonneg | exact Hk3 | exact Hk2].
        -- intros cl E. specialize (Hk2 cl E). specialize (Ilen cl E).
           destruct (Hrem cl E) as (r & Er & H0 & Hle). subst rem.
           cbn [takeR rem_sub] in *. subst db. cbn [takeR] in *. rewrite !lenZ_takeZ in *. lia.
Qed.

(** ---------- readline / readlines / step / run ---------- *)

Definition op_post (c : cfg) (body d : list Z) (st : status) (out : list Z) (s' : rd) : Prop :=
  (st = SOk /\ Inv c body (d ++ out) s')
  \/ (st = S413 /\ 0 < c_maxb c /\ lenZ d + lenZ out <= c_maxb c
      /\ c_maxb c < lenZ (body_eff c body)
      /\ (forall cl, c_len c = Some cl -> taken s' <= cl)).

Lemma Inv_measure c body d d' s s' :
  Inv c body d s -> Inv c body (d ++ d') s' ->
  (length (buf s') + length (src s') + length d' = length (buf s) + length (src s))%nat.
Proof.
  intros [H1 _ _ _ _] [H2 _ _ _ _]. rewrite <- H2 in H1.
  apply (f_equal (@length Z)) in H1. rewrite !app_length in H1. lia.
Qed.

Lemma find_nl_le l pos : find_nl l = Some pos -> (1 <= pos <= length l)%nat.
Proof.
  revert pos; induction l as [|x r IH]; intros pos H; cbn [find_nl] in H; [discriminate|].
  destruct (x =? 10).
  - inversion H; subst. cbn [length]. lia.
  - destruct (find_nl r) as [k|]; [|discriminate]. inversion H; subst.
    specialize (IH k eq_refl). cbn [length]. lia.
Qed.

Lemma rl_loop_spec : forall fuel c body d size acc s st out s',
  WF c -> Inv c body (d ++ acc) s ->
  (length (buf s) + length (src s) < fuel)%nat ->
  rl_loop fuel c size acc s = (st, out, s') ->
  op_post c body d st out s'.
Proof.
  unfold op_post.
  induction fuel as [|f IH]; intros c body d size acc s st out s' W Hi Hf H; [lia|].
  cbn [rl_loop] in H.
  destruct (match size with None => true | Some n => 0 <? n end) eqn:Hsz; cbv beta iota in H.
  2:{ inversion H; subst. left. split; [reflexivity | assumption]. }
  set (chunksize := match size with None => c_bufsize c
                               | Some n => if n <? c_bufsize c then n else c_bufsize c end) in *.
  assert (Hcs : 1 <= chunksize).
  { pose proof (wf_buf _ W). subst chunksize. destruct size as [n|]; [|lia].
    apply Z.ltb_lt in Hsz. destruct (n <? c_bufsize c); lia. }
  destruct (read c (Some chunksize) s) as [[st0 data] s1] eqn:Hrd.
  assert (Hng : neg_size (Some chunksize) = false) by (cbn; apply Z.ltb_ge; lia).
  pose proof (read_spec _ _ _ _ _ _ _ _ W Hi Hng Hrd) as Hr. unfold read_ok in Hr.
  destruct Hr as [(-> & Edata & Hi1) | (-> & Hm0 & Hle & Hlt & Htk)].
  - destruct data as [|x data'].
    + inversion H; subst. left. split; [reflexivity|]. now rewrite app_nil_r in Hi1.
    + remember (x :: data') as data eqn:Ed.
      pose proof (Inv_measure _ _ _ _ _ _ Hi Hi1) as Hms.
      assert (Hdl : (1 <= length data)%nat) by (subst data; cbn; lia).
      destruct (find_nl data) as [pos|] eqn:Hnl.
      * inversion H; subst st out s'; clear H. left. split; [reflexivity|].
        rewrite (wf_front _ W).
        destruct Hi1 as [Isp Ibr Itk Ilen Iov].
        pose proof (firstn_skipn pos data) as Hfs.
        assert (Hlen : lenZ data = lenZ (firstn pos data) + lenZ (skipn pos data))
          by (rewrite <- lenZ_app, Hfs; reflexivity).
        pose proof (lenZ_nonneg (skipn pos data)).
        constructor; cbn [add_bread set_buf src buf bread taken].
        -- rewrite <- Isp. rewrite <- Hfs at 3. now rewrite <- !app_assoc.
        -- rewrite Ibr, !lenZ_app in *. lia.
        -- rewrite Itk, !lenZ_app in *. lia.
        -- exact Ilen.
        -- eapply over_false_le; [exact Iov|]. cbn. lia.
      * apply (IH c body d size (acc ++ data) s1 st out s' W); [now rewrite app_assoc | lia | exact H].
  - inversion H; subst. right. rewrite lenZ_app in Hle. pose proof (lenZ_nonneg data).
    repeat split; try assumption; lia.
Qed.

Lemma readline_spec c body d size s st out s' :
  WF c -> Inv c body d s -> readline c size s = (st, out, s') -> op_post c body d st out s'.
Proof.
  intros W Hi H. unfold readline in H.
  eapply (rl_loop_spec (rl_fuel s) c body d size [] s); [exact W | rewrite app_nil_r; exact Hi | unfold rl_fuel; lia | exact H].
Qed.

Lemma rls_loop_spec : forall fuel c body d hint seen acc s st out s',
  WF c -> Inv c body (d ++ concat acc) s ->
  (length (buf s) + length (src s) < fuel)%nat ->
  rls_loop fuel c hint seen acc s = (st, out, s') ->
  op_post c body d st (concat out) s'.
Proof.
  unfold op_post.
  induction fuel as [|f IH]; intros c body d hint seen acc s st out s' W Hi Hf H; [lia|].
  cbn [rls_loop] in H.
  destruct (readline c None s) as [[st0 line] s1] eqn:Hrl.
  pose proof (readline_spec _ _ _ _ _ _ _ _ W Hi Hrl) as Hr. unfold op_post in Hr.
  destruct Hr as [(-> & Hi1) | (-> & Hm0 & Hle & Hlt & Htk)].
  - destruct line as [|x line'].
    + inversion H; subst. left. split; [reflexivity|]. now rewrite app_nil_r in Hi1.
    + remember (x :: line') as line eqn:El.
      pose proof (Inv_measure _ _ _ _ _ _ Hi Hi1) as Hms.
      assert (Hdl : (1 <= length line)%nat) by (subst line; cbn; lia).
      assert (Hi2 : Inv c body (d ++ concat (acc ++ [line])) s1).
      { rewrite concat_app. cbn [concat]. rewrite app_nil_r. now rewrite app_assoc. }
      destruct hint as [h|].
      * destruct (h <=? seen + lenZ line).
        -- inversion H; subst. left. split; [reflexivity | exact Hi2].
        -- apply (IH c body d (Some h) (seen + lenZ line) (acc ++ [line]) s1 st out s' W Hi2); [lia | exact H].
      * apply (IH c body d None (seen + lenZ line) (acc ++ [line]) s1 st out s' W Hi2); [lia | exact H].
  - inversion H; subst. right. rewrite lenZ_app in Hle. pose proof (lenZ_nonneg line).
    repeat split; try assumption; lia.
Qed.

Lemma readlines_spec c body d hint s st out s' :
  WF c -> Inv c body d s -> readlines c hint s = (st, out, s') -> op_post c body d st (concat out) s'.
Proof.
  intros W Hi H. unfold readlines in H.
  eapply (rls_loop_spec (rl_fuel s) c body d _ 0 [] s); [exact W | cbn [concat]; rewrite app_nil_r; exact Hi | unfold rl_fuel; lia | exact H].
Qed.

Definition op_nonneg (o : op) : bool :=
  match o with ORead sz | OReadInto sz => negb (neg_size sz) | _ => true end.

Lemma step_spec c body d o s st ou s' :
  WF c -> Inv c body d s -> op_nonneg o = true ->
  step c o s = (st, ou, s') -> op_post c body d st (out_bytes ou) s'.
Proof.
  intros W Hi Hnn H. destruct o as [sz|sz|h| |sz]; cbn [step] in H.
  - destruct (read c sz s) as [[st0 b] s1] eqn:Hr. inversion H; subst. cbn [out_bytes].
    cbn in Hnn. apply negb_true_iff in Hnn.
    pose proof (read_spec _ _ _ _ _ _ _ _ W Hi Hnn Hr) as Hs. unfold read_ok, op_post in *.
    destruct Hs as [(-> & _ & Hi1)|Hs]; [left; tauto | right; exact Hs].
  - destruct (readline c sz s) as [[st0 b] s1] eqn:Hr. inversion H; subst. cbn [out_bytes].
    eapply readline_spec; eassumption.
  - destruct (readlines c h s) as [[st0 b] s1] eqn:Hr. inversion H; subst. cbn [out_bytes].
    eapply readlines_spec; eassumption.
  - destruct (readline c None s) as [[st0 b] s1] eqn:Hr.
    pose proof (readline_spec _ _ _ _ _ _ _ _ W Hi Hr) as Hs.
    destruct st0; destruct b; inversion H; subst; cbn [out_bytes]; exact Hs.
  - destruct (read c sz s) as [[st0 b] s1] eqn:Hr. inversion H; subst. cbn [out_bytes].
    cbn in Hnn. apply negb_true_iff in Hnn.
    pose proof (read_spec _ _ _ _ _ _ _ _ W Hi Hnn Hr) as Hs. unfold read_ok, op_post in *.
    destruct Hs as [(-> & _ & Hi1)|Hs]; [left; tauto | right; exact Hs].
Qed.

Definition delivered (outs : list (status * out)) : list Z :=
  concat (map (fun x => out_bytes (snd x)) outs).
Definition all_ok (outs : list (status * out)) : Prop :=
  Forall (fun x => fst x = SOk) outs.

(** what an execution of an operation list establishes *)
Definition run_post (c : cfg) (body d : list Z) (outs : list (status * out)) (s' : rd) : Prop :=
  (all_ok outs /\ Inv c body (d ++ delivered outs) s')
  \/ (exists pre last sp,
        outs = pre ++ [(S413, last)] /\ all_ok pre /\ Inv c body (d ++ delivered pre) sp
        /\ 0 < c_maxb c /\ lenZ d + lenZ (delivered outs) <= c_maxb c
        /\ c_maxb c < lenZ (body_eff c body)
        /\ (forall cl, c_len c = Some cl -> taken s' <= cl)).

Lemma run_spec : forall ops c body d s outs s',
  WF c -> Inv c body d s -> forallb op_nonneg ops = true ->
  run c ops s = (outs, s') -> run_post c body d outs s'.
Proof.
  unfold run_post.
  induction ops as [|o ops IH]; intros c body d s outs s' W Hi Hnn H; cbn [run] in H.
  - inversion H; subst. left. split; [constructor|]. unfold delivered. cbn. now rewrite app_nil_r.
  - cbn [forallb] in Hnn. apply andb_prop in Hnn. destruct Hnn as [Hn1 Hn2].
    destruct (step c o s) as [[st ou] s1] eqn:Hst.
    pose proof (step_spec _ _ _ _ _ _ _ _ W Hi Hn1 Hst) as Hs. unfold op_post in Hs.
    destruct Hs as [(-> & Hi1) | (-> & Hm0 & Hle & Hlt & Htk)].
    + destruct (run c ops s1) as [outs1 s2] eqn:Hrun. inversion H; subst outs s'; clear H.
      specialize (IH c body (d ++ out_bytes ou) s1 outs1 s2 W Hi1 Hn2 Hrun).
      unfold delivered in *. cbn [map concat snd].
      destruct IH as [(Hok & Hi2) | (pre & last & sp & -> & Hok & Hip & Hm0 & Hle & Hlt & Htk)].
      * left. split; [constructor; [reflexivity | exact Hok]|]. now rewrite app_assoc.
      * right. exists ((SOk, ou) :: pre), last, sp.
        split; [reflexivity|]. split; [constructor; [reflexivity | exact Hok]|].
        cbn [map concat snd]. rewrite app_assoc. split; [exact Hip|].
        rewrite lenZ_app in *. repeat split; try assumption; lia.
    + inversion H; subst outs s'; clear H. right. exists [], ou, s.
      unfold delivered. cbn [map concat snd app]. rewrite !app_nil_r.
      split; [reflexivity|]. split; [apply Forall_nil|]. split; [exact Hi|].
      repeat split; assumption.
Qed.

Lemma Inv_init c body fr : WF c -> Inv c body [] (init body fr).
Proof.
  intros W. constructor; cbn.
  - reflexivity.
  - reflexivity.
  - reflexivity.
  - intros cl E. apply (wf_len _ W cl E).
  - unfold over. cbn. pose proof (wf_max _ W). destruct (c_maxb c =? 0); cbn; [reflexivity|].
    apply Z.ltb_ge. lia.
Qed.

(** consequences of the invariant *)

Lemma Inv_prefix c body d s : WF c -> Inv c body d s -> exists rest, d ++ rest = body_eff c body.
Proof.
  intros W [Isp Ibr Itk Ilen Iov]. unfold body_eff. destruct (c_len c) as [cl|] eqn:E.
  - specialize (Ilen cl eq_refl). pose proof (lenZ_nonneg (buf s)).
    rewrite <- Isp. rewrite takeZ_app_ge by lia. eexists. reflexivity.
  - exists (buf s ++ src s). exact Isp.
Qed.

Lemma Inv_no_overread c body d s cl : Inv c body d s -> c_len c = Some cl -> taken s <= cl.
Proof. intros [_ _ _ Ilen _] E. now apply Ilen. Qed.

Lemma Inv_taken_body c body d s : Inv c body d s -> taken s = lenZ body - lenZ (src s).
Proof. intros [Isp _ Itk _ _]. rewrite <- Isp, !lenZ_app. lia. Qed.

Lemma Inv_maxbytes c body d s : WF c -> Inv c body d s -> 0 < c_maxb c -> lenZ d <= c_maxb c.
Proof.
  intros W [_ Ibr _ _ Iov] Hm. destruct (over_false_bound _ _ (wf_max _ W) Iov); lia.
Qed.

Lemma read_all_complete c body d s st ou s' :
  WF c -> Inv c body d s -> step c (ORead None) s = (st, ou, s') -> st = SOk ->
  d ++ out_bytes ou = body_eff c body.
Proof.
  intros W Hi H ->. cbn [step] in H.
  destruct (read c None s) as [[st0 b] s1] eqn:Hr. inversion H; subst. cbn [out_bytes].
  pose proof (read_spec c body d s None _ _ _ W Hi eq_refl Hr) as Hs. unfold read_ok in Hs.
  destruct Hs as [(_ & -> & _) | (Habs & _)]; [|discriminate].
  destruct Hi as [Isp Ibr Itk Ilen Iov]. unfold body_eff, read_rem.
  destruct (c_len c) as [cl|] eqn:E; cbn [takeR].
  - specialize (Ilen cl eq_refl). pose proof (lenZ_nonneg (buf s)).
    rewrite <- Isp. rewrite (takeZ_app_ge d) by lia. now rewrite Ibr.
  - exact Isp.
Qed.
