(** Lemmas about the dispatcher model: the reverse scan is a deepest-first search
    over the trail, invariants of the trail walk, the static (no _cp_dispatch)
    walk is the getattr chain. *)
From Coq Require Import ZArith List Bool Lia.
From CV Require Import Lib.Sx Lib.ListZ LibP.ListZ_facts Model.M_dispatch.
Import ListNotations.
Open Scope Z_scope.

(* ---------- small list facts ---------- *)

Lemma nthZ_of_nat {A} (l : list A) (k : nat) : nthZ (Z.of_nat k) l = nth_error l k.
Proof.
  revert k; induction l as [|x r IH]; intros k; cbn [nthZ].
  - destruct k; reflexivity.
  - destruct k as [|k].
    + reflexivity.
    + rewrite Nat2Z.inj_succ.
      destruct (Z.succ (Z.of_nat k) =? 0) eqn:E1; [apply Z.eqb_eq in E1; lia|].
      destruct (Z.succ (Z.of_nat k) <? 0) eqn:E2; [apply Z.ltb_lt in E2; lia|].
      replace (Z.succ (Z.of_nat k) - 1) with (Z.of_nat k) by lia.
      cbn [nth_error]. apply IH.
Qed.

Lemma nthZ_cons_pos {A} (x : A) r j : 0 < j -> nthZ j (x :: r) = nthZ (j - 1) r.
Proof.
  intros H. cbn [nthZ].
  destruct (j =? 0) eqn:E1; [apply Z.eqb_eq in E1; lia|].
  destruct (j <? 0) eqn:E2; [apply Z.ltb_lt in E2; lia|]. reflexivity.
Qed.

Lemma nthZ_In {A} (l : list A) j e : nthZ j l = Some e -> In e l.
Proof.
  revert j; induction l as [|x r IH]; intros j H; cbn [nthZ] in H; [discriminate|].
  destruct (j =? 0); [injection H as ->; now left|].
  destruct (j <? 0); [discriminate|]. right. eapply IH; eauto.
Qed.

Lemma nthZ_range {A} (l : list A) j e : nthZ j l = Some e -> 0 <= j < lenZ l.
Proof.
  revert j; induction l as [|x r IH]; intros j H; cbn [nthZ] in H; [discriminate|].
  rewrite lenZ_cons. pose proof (lenZ_nonneg r).
  destruct (j =? 0) eqn:E1; [apply Z.eqb_eq in E1; lia|].
  destruct (j <? 0) eqn:E2; [discriminate|].
  apply Z.ltb_ge in E2. apply IH in H. lia.
Qed.

Lemma firstn_snoc {A} (l : list A) k e :
  nth_error l k = Some e -> firstn (S k) l = firstn k l ++ [e].
Proof.
  revert k; induction l as [|x r IH]; intros k H.
  - destruct k; discriminate.
  - destruct k as [|k]; cbn [nth_error] in H.
    + injection H as ->. reflexivity.
    + change (firstn (S (S k)) (x :: r)) with (x :: firstn (S k) r).
      rewrite (IH _ H). reflexivity.
Qed.

Lemma dropZ_app_le {A} (a b : list A) n : n <= lenZ a -> dropZ n (a ++ b) = dropZ n a ++ b.
Proof.
  intros H. rewrite !dropZ_skipn. rewrite lenZ_spec in H.
  rewrite skipn_app. replace (Z.to_nat n - length a)%nat with O by lia. reflexivity.
Qed.

(** fullpath[i:-1] is segs[i:] when fullpath = segs + [index] *)
Lemma slice_segs {A} (segs : list A) (x : A) i :
  0 <= i <= lenZ segs + 1 ->
  sliceZ i (lenZ (segs ++ [x]) - 1) (segs ++ [x]) = dropZ i segs.
Proof.
  intros H. unfold sliceZ. rewrite lenZ_app. change (lenZ [x]) with 1.
  destruct (Z.eq_dec i (lenZ segs + 1)) as [->|Hne].
  - rewrite takeZ_nonpos by lia. symmetry. apply dropZ_all. lia.
  - rewrite dropZ_app_le by lia.
    rewrite takeZ_app_le by (rewrite lenZ_dropZ; lia).
    apply takeZ_all. rewrite lenZ_dropZ. lia.
Qed.

(* ---------- what a trail entry offers; deepest-first search ---------- *)

(** the handler an object offers: its exposed [default] first, else itself when exposed *)
Definition offer (o : option node) : option (node * bool) :=
  match o with
  | None => None
  | Some c =>
    match exposed_default c with
    | Some d => Some (d, true)
    | None => if n_exposed c then Some (c, false) else None
    end
  end.

Definition pick (e : entry) : option (node * bool) := offer (e_node e).

(** the last entry of the trail that offers a handler, with its index *)
Fixpoint deepest (trail : list entry) : option (Z * entry * node * bool) :=
  match trail with
  | [] => None
  | e :: r =>
    match deepest r with
    | Some (i, e', h, vd) => Some (i + 1, e', h, vd)
    | None => match pick e with
              | Some (h, vd) => Some (0, e, h, vd)
              | None => None
              end
    end
  end.

Lemma offer_exposed o h vd : offer o = Some (h, vd) -> n_exposed h = true.
Proof.
  unfold offer, exposed_default. destruct o as [c|]; [|discriminate].
  destruct (getattr c s_default) as [d|].
  - destruct (n_exposed d) eqn:E.
    + intros H; injection H as <- <-. exact E.
    + destruct (n_exposed c) eqn:E2; [|discriminate]. intros H; injection H as <- <-. exact E2.
  - destruct (n_exposed c) eqn:E2; [|discriminate]. intros H; injection H as <- <-. exact E2.
Qed.

Lemma deepest_snoc l e :
  deepest (l ++ [e]) = match pick e with
                       | Some (h, vd) => Some (lenZ l, e, h, vd)
                       | None => deepest l
                       end.
Proof.
  induction l as [|a l IH]; cbn [app deepest].
  - destruct (pick e) as [[h vd]|]; reflexivity.
  - rewrite IH. destruct (pick e) as [[h vd]|].
    + rewrite lenZ_cons. replace (1 + lenZ l) with (lenZ l + 1) by lia. reflexivity.
    + reflexivity.
Qed.

Lemma deepest_none l : deepest l = None -> forall e, In e l -> pick e = None.
Proof.
  induction l as [|a l IH]; intros H e Hin; [contradiction|].
  cbn [deepest] in H. destruct (deepest l) as [[[[i e'] h] vd]|] eqn:E; [discriminate|].
  destruct Hin as [<-|Hin].
  - destruct (pick a) as [[h vd]|]; [discriminate | reflexivity].
  - apply IH; auto.
Qed.

Lemma deepest_some l i e h vd :
  deepest l = Some (i, e, h, vd) ->
  nthZ i l = Some e /\ pick e = Some (h, vd) /\
  forall j e', i < j -> nthZ j l = Some e' -> pick e' = None.
Proof.
  revert i; induction l as [|a l IH]; intros i H; [discriminate|].
  cbn [deepest] in H. destruct (deepest l) as [[[[i0 e0] h0] vd0]|] eqn:E.
  - injection H as <- <- <- <-. destruct (IH _ eq_refl) as (Hn & Hp & Hj).
    pose proof (nthZ_range _ _ _ Hn) as Hr.
    split; [rewrite nthZ_cons_pos by lia; replace (i0 + 1 - 1) with i0 by lia; exact Hn|].
    split; [exact Hp|].
    intros j e' Hlt Hn'. rewrite nthZ_cons_pos in Hn' by lia. eapply Hj; [|exact Hn']. lia.
  - destruct (pick a) as [[h1 vd1]|] eqn:Ep; [|discriminate].
    injection H as <- <- <- <-.
    split; [reflexivity|]. split; [exact Ep|].
    intros j e' Hlt Hn'. rewrite nthZ_cons_pos in Hn' by lia.
    eapply deepest_none; [exact E|]. eapply nthZ_In; exact Hn'.
Qed.

(** the result find_handler builds from the deepest offering entry *)
Definition found_of (trail : list entry) (fullpath : list str) (flen : Z) (slash : bool) (numc : Z)
           (d : option (Z * entry * node * bool)) : fh :=
  match d with
  | None => FHNone trail
  | Some (i, e, h, vd) =>
    let v := sliceZ (flen - e_segleft e) (flen - 1) fullpath in
    if vd then FHFound h v slash i true
                       (insert_at (i + 1) (Entry s_default (Some h) (n_conf h) (e_segleft e)) trail)
    else FHFound h v (i =? numc) i false trail
  end.

Lemma scan_deepest trail fullpath flen slash numc k :
  (k <= length trail)%nat ->
  scan trail fullpath flen slash numc k
  = found_of trail fullpath flen slash numc (deepest (firstn k trail)).
Proof.
  induction k as [|k IH]; intros Hk.
  - reflexivity.
  - cbn [scan]. rewrite nthZ_of_nat.
    destruct (nth_error trail k) as [e|] eqn:En.
    2:{ apply nth_error_None in En. lia. }
    rewrite (firstn_snoc _ _ _ En), deepest_snoc.
    assert (Hlen : lenZ (firstn k trail) = Z.of_nat k).
    { rewrite lenZ_spec, firstn_length. lia. }
    unfold pick, offer. destruct (e_node e) as [cand|].
    + destruct (exposed_default cand) as [d|].
      * cbn [found_of]. rewrite Hlen. reflexivity.
      * destruct (n_exposed cand).
        -- cbn [found_of]. rewrite Hlen. reflexivity.
        -- apply IH. lia.
    + apply IH. lia.
Qed.

Lemma scan_all trail fullpath flen slash numc :
  scan trail fullpath flen slash numc (length trail)
  = found_of trail fullpath flen slash numc (deepest trail).
Proof. rewrite scan_deepest by lia. now rewrite firstn_all. Qed.

(* ---------- invariants of the trail walk ---------- *)

Definition dflt_entry : entry := Entry [] None [] 0.

Lemma lenZ_tl {A} (l : list A) : l <> [] -> lenZ (tl l) = lenZ l - 1.
Proof. destruct l; [congruence|]. intros _. cbn [tl]. rewrite lenZ_cons. lia. Qed.

Lemma lenZ_pos_nonnil {A} (l : list A) : 0 < lenZ l -> l <> [].
Proof. destruct l; [intros H; change (lenZ (@nil A)) with 0 in H; lia | congruence]. Qed.

(** every entry's segleft is below what was left before it; the last one has 0 *)
Lemma walk_inv fuel na aconf fp flen : forall nd iter t,
  walk fuel na aconf fp flen nd iter = WOk t ->
  (iter = [] /\ t = []) \/
  (iter <> [] /\ t <> [] /\ Forall (fun e => 0 <= e_segleft e < lenZ iter) t /\
   e_segleft (last t dflt_entry) = 0).
Proof.
  induction fuel as [|f IH]; intros nd iter t H.
  - destruct iter; cbn [walk] in H; [injection H as <-; now left | discriminate].
  - destruct iter as [|name rest]; cbn [walk] in H; [injection H as <-; now left|].
    right. split; [congruence|].
    set (iter := name :: rest) in *.
    destruct (step_sub na nd iter) as [sub iter1| |]; try discriminate.
    destruct (lenZ iter <? lenZ iter1) eqn:Eadd; [discriminate|].
    apply Z.ltb_ge in Eadd.
    assert (Hpos : 1 <= lenZ iter).
    { unfold iter. rewrite lenZ_cons. pose proof (lenZ_nonneg rest). lia. }
    remember (if lenZ iter1 =? lenZ iter then tl iter1 else iter1) as iter2 eqn:E2.
    remember (if lenZ iter1 =? lenZ iter then lenZ iter1 - 1 else lenZ iter1) as sl2 eqn:Es.
    assert (Hsl : sl2 = lenZ iter2 /\ lenZ iter2 < lenZ iter).
    { subst iter2 sl2. destruct (lenZ iter1 =? lenZ iter) eqn:Esame.
      - apply Z.eqb_eq in Esame. rewrite lenZ_tl by (apply lenZ_pos_nonnil; lia). lia.
      - apply Z.eqb_neq in Esame. lia. }
    destruct Hsl as [Hsl Hlt].
    destruct (walk f na aconf fp flen sub iter2) as [t'| | | |] eqn:Ew; try discriminate.
    injection H as <-.
    split; [congruence|].
    destruct (IH _ _ _ Ew) as [[Hi Ht]|(Hi & Ht & Hall & Hlast)].
    + subst t'. split.
      * constructor; [|constructor]. cbn [e_segleft]. rewrite Hsl, Hi. change (lenZ (@nil str)) with 0. lia.
      * cbn [last e_segleft]. rewrite Hsl, Hi. reflexivity.
    + split.
      * constructor.
        -- cbn [e_segleft]. pose proof (lenZ_nonneg iter2). lia.
        -- eapply Forall_impl; [|exact Hall]. cbn beta. intros e He. lia.
      * destruct t' as [|e0 t0]; [congruence|]. exact Hlast.
Qed.

Lemma walk_fuel fuel na aconf fp flen : forall nd iter,
  (length iter <= fuel)%nat -> walk fuel na aconf fp flen nd iter <> WFuel.
Proof.
  induction fuel as [|f IH]; intros nd iter Hlen.
  - destruct iter; cbn [length] in Hlen; [cbn [walk]; congruence | lia].
  - destruct iter as [|name rest]; cbn [walk]; [congruence|].
    set (iter := name :: rest) in *.
    destruct (step_sub na nd iter) as [sub iter1| |]; try congruence.
    destruct (lenZ iter <? lenZ iter1) eqn:Eadd; [congruence|].
    apply Z.ltb_ge in Eadd.
    assert (Hpos : 1 <= lenZ iter).
    { unfold iter. rewrite lenZ_cons. pose proof (lenZ_nonneg rest). lia. }
    remember (if lenZ iter1 =? lenZ iter then tl iter1 else iter1) as iter2 eqn:E2.
    assert (Hlt : lenZ iter2 < lenZ iter).
    { subst iter2. destruct (lenZ iter1 =? lenZ iter) eqn:Esame.
      - apply Z.eqb_eq in Esame. rewrite lenZ_tl by (apply lenZ_pos_nonnil; lia). lia.
      - apply Z.eqb_neq in Esame. lia. }
    specialize (IH sub iter2).
    destruct (walk f na aconf fp flen sub iter2); try congruence.
    exfalso. apply IH; [|reflexivity].
    rewrite !lenZ_spec in Hlt. lia.
Qed.

(* ---------- the static walk: no usable _cp_dispatch on the way ---------- *)

(** the objects named by successive prefixes of the (translated) names *)
Fixpoint chain (na : attrs) (o : option node) (names : list str) : list (option node) :=
  match names with
  | [] => []
  | n :: r => let s := getattr_o na o (translate n) in s :: chain na s r
  end.

(** o offers no _cp_dispatch the dispatcher would call *)
Definition quiet (na : attrs) (o : option node) : Prop :=
  match getattr_o na o s_cp_dispatch with
  | Some d => n_truthy d && n_callable d && negb (n_exposed d) = false
  | None => True
  end.

Fixpoint static_trail (na : attrs) (aconf : appconf) (fp : list str) (flen : Z)
         (o : option node) (iter : list str) : list entry :=
  match iter with
  | [] => []
  | name :: rest =>
    let s := getattr_o na o (translate name) in
    Entry name s (step_conf aconf fp flen (lenZ iter) (lenZ rest) s) (lenZ rest)
      :: static_trail na aconf fp flen s rest
  end.

Lemma step_sub_quiet na o name rest :
  quiet na o ->
  step_sub na o (name :: rest) = DOk (getattr_o na o (translate name)) rest.
Proof.
  intros Hq. cbn [step_sub]. destruct (getattr_o na o (translate name)) as [sub|]; [reflexivity|].
  unfold quiet in Hq. destruct (getattr_o na o s_cp_dispatch) as [d|]; [|reflexivity].
  unfold usable_dispatch. rewrite Hq. reflexivity.
Qed.

Lemma walk_static na aconf fp flen : forall fuel o iter,
  (length iter <= fuel)%nat ->
  quiet na o -> Forall (quiet na) (chain na o iter) ->
  walk fuel na aconf fp flen o iter = WOk (static_trail na aconf fp flen o iter).
Proof.
  induction fuel as [|f IH]; intros o iter Hlen Hq Hall.
  - destruct iter; cbn [length] in Hlen; [reflexivity | lia].
  - destruct iter as [|name rest]; [reflexivity|].
    cbn [walk]. rewrite (step_sub_quiet _ _ _ _ Hq).
    cbn [chain] in Hall. inversion Hall as [|? ? Hq' Hall']; subst.
    rewrite lenZ_cons. pose proof (lenZ_nonneg rest) as Hnn.
    destruct (1 + lenZ rest <? lenZ rest) eqn:E1; [apply Z.ltb_lt in E1; lia|].
    destruct (lenZ rest =? 1 + lenZ rest) eqn:E2; [apply Z.eqb_eq in E2; lia|].
    rewrite IH; [|cbn [length] in Hlen; lia|exact Hq'|exact Hall'].
    cbn [static_trail]. rewrite lenZ_cons. reflexivity.
Qed.

Lemma static_trail_nodes na aconf fp flen : forall o iter,
  map e_node (static_trail na aconf fp flen o iter) = chain na o iter.
Proof.
  intros o iter; revert o; induction iter as [|name rest IH]; intros o; [reflexivity|].
  cbn [static_trail chain map e_node]. now rewrite IH.
Qed.

Lemma static_trail_segleft na aconf fp flen : forall iter o j e,
  nthZ j (static_trail na aconf fp flen o iter) = Some e -> e_segleft e = lenZ iter - j - 1.
Proof.
  induction iter as [|name rest IH]; intros o j e H; [discriminate|].
  cbn [static_trail] in H. pose proof (nthZ_range _ _ _ H) as Hr.
  destruct (Z.eq_dec j 0) as [->|Hne].
  - cbn [nthZ] in H. cbn in H. injection H as <-. cbn [e_segleft]. rewrite lenZ_cons. lia.
  - rewrite nthZ_cons_pos in H by lia. apply IH in H. rewrite lenZ_cons. lia.
Qed.

(** deepest-first search over bare objects *)
Fixpoint deepest_obj (objs : list (option node)) : option (Z * node * bool) :=
  match objs with
  | [] => None
  | o :: r =>
    match deepest_obj r with
    | Some (i, h, vd) => Some (i + 1, h, vd)
    | None => match offer o with
              | Some (h, vd) => Some (0, h, vd)
              | None => None
              end
    end
  end.

Lemma deepest_obj_map l :
  deepest_obj (map e_node l)
  = match deepest l with Some (i, _, h, vd) => Some (i, h, vd) | None => None end.
Proof.
  induction l as [|a l IH]; [reflexivity|].
  cbn [map deepest_obj deepest]. rewrite IH.
  destruct (deepest l) as [[[[i e] h] vd]|]; [reflexivity|].
  unfold pick. destruct (offer (e_node a)) as [[h vd]|]; reflexivity.
Qed.
