(** C06 - the statements Props/C06.v exports, derived from P_framing. *)
From Coq Require Import ZArith List Bool Lia.
From CV Require Import Lib.Sx Lib.ListZ LibP.ListZ_facts Model.M_framing Proof.P_framing.
Import ListNotations.
Open Scope Z_scope.

Lemma nobody_spec c : nobody c = true <-> (c < 200 \/ c = 204 \/ c = 205 \/ c = 304).
Proof.
  unfold nobody, nobody_below, nobody_codes. cbn [existsb].
  rewrite !orb_true_iff, Z.ltb_lt, !Z.eqb_eq. intuition discriminate.
Qed.

Lemma nobody_false c : nobody c = false <-> ~ (c < 200 \/ c = 204 \/ c = 205 \/ c = 304).
Proof.
  rewrite <- nobody_spec. destruct (nobody c); split; intros H.
  - discriminate H.
  - exfalso. apply H. reflexivity.
  - intros H'. discriminate H'.
  - reflexivity.
Qed.

(** every transformer of kind DropCL / SetCL_exact establishes the invariant
    from ANY state, for ANY rewrite function *)
Lemma thm_inv_rewriters : forall (f : list chunk -> list chunk) u r,
  Inv (rewrite_drop f u r) /\ Inv (rewrite_set_exact f u r).
Proof. intros. split; [apply inv_rewrite_drop | apply inv_rewrite_set_exact]. Qed.

Lemma thm_inv : forall e cache m t r r',
  builtin_tx t -> cache_ok cache -> Inv r ->
  apply_tx e cache m t r = (r', ENone) -> Inv r'.
Proof. intros; eapply apply_tx_inv; eauto. Qed.

Lemma thm_inv_list : forall e cache m ts r r',
  Forall builtin_tx ts -> cache_ok cache -> Inv r ->
  run_txs e cache m ts r = (r', ENone) -> Inv r'.
Proof. intros; eapply run_txs_inv; eauto. Qed.

Lemma thm_finalize : forall r r',
  Inv r -> finalize r = (r', ENone) -> stream r' = false ->
  ((code r' < 200 \/ code r' = 204 \/ code r' = 205 \/ code r' = 304) ->
     total (body r') = 0 /\ cl r' = None) /\
  (~ (code r' < 200 \/ code r' = 204 \/ code r' = 205 \/ code r' = 304) ->
     cl r' = Some (total (body r'))).
Proof.
  intros r r' Hi H Hs. destruct (finalize_final _ _ Hi H) as [Hn _].
  destruct (Hn Hs) as [Ha Hb]. split.
  - intros Hc. apply nobody_spec in Hc. destruct (Ha Hc) as [Hb0 Hc0]. rewrite Hb0. split; [reflexivity | exact Hc0].
  - intros Hc. apply nobody_false in Hc. exact (Hb Hc).
Qed.

(** finalize never alters a streamed response's body or header *)
Lemma thm_finalize_stream : forall r r',
  stream r = true -> finalize r = (r', ENone) -> cl r' = cl r /\ body r' = body r /\ code r' = code r.
Proof.
  intros r r' Hs H. unfold finalize in H. rewrite Hs in H. inversion H; subst. repeat split.
Qed.

Lemma thm_head : forall e cache bh h bf r0,
  let g := run_request cache GET e bh h bf r0 in
  let hd := run_request cache HEAD e bh h bf r0 in
  code hd = code g /\ cl hd = cl g /\ stream hd = stream g /\ total (body hd) = 0.
Proof. intros. apply head_like_get. Qed.

Lemma thm_stream_partial : forall e cache m bh h bf r r',
  forallb hook_nocl bh = true -> hook_nocl h = true -> forallb hook_nocl bf = true ->
  cl r = None ->
  do_respond e cache m bh h bf r = (r', ENone) -> stream r' = true -> cl r' = None.
Proof. intros e cache m bh h bf r r' H1 H2 H3 H4 H5 H6. exact (stream_no_setter e cache m bh h bf r r' H1 H2 H3 H4 H5 H6). Qed.

(** the delivered response, with the no-body set spelled out *)
Definition framing_spec (m : meth) (r : resp) : Prop :=
  let nb := code r < 200 \/ code r = 204 \/ code r = 205 \/ code r = 304 in
  (stream r = false ->
     (nb -> total (body r) = 0 /\ cl r = None) /\
     (~ nb -> m <> HEAD -> cl r = Some (total (body r))) /\
     (~ nb -> exists n, cl r = Some n)) /\
  (stream r = true -> m <> HEAD -> forall n, cl r = Some n -> n = total (body r)) /\
  (m = HEAD -> total (body r) = 0).

Lemma framing_ok_spec m r : framing_ok m r -> framing_spec m r.
Proof.
  intros [H1 [H2 H3]]. unfold framing_spec. cbv zeta. split; [|split; assumption].
  intros Hs. destruct (H1 Hs) as [Ha [Hb Hc]]. split; [|split].
  - intros Hn. apply Ha. apply nobody_spec. exact Hn.
  - intros Hn. apply Hb. apply nobody_false. exact Hn.
  - intros Hn. apply Hc. apply nobody_false. exact Hn.
Qed.

Lemma thm_all_compositions : forall e cache m bh bf h r0,
  cache_ok cache -> Forall bh_hook_ok bh -> Forall hook_ok bf -> handler_exact e cache m h ->
  PreInv r0 ->
  framing_spec m (run_request cache m e bh h bf r0).
Proof. intros. apply framing_ok_spec. apply all_compositions; assumption. Qed.

(** the same for a request as the harness describes it: any list of tool hooks,
    put in hook-point and priority order by the model *)
Lemma thm_serve : forall e cache m st hooks h,
  cache_ok cache -> Forall (fun k => bh_hook_ok k /\ hook_ok k) hooks -> handler_exact e cache m h ->
  framing_spec m (serve cache m e st hooks h).
Proof.
  intros e cache m st hooks h Hc Hf Hh. unfold serve. apply thm_all_compositions; auto.
  - apply Forall_hooks_at. eapply Forall_impl; [|exact Hf]. intros a [H _]; exact H.
  - apply Forall_hooks_at. eapply Forall_impl; [|exact Hf]. intros a [_ H]; exact H.
  - apply preinv_resp0.
Qed.

Lemma thm_checker_sound : forall tbl : list effect_row,
  forallb rewrites_body_implies_resets_length tbl = true ->
  forall row, In row tbl ->
  exists k, kind_of_row row = Some k /\
    forall f e cache m r r',
      (k = KPreserving -> forall b, total (f b) = total b) -> cache_ok cache -> Inv r ->
      apply_tx e cache m (tx_of_kind k f) r = (r', ENone) -> Inv r'.
Proof. exact checker_sound. Qed.

Lemma thm_tool_effects_ok : forallb rewrites_body_implies_resets_length tool_effects = true.
Proof. vm_compute. reflexivity. Qed.

(* ---------- concrete material for the non-vacuity examples ---------- *)

Definition ex_env : env := mkE [(0, ([[69;69;69;69;69]], 0)); (301, ([[60;97;62]], 0))].
Definition ex_cache : option centry := Some (200, Some 3, [[7;8;9]]).
Definition gz (b : list chunk) : list chunk := [[31;139;8] ++ concat b].      (* an arbitrary rewrite *)

(** a handler that sets status and its own exact Content-Length, then returns 3 bytes *)
Definition ex_handler : hook := mkH 99 [SetCode 201; SetCL 3; HandlerBody (fun _ => [[1;2;3]]) 0] ENone [] ENone.
(** a handler that sets a stale length and raises HTTPError(404) *)
Definition ex_handler_404 : hook := mkH 99 [SetCL 3] (EErr 404) [] ENone.

Definition ex_hooks : list hook :=
  [ mkH 8 [UnlessCached (RewriteDrop gz UWrap)] ENone [UnlessCached (RewriteDrop gz UWrap)] ENone;   (* gzip *)
    mkH 7 [Collapse; RaiseIf2xx ENone] ENone [Keep] ENone;                                         (* etags *)
    mkH 6 [Regroup (fun b => b) UFlat] ENone [Regroup (fun b => b) UFlat] ENone;                   (* flatten *)
    mkH 4 [CacheGet ENone] ENone [Keep] ENone;                                                     (* caching *)
    mkH 9 [Tee] ENone [Tee] ENone ].

Lemma ex_handler_exact e cache m : handler_exact e cache m ex_handler.
Proof.
  intros r r' Hn H. cbn in H. inversion H; subst. right. reflexivity.
Qed.

Lemma ex_handler_404_exact e cache m : handler_exact e cache m ex_handler_404.
Proof.
  intros r r' Hn H. cbn in H. discriminate H.
Qed.

Lemma ex_hooks_ok : Forall (fun k => bh_hook_ok k /\ hook_ok k) ex_hooks.
Proof.
  unfold ex_hooks, bh_hook_ok, hook_ok.
  repeat (apply Forall_cons || apply Forall_nil); cbn;
    repeat split; repeat (apply Forall_cons || apply Forall_nil); cbn; auto.
Qed.

Lemma ex_cache_ok : cache_ok ex_cache.
Proof. right. reflexivity. Qed.
