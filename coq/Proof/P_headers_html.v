(** html.escape(quote=False), quoteattr and the page bodies of M_headers. *)
From Coq Require Import ZArith List Bool Lia.
From CV Require Import Lib.Sx Lib.ListZ Model.M_headers Proof.P_headers.
Import ListNotations.
Open Scope Z_scope.

Definition esc1 (c : Z) : list Z :=
  if c =? 38 then s_amp else if c =? 60 then s_lt else if c =? 62 then s_gt else [c].

Lemma replace1_app x rep a b : replace1 x rep (a ++ b) = replace1 x rep a ++ replace1 x rep b.
Proof. unfold replace1. apply flat_map_app. Qed.

Lemma replace1_cons x rep c r :
  replace1 x rep (c :: r) = (if c =? x then rep else [c]) ++ replace1 x rep r.
Proof. reflexivity. Qed.

Lemma replace1_single_ne x rep c : c <> x -> replace1 x rep [c] = [c].
Proof.
  intros H. unfold replace1. cbn [flat_map]. apply Z.eqb_neq in H. rewrite H. reflexivity.
Qed.

Lemma escape_cons c r : escape (c :: r) = esc1 c ++ escape r.
Proof.
  unfold escape, esc1. rewrite replace1_cons, !replace1_app.
  destruct (c =? 38) eqn:E1; [reflexivity|].
  f_equal. rewrite (replace1_cons 60 s_lt c []).
  destruct (c =? 60) eqn:E2; [reflexivity|].
  unfold replace1. cbn [flat_map app].
  destruct (c =? 62) eqn:E3; reflexivity.
Qed.

Lemma escape_nil : escape [] = [].
Proof. reflexivity. Qed.

Lemma escape_flat s : escape s = flat_map esc1 s.
Proof.
  induction s as [|c r IH]; [reflexivity|]. rewrite escape_cons, IH. reflexivity.
Qed.

Lemma esc1_no x c : x = 60 \/ x = 62 -> ~ In x (esc1 c).
Proof.
  intros Hx. unfold esc1.
  destruct (c =? 38) eqn:E1; [unfold s_amp; cbn [In]; lia|].
  destruct (c =? 60) eqn:E2; [unfold s_lt; cbn [In]; lia|].
  destruct (c =? 62) eqn:E3; [unfold s_gt; cbn [In]; lia|].
  apply Z.eqb_neq in E2, E3. cbn [In]. lia.
Qed.

Lemma escape_no_angle s : ~ In 60 (escape s) /\ ~ In 62 (escape s).
Proof.
  induction s as [|c r [IH1 IH2]]; [cbn; tauto|]. rewrite escape_cons. split; intros H;
    apply in_app_or in H; destruct H as [H|H]; auto; revert H; apply esc1_no; auto.
Qed.

Lemma amps_ok_esc1 c t : amps_ok t = true -> amps_ok (esc1 c ++ t) = true.
Proof.
  intros Ht. unfold esc1.
  destruct (c =? 38) eqn:E1; [unfold s_amp; cbn; exact Ht|].
  destruct (c =? 60) eqn:E2; [unfold s_lt; cbn; exact Ht|].
  destruct (c =? 62) eqn:E3; [unfold s_gt; cbn; exact Ht|].
  cbn [app amps_ok]. rewrite E1. exact Ht.
Qed.

Lemma escape_amps_ok s : amps_ok (escape s) = true.
Proof.
  induction s as [|c r IH]; [reflexivity|]. rewrite escape_cons. now apply amps_ok_esc1.
Qed.

Lemma unesc_esc1 c t : unesc 0 (esc1 c ++ t) = c :: unesc 0 t.
Proof.
  unfold esc1.
  destruct (c =? 38) eqn:E1; [apply Z.eqb_eq in E1; subst c; unfold s_amp; cbn; reflexivity|].
  destruct (c =? 60) eqn:E2; [apply Z.eqb_eq in E2; subst c; unfold s_lt; cbn; reflexivity|].
  destruct (c =? 62) eqn:E3; [apply Z.eqb_eq in E3; subst c; unfold s_gt; cbn; reflexivity|].
  cbn [app unesc]. rewrite E1. reflexivity.
Qed.

Lemma unescape_escape s : unescape (escape s) = s.
Proof.
  unfold unescape. induction s as [|c r IH]; [reflexivity|].
  rewrite escape_cons, unesc_esc1, IH. reflexivity.
Qed.

(** c12_html_escaped *)
Lemma html_escaped s :
  ~ In 60 (escape s) /\ ~ In 62 (escape s) /\ amps_ok (escape s) = true /\ unescape (escape s) = s.
Proof.
  destruct (escape_no_angle s) as [A B]. repeat split; auto using escape_amps_ok, unescape_escape.
Qed.

(** every field of the error page is an [escape] image of the value passed in
    (or of its default), whatever the template *)
Definition raw_field (status_str defmsg version : list Z)
           (o_status o_message o_traceback o_version : option (list Z)) (k : Z) : list Z :=
  if k =? 0 then or_default o_status status_str
  else if k =? 1 then or_default o_message defmsg
  else if k =? 2 then or_default o_traceback []
  else or_default o_version version.

Lemma error_page_fields tmpl st dm ver os om ot ov :
  render tmpl (error_kwargs st dm ver os om ot ov) =
  flat_map (fun p => match p with
                     | Lit l => l
                     | Field k => escape (raw_field st dm ver os om ot ov k)
                     end) tmpl.
Proof.
  unfold render. apply flat_map_ext. intros [l|k]; [reflexivity|].
  unfold kw_get, error_kwargs, raw_field. cbn [k_status k_message k_traceback k_version].
  destruct (k =? 0); [reflexivity|]. destruct (k =? 1); [reflexivity|].
  destruct (k =? 2); reflexivity.
Qed.

(** * quoteattr: the value is delimited by a quote character that does not
      occur inside, and contains no angle bracket *)
Lemma replace1_not_in x rep s y :
  ~ In y rep -> (y <> x -> ~ In y s) -> ~ In y (replace1 x rep s).
Proof.
  intros Hrep Hs. induction s as [|c r IH]; [cbn; tauto|].
  rewrite replace1_cons. intros H. apply in_app_or in H. destruct H as [H|H].
  - destruct (c =? x) eqn:E; [auto|]. apply Z.eqb_neq in E. cbn [In] in H.
    destruct H as [H|[]]. subst y. apply Hs; [assumption|now left].
  - apply IH; [|assumption]. intros Hy Hin. apply (Hs Hy). now right.
Qed.

Lemma replace1_keeps_out x rep s y :
  ~ In y rep -> ~ In y s -> ~ In y (replace1 x rep s).
Proof. intros H1 H2. apply replace1_not_in; auto. Qed.

Lemma memZ_false_not_in x l : memZ x l = false -> ~ In x l.
Proof. intros H Hin. apply memZ_In in Hin. congruence. Qed.

Lemma quoteattr_delimited s :
  exists q body, quoteattr s = q :: body ++ [q] /\ (q = 34 \/ q = 39)
                 /\ ~ In q body /\ ~ In 60 body /\ ~ In 62 body.
Proof.
  unfold quoteattr.
  set (d0 := replace1 60 s_lt (replace1 62 s_gt (replace1 38 s_amp s))).
  set (d := replace1 9 [38; 35; 57; 59] (replace1 13 [38; 35; 49; 51; 59] (replace1 10 [38; 35; 49; 48; 59] d0))).
  assert (A60 : ~ In 60 d).
  { unfold d. repeat (apply replace1_keeps_out; [cbn [In]; lia|]).
    unfold d0. apply replace1_not_in; [unfold s_lt; cbn [In]; lia|]. intros H; exfalso; apply H; reflexivity. }
  assert (A62 : ~ In 62 d).
  { unfold d. repeat (apply replace1_keeps_out; [cbn [In]; lia|]).
    unfold d0. apply replace1_keeps_out; [unfold s_lt; cbn [In]; lia|].
    apply replace1_not_in; [unfold s_gt; cbn [In]; lia|]. intros H; exfalso; apply H; reflexivity. }
  destruct (memZ 34 d) eqn:E34.
  - destruct (memZ 39 d) eqn:E39.
    + exists 34, (replace1 34 [38; 113; 117; 111; 116; 59] d). split; [reflexivity|]. split; [now left|].
      split; [apply replace1_not_in; [cbn [In]; lia|intros H; exfalso; apply H; reflexivity]|].
      split; apply replace1_keeps_out; auto; cbn [In]; lia.
    + exists 39, d. split; [reflexivity|]. split; [now right|]. split; [now apply memZ_false_not_in|]. auto.
  - exists 34, d. split; [reflexivity|]. split; [now left|]. split; [now apply memZ_false_not_in|]. auto.
Qed.
