(** The promotion idiom (scalar -> list) builds exactly [to_dict]; merging two such
    dicts gives, per key, the values of the first followed by those of the second. *)
From Coq Require Import ZArith List Bool Lia.
From CV Require Import Lib.Sx Lib.ListZ LibP.ListZ_facts Model.M_params.
Import ListNotations.
Open Scope Z_scope.

(** ** key equality *)
Lemma eqbZs_refl a : eqbZs a a = true.
Proof. induction a as [|x a IH]; cbn; [reflexivity|]. rewrite Z.eqb_refl. exact IH. Qed.

Lemma eqbZs_true a b : eqbZs a b = true -> a = b.
Proof.
  revert b. induction a as [|x a IH]; destruct b as [|y b]; cbn; try discriminate; [reflexivity|].
  intros H. apply andb_true_iff in H. destruct H as [H1 H2]. apply Z.eqb_eq in H1. subst y.
  f_equal. now apply IH.
Qed.

Lemma eqbZs_false a b : eqbZs a b = false -> a <> b.
Proof. intros H E. subst b. rewrite eqbZs_refl in H. discriminate. Qed.

Lemma eqbZs_sym a b : eqbZs a b = eqbZs b a.
Proof.
  destruct (eqbZs a b) eqn:E1, (eqbZs b a) eqn:E2; try reflexivity.
  - apply eqbZs_true in E1. subst b. rewrite eqbZs_refl in E2. discriminate.
  - apply eqbZs_true in E2. subst b. rewrite eqbZs_refl in E1. discriminate.
Qed.

Lemma eqbZs_neq a b : a <> b -> eqbZs a b = false.
Proof. intros H. destruct (eqbZs a b) eqn:E; [|reflexivity]. apply eqbZs_true in E. contradiction. Qed.

Lemma existsb_eqbZs k l : existsb (eqbZs k) l = true <-> In k l.
Proof.
  rewrite existsb_exists. split.
  - intros (x & Hx & E). apply eqbZs_true in E. now subst x.
  - intros H. exists k. split; [exact H | apply eqbZs_refl].
Qed.

Lemma existsb_eqbZs_false k l : existsb (eqbZs k) l = false <-> ~ In k l.
Proof.
  rewrite <- existsb_eqbZs. destruct (existsb (eqbZs k) l); split; intros H; try reflexivity;
    try discriminate; try (exfalso; now apply H); intros E; discriminate.
Qed.

(** ** values_of *)
Lemma values_of_cons k k' v m :
  values_of k ((k', v) :: m) = if eqbZs k' k then v :: values_of k m else values_of k m.
Proof. unfold values_of. cbn [filter fst]. destruct (eqbZs k' k); reflexivity. Qed.

Lemma values_of_app k a b : values_of k (a ++ b) = values_of k a ++ values_of k b.
Proof. unfold values_of. now rewrite filter_app, map_app. Qed.

Lemma values_of_nil_iff k m : values_of k m = [] <-> ~ In k (map fst m).
Proof.
  induction m as [|[k' v] m IH].
  - cbn. tauto.
  - rewrite values_of_cons. cbn [map fst In]. destruct (eqbZs k' k) eqn:E.
    + apply eqbZs_true in E. subst k'. split; [discriminate | intros H; exfalso; apply H; now left].
    + apply eqbZs_false in E. rewrite IH. tauto.
Qed.

(** ** first_keys *)
Lemma first_keys_in ks : forall seen k, In k (first_keys ks seen) <-> In k ks /\ ~ In k seen.
Proof.
  induction ks as [|x ks IH]; intros seen k; cbn [first_keys].
  - cbn. tauto.
  - destruct (existsb (eqbZs x) seen) eqn:E.
    + apply existsb_eqbZs in E. rewrite IH. cbn [In]. split.
      * tauto.
      * intros [[-> | H] Hn]; [contradiction | tauto].
    + apply existsb_eqbZs_false in E. cbn [In]. rewrite IH. cbn [In]. split.
      * intros [-> | (H1 & H2)]; [tauto|]. split; [tauto|]. intros H. apply H2. now right.
      * intros ([-> | H1] & H2); [now left|].
        destruct (list_eq_dec Z.eq_dec x k) as [-> | Hne]; [now left|].
        right. split; [exact H1|]. intros [-> | H]; [now apply Hne | now apply H2].
Qed.

Lemma first_keys_NoDup ks : forall seen, NoDup (first_keys ks seen).
Proof.
  induction ks as [|x ks IH]; intros seen; cbn [first_keys]; [constructor|].
  destruct (existsb (eqbZs x) seen); [apply IH|].
  constructor; [|apply IH]. rewrite first_keys_in. intros [_ H]. apply H. now left.
Qed.

Lemma first_keys_ext ks : forall s1 s2, (forall x, In x s1 <-> In x s2) -> first_keys ks s1 = first_keys ks s2.
Proof.
  induction ks as [|x ks IH]; intros s1 s2 H; cbn [first_keys]; [reflexivity|].
  destruct (existsb (eqbZs x) s1) eqn:E1, (existsb (eqbZs x) s2) eqn:E2.
  - now apply IH.
  - apply existsb_eqbZs in E1. apply existsb_eqbZs_false in E2. exfalso. apply E2. now apply H.
  - apply existsb_eqbZs in E2. apply existsb_eqbZs_false in E1. exfalso. apply E1. now apply H.
  - f_equal. apply IH. intros y. cbn [In]. rewrite H. tauto.
Qed.

(** ** grouped dicts: key -> non-empty list of values *)
Definition gd := list (list Z * list (list Z)).
Definition render (g : gd) : dict := map (fun e => (fst e, val_of (snd e))) g.
Definition gwf (g : gd) : Prop := Forall (fun e => snd e <> []) g.

Fixpoint gadd (k v : list Z) (g : gd) : gd :=
  match g with
  | [] => [(k, [v])]
  | (k', vs) :: r => if eqbZs k' k then (k', vs ++ [v]) :: r else (k', vs) :: gadd k v r
  end.

Definition gfold (m : list (list Z * list Z)) (g : gd) : gd :=
  fold_left (fun g kv => gadd (fst kv) (snd kv) g) m g.

(** the dict the parsers build pair by pair *)
Definition build (m : list (list Z * list Z)) (d : dict) : dict :=
  fold_left (fun d kv => dict_add (fst kv) (PStr (snd kv)) d) m d.

Lemma val_of_snoc vs v : vs <> [] -> promote_append (val_of vs) (PStr v) = val_of (vs ++ [v]).
Proof.
  destruct vs as [|a [|b t]]; intros H; [contradiction | reflexivity |].
  cbn [val_of promote_append app map]. f_equal. now rewrite map_app.
Qed.

Lemma val_of_app a b : a <> [] -> b <> [] -> promote_extend (val_of a) (val_of b) = val_of (a ++ b).
Proof.
  intros Ha Hb. destruct b as [|b1 [|b2 tb]]; [contradiction | |].
  - cbn [val_of promote_extend]. now apply val_of_snoc.
  - destruct a as [|a1 [|a2 ta]]; [contradiction | reflexivity |].
    cbn [val_of promote_extend app map]. f_equal. f_equal. f_equal. now rewrite map_app.
Qed.

Lemma dict_add_render k v g : gwf g -> dict_add k (PStr v) (render g) = render (gadd k v g).
Proof.
  intros W. induction W as [|[k' vs] g Hne _ IH]; [reflexivity|].
  cbn [render map gadd fst snd]. unfold dict_add in *. cbn [dict_upd].
  destruct (eqbZs k' k).
  - cbn [render map fst snd]. cbn [snd] in Hne. now rewrite val_of_snoc.
  - cbn [render map fst snd]. f_equal. exact IH.
Qed.

Lemma gadd_wf k v g : gwf g -> gwf (gadd k v g).
Proof.
  intros W. induction W as [|[k' vs] g Hne W IH]; cbn [gadd].
  - repeat constructor. cbn. discriminate.
  - destruct (eqbZs k' k); constructor; cbn [snd] in *; auto.
    intros E. apply app_eq_nil in E. destruct E as [_ E]. discriminate.
Qed.

Lemma build_render m : forall g, gwf g -> build m (render g) = render (gfold m g).
Proof.
  induction m as [|[k v] m IH]; intros g W; [reflexivity|].
  unfold build, gfold in *. cbn [fold_left fst snd]. rewrite dict_add_render by exact W.
  apply IH. now apply gadd_wf.
Qed.

Lemma gadd_absent k v g : ~ In k (map fst g) -> gadd k v g = g ++ [(k, [v])].
Proof.
  induction g as [|[k' vs] g IH]; intros H; [reflexivity|].
  cbn [gadd app]. cbn [map fst In] in H.
  rewrite eqbZs_neq by (intros E; apply H; now left). f_equal. apply IH. tauto.
Qed.

Lemma gadd_present k v g : NoDup (map fst g) -> In k (map fst g) ->
  gadd k v g = map (fun e => (fst e, if eqbZs (fst e) k then snd e ++ [v] else snd e)) g.
Proof.
  induction g as [|[k' vs] g IH]; intros N H; [destruct H|].
  cbn [gadd map fst snd]. cbn [map fst] in N. inversion N as [|? ? Hn N']; subst.
  destruct (eqbZs k' k) eqn:E.
  - apply eqbZs_true in E. subst k'. f_equal.
    symmetry. erewrite map_ext_in; [apply map_id|].
    intros [k2 v2] Hin. cbn [fst snd]. rewrite eqbZs_neq; [reflexivity|].
    intros ->. apply Hn. now apply (in_map fst) in Hin.
  - f_equal. apply IH; [exact N'|]. cbn [map fst In] in H. destruct H as [-> | H]; [|exact H].
    rewrite eqbZs_refl in E. discriminate.
Qed.

Lemma NoDup_snoc {A} (l : list A) x : NoDup l -> ~ In x l -> NoDup (l ++ [x]).
Proof.
  induction l as [|y l IH]; intros N H; cbn [app].
  - constructor; [intros []|constructor].
  - inversion N; subst. constructor.
    + rewrite in_app_iff. cbn [In]. intros [H1 | [-> | []]]; [contradiction|]. apply H. now left.
    + apply IH; [assumption|]. intros H1. apply H. now right.
Qed.

Lemma gfold_spec m : forall g, NoDup (map fst g) ->
  gfold m g = map (fun e => (fst e, snd e ++ values_of (fst e) m)) g
              ++ map (fun k => (k, values_of k m)) (first_keys (map fst m) (map fst g)).
Proof.
  induction m as [|[k v] m IH]; intros g N.
  - cbn [gfold fold_left map first_keys]. rewrite app_nil_r. symmetry.
    erewrite map_ext; [apply map_id|]. intros [a b]. cbn [fst snd values_of filter map]. now rewrite app_nil_r.
  - change (gfold ((k, v) :: m) g) with (gfold m (gadd k v g)).
    cbn [map fst first_keys].
    destruct (existsb (eqbZs k) (map fst g)) eqn:E.
    + apply existsb_eqbZs in E. rewrite (gadd_present k v g N E).
      rewrite IH by (rewrite map_map; cbn [fst]; exact N).
      rewrite !map_map. cbn [fst snd]. f_equal.
      * apply map_ext. intros [k' vs]. cbn [fst snd]. rewrite values_of_cons, (eqbZs_sym k k').
        destruct (eqbZs k' k); [now rewrite <- app_assoc | reflexivity].
      * apply map_ext_in. intros k' Hin. rewrite values_of_cons.
        rewrite eqbZs_neq; [reflexivity|]. intros ->. apply first_keys_in in Hin. tauto.
    + apply existsb_eqbZs_false in E. rewrite (gadd_absent k v g E).
      rewrite IH by (rewrite map_app; cbn [map fst]; now apply NoDup_snoc).
      rewrite !map_app. cbn [map fst snd app]. rewrite <- app_assoc. cbn [app]. f_equal.
      * apply map_ext_in. intros [k' vs] Hin. cbn [fst snd]. rewrite values_of_cons.
        rewrite eqbZs_neq; [reflexivity|]. intros ->. apply E. now apply (in_map fst) in Hin.
      * rewrite values_of_cons, eqbZs_refl. f_equal.
        rewrite (first_keys_ext (map fst m) (map fst g ++ [k]) (k :: map fst g))
          by (intros x; rewrite in_app_iff; cbn [In]; tauto).
        apply map_ext_in. intros k' Hin. rewrite values_of_cons.
        rewrite eqbZs_neq; [reflexivity|]. intros ->. apply first_keys_in in Hin. destruct Hin as [_ Hn].
        apply Hn. now left.
Qed.

(** pair-by-pair promotion builds the declarative dict *)
Lemma build_to_dict m : build m [] = to_dict m.
Proof.
  change (@nil (list Z * pval)) with (render []).
  rewrite build_render by constructor. rewrite gfold_spec by constructor.
  cbn [map app]. unfold render, to_dict. rewrite map_map. reflexivity.
Qed.

(** ** lookup *)
Fixpoint lookup (k : list Z) (d : dict) : option pval :=
  match d with
  | [] => None
  | (k', v) :: r => if eqbZs k' k then Some v else lookup k r
  end.

Lemma lookup_none k d : ~ In k (map fst d) -> lookup k d = None.
Proof.
  induction d as [|[k' v] d IH]; intros H; [reflexivity|].
  cbn [lookup]. cbn [map fst In] in H. rewrite eqbZs_neq by (intros E; apply H; now left). apply IH. tauto.
Qed.

Lemma lookup_upd f k k' v d :
  lookup k (dict_upd f k' v d)
  = if eqbZs k' k then Some (match lookup k' d with Some old => f old v | None => v end)
    else lookup k d.
Proof.
  induction d as [|[k2 v2] d IH]; cbn [dict_upd lookup].
  - destruct (eqbZs k' k); reflexivity.
  - destruct (eqbZs k2 k') eqn:E1.
    + apply eqbZs_true in E1. subst k2. cbn [lookup]. destruct (eqbZs k' k); reflexivity.
    + cbn [lookup]. destruct (eqbZs k2 k) eqn:E2.
      * apply eqbZs_true in E2. subst k2. rewrite (eqbZs_sym k' k), E1. reflexivity.
      * exact IH.
Qed.

Lemma lookup_merge f k src : forall dst, NoDup (map fst src) ->
  lookup k (merge f src dst)
  = match lookup k src with
    | Some v => Some (match lookup k dst with Some old => f old v | None => v end)
    | None => lookup k dst
    end.
Proof.
  induction src as [|[k' v'] src IH]; intros dst N; [reflexivity|].
  unfold merge in *. cbn [fold_left fst snd]. cbn [map fst] in N. inversion N as [|? ? Hn N']; subst.
  rewrite IH by exact N'. cbn [lookup]. rewrite lookup_upd.
  destruct (eqbZs k' k) eqn:E.
  - apply eqbZs_true in E. subst k'. rewrite (lookup_none k src Hn). reflexivity.
  - reflexivity.
Qed.

Lemma lookup_map_keys (g : list Z -> pval) k L :
  lookup k (map (fun k' => (k', g k')) L) = if existsb (eqbZs k) L then Some (g k) else None.
Proof.
  induction L as [|x L IH]; [reflexivity|].
  cbn [map lookup existsb]. rewrite (eqbZs_sym k x). destruct (eqbZs x k) eqn:E.
  - apply eqbZs_true in E. now subst x.
  - exact IH.
Qed.

Lemma lookup_to_dict k m :
  lookup k (to_dict m) = match values_of k m with [] => None | vs => Some (val_of vs) end.
Proof.
  unfold to_dict. rewrite lookup_map_keys.
  destruct (existsb (eqbZs k) (first_keys (map fst m) [])) eqn:E.
  - apply existsb_eqbZs, first_keys_in in E. destruct E as [E _].
    destruct (values_of k m) eqn:V; [|reflexivity]. apply values_of_nil_iff in V. contradiction.
  - apply existsb_eqbZs_false in E. rewrite first_keys_in in E.
    destruct (values_of k m) eqn:V; [reflexivity|].
    exfalso. apply E. split; [|intros []].
    destruct (in_dec (list_eq_dec Z.eq_dec) k (map fst m)) as [H | H]; [exact H|].
    apply values_of_nil_iff in H. rewrite H in V. discriminate.
Qed.

Lemma to_dict_keys_NoDup m : NoDup (map fst (to_dict m)).
Proof. unfold to_dict. rewrite map_map. cbn [fst]. rewrite map_id. apply first_keys_NoDup. Qed.

(** per key: the values of the destination (query) followed by those of the source (body) *)
Lemma lookup_merge_to_dict k mq mb :
  lookup k (merge promote_extend (to_dict mb) (to_dict mq)) = lookup k (to_dict (mq ++ mb)).
Proof.
  rewrite lookup_merge by apply to_dict_keys_NoDup.
  rewrite !lookup_to_dict, values_of_app.
  destruct (values_of k mb) as [|b tb] eqn:Vb.
  - now rewrite app_nil_r.
  - destruct (values_of k mq) as [|a ta] eqn:Vq.
    + reflexivity.
    + rewrite val_of_app by discriminate. reflexivity.
Qed.

(** copying a dict with distinct keys into an empty one is the identity
    (process_urlencoded: params -> entity.params) *)
Lemma dict_upd_absent f k v d : ~ In k (map fst d) -> dict_upd f k v d = d ++ [(k, v)].
Proof.
  induction d as [|[k' v'] d IH]; intros H; [reflexivity|].
  cbn [dict_upd app]. cbn [map fst In] in H.
  rewrite eqbZs_neq by (intros E; apply H; now left). f_equal. apply IH. tauto.
Qed.

Lemma merge_fresh f src : forall dst, NoDup (map fst src) ->
  (forall k, In k (map fst src) -> ~ In k (map fst dst)) -> merge f src dst = dst ++ src.
Proof.
  induction src as [|[k v] src IH]; intros dst N H.
  - cbn. now rewrite app_nil_r.
  - unfold merge in *. cbn [fold_left fst snd]. cbn [map fst] in N. inversion N as [|? ? Hn N']; subst.
    rewrite dict_upd_absent by (apply H; now left).
    rewrite IH; [now rewrite <- app_assoc | exact N' |].
    intros k' Hk. rewrite map_app, in_app_iff. cbn [map fst In].
    intros [H1 | [-> | []]]; [|contradiction]. apply (H k'); [now right | exact H1].
Qed.

Lemma merge_into_empty f d : NoDup (map fst d) -> merge f d [] = d.
Proof. intros N. rewrite merge_fresh; [reflexivity | exact N | intros k _ []]. Qed.

Lemma merge_keys_NoDup f src : forall dst, NoDup (map fst dst) -> NoDup (map fst (merge f src dst)).
Proof.
  assert (U : forall k v d, NoDup (map fst d) -> NoDup (map fst (dict_upd f k v d))).
  { intros k v d. induction d as [|[k' v'] d IH]; intros N; cbn [dict_upd].
    - cbn. constructor; [intros []|constructor].
    - cbn [map fst] in N. inversion N as [|? ? Hn N']; subst. destruct (eqbZs k' k) eqn:E.
      + cbn [map fst]. now constructor.
      + cbn [map fst]. constructor; [|now apply IH].
        intros Hin. apply Hn. clear - Hin E. induction d as [|[k2 v2] d IH]; cbn [dict_upd map fst In] in *.
        * destruct Hin as [-> | []]. rewrite eqbZs_refl in E. discriminate.
        * destruct (eqbZs k2 k); cbn [map fst In] in Hin; tauto. }
  induction src as [|[k v] src IH]; intros dst N; [exact N|].
  unfold merge in *. cbn [fold_left fst snd]. apply IH. now apply U.
Qed.
