(** P_bus_thm - the statements behind Props/C18.v *)
From Coq Require Import ZArith List Bool Lia Permutation Sorted.
From CV Require Import Lib.Sx Lib.ListZ Model.M_bus Proof.P_bus.
Import ListNotations.
Open Scope Z_scope.

(* ------------------------------------------------------------------ publish *)
Lemma is_nil_map : forall A B (f : A -> B) l, is_nil (map f l) = is_nil l.
Proof. intros A B f [|x l]; reflexivity. Qed.

Lemma filter_nil_negb : forall A (f : A -> bool) l, filter f l = [] -> filter (fun x => negb (f x)) l = l.
Proof.
  intros A f l. induction l as [|x r IH]; cbn [filter]; intros H; [reflexivity|].
  destruct (f x); [discriminate|]. cbn [negb]. now rewrite IH.
Qed.

Definition publish_spec (c : cfg) (d ch : Z) (w w' : world) (r : pres) : Prop :=
  let items := sort_prio (snapshot ch w) in
  Permutation items (snapshot ch w) /\
  StronglySorted le_prio items /\
  (forall p, filter (fun it => fst it =? p) items = filter (fun it => fst it =? p) (snapshot ch w)) /\
  (exists new, w_journal w' = new ++ w_journal w /\
               rev (filter (at_depth d) new) = map (entry d ch (w_state w)) items) /\
  r = (if is_nil (filter (raises c) items) then POk (map snd items)
       else PFail (map snd (filter (raises c) items))) /\
  w_state w' = w_state w /\ w_execv w' = w_execv w.

Theorem thm_publish_all : forall c fuel d ch w w' r,
  log_quiet_or c ch w ->
  Forall (fun it : item => simple c (snd it)) (snapshot ch w) ->
  publish c (S (S fuel)) d ch w = (w', r) ->
  publish_spec c d ch w w' r.
Proof.
  intros c fuel d ch w w' r Hq Hsim H. unfold publish_spec. cbv zeta.
  pose proof (publish_ok c (S fuel)) as Hrec.
  pose proof (publish_logq_strict c fuel) as Hls.
  pose proof (publish_logq c (S fuel)) as Hl.
  change (publish c (S (S fuel)) d ch w) with
    (pub_loop c (publish c (S fuel)) d ch (sort_prio (snapshot ch w)) w [] []) in H.
  assert (Hsim' : Forall (fun it : item => simple c (snd it)) (sort_prio (snapshot ch w))).
  { eapply Permutation_Forall; [symmetry; apply sort_prio_perm|exact Hsim]. }
  pose proof (pub_loop_static _ _ Hrec Hls _ _ _ _ _ _ _ _ Hq Hsim' H) as Hr.
  cbv zeta in Hr. cbn [rev app] in Hr. rewrite is_nil_map in Hr.
  assert (Hr' : r = (if is_nil (filter (raises c) (sort_prio (snapshot ch w)))
                     then POk (map snd (sort_prio (snapshot ch w)))
                     else PFail (map snd (filter (raises c) (sort_prio (snapshot ch w)))))).
  { rewrite Hr. destruct (filter (raises c) (sort_prio (snapshot ch w))) eqn:E; cbn [is_nil]; [|reflexivity].
    unfold returns. now rewrite (filter_nil_negb _ _ _ E). }
  assert (Hc : completed r).
  { rewrite Hr'. destruct (is_nil _); [left|right]; eauto. }
  pose proof (pub_loop_journal _ _ Hrec Hl _ _ _ _ _ _ _ _ Hq H Hc) as (new & Hj & Hf).
  pose proof (pub_loop_ok _ _ Hrec _ _ _ _ _ _ _ _ H) as (Hs & He & _).
  repeat split; auto.
  - apply sort_prio_perm.
  - apply sort_prio_sorted.
  - intros p. apply sort_prio_stable.
  - exists new. split; [exact Hj|]. rewrite Hf. apply rev_involutive.
Qed.

(* with listeners that publish re-entrantly, or raise whatever: if the call returned or raised
   ChannelFailures, its own listeners ran exactly once each, sorted, and saw one state *)
Theorem thm_publish_reentrant : forall c fuel d ch w w' r,
  log_quiet_or c ch w ->
  publish c (S fuel) d ch w = (w', r) -> completed r ->
  exists new, w_journal w' = new ++ w_journal w /\
    rev (filter (at_depth d) new) = map (entry d ch (w_state w)) (sort_prio (snapshot ch w)).
Proof.
  intros c fuel d ch w w' r Hq H Hc.
  change (publish c (S fuel) d ch w) with
    (pub_loop c (publish c fuel) d ch (sort_prio (snapshot ch w)) w [] []) in H.
  destruct (pub_loop_journal _ _ (publish_ok c fuel) (publish_logq c fuel) _ _ _ _ _ _ _ _ Hq H Hc)
    as (new & Hj & Hf).
  exists new. split; [exact Hj|]. rewrite Hf. apply rev_involutive.
Qed.

(* a publish never changes state or execv, whatever the listeners do *)
Theorem thm_publish_state : forall c fuel d ch w w' r,
  publish c fuel d ch w = (w', r) -> w_state w' = w_state w /\ w_execv w' = w_execv w.
Proof. intros c fuel d ch w w' r H. apply publish_ok in H. destruct H as (H1 & H2 & _). now split. Qed.

(* ------------------------------------------------------------------ API calls: journal shape *)
Definition Tr (P : jent -> Prop) (w w' : world) : Prop :=
  exists new, w_journal w' = new ++ w_journal w /\ Forall P new.

Lemma Tr_refl : forall P w, Tr P w w.
Proof. intros. exists []. split; [reflexivity|constructor]. Qed.
Lemma Tr_trans : forall P w1 w2 w3, Tr P w1 w2 -> Tr P w2 w3 -> Tr P w1 w3.
Proof.
  intros P w1 w2 w3 (n1 & j1 & f1) (n2 & j2 & f2). exists (n2 ++ n1).
  split; [rewrite j2, j1; now rewrite app_assoc|]. apply Forall_app. now split.
Qed.
Lemma Tr_set_state : forall P w w1 s, Tr P w w1 -> Tr P w (set_state s w1).
Proof. intros P w w1 s H. exact H. Qed.
Lemma Tr_set_execv : forall P w w1 b, Tr P w w1 -> Tr P w (set_execv b w1).
Proof. intros P w w1 b H. exact H. Qed.
Lemma Tr_from_state : forall P w w1 s, Tr P (set_state s w) w1 -> Tr P w w1.
Proof. intros P w w1 s H. exact H. Qed.

Lemma pub_St : forall c ch w w' r, pub c ch w = (w', r) -> St c (newent 1 ch (w_state w)) w w'.
Proof.
  intros c ch w w' r H. unfold pub in H. destruct (publish c FUEL 1 ch w) as [w1 r1] eqn:E.
  inversion H; subst. eapply publish_ok; eauto.
Qed.

Lemma do_log_St : forall c w w' r, do_log c w = (w', r) -> St c (newent 1 CH_LOG (w_state w)) w w'.
Proof.
  intros c w w' r H. unfold do_log, unit_ret in H. destruct (pub c CH_LOG w) as [w1 r1] eqn:E.
  apply pub_St in E. cbn [fst snd] in H. destruct r1; inversion H; subst; exact E.
Qed.

(* [Good P x w]: the computation x, started somewhere after w, extends w's journal by P-entries *)
Definition Good (P : jent -> Prop) (x : world * cres) (w : world) : Prop := Tr P w (fst x).

Lemma Good_andthen : forall P x k w,
  Good P x w -> (forall w1 o, x = (w1, CRet o) -> Good P (k w1) w) -> Good P (andthen x k) w.
Proof.
  intros P [w1 r1] k w Hx Hk. unfold andthen. cbn [fst snd]. destruct r1; try exact Hx. eapply Hk; eauto.
Qed.
Lemma Good_unit_ret : forall P x w, Good P x w -> Good P (unit_ret x) w.
Proof. intros P [w1 r1] w H. unfold unit_ret. cbn [fst snd]. destruct r1; exact H. Qed.
Lemma Good_exit_guard : forall P x w, Good P x w -> Good P (exit_guard x) w.
Proof. intros P [w1 r1] w H. unfold exit_guard. cbn [fst snd]. destruct r1; exact H. Qed.

Lemma Good_pub : forall (P : jent -> Prop) c ch w0 w,
  Tr P w w0 -> (forall j, newent 1 ch (w_state w0) j -> P j) -> Good P (pub c ch w0) w.
Proof.
  intros P c ch w0 w Ht HP. unfold Good. destruct (pub c ch w0) as [w1 r1] eqn:E. cbn [fst].
  apply pub_St in E. destruct E as (_ & _ & (n & j & f) & _).
  eapply Tr_trans; [exact Ht|]. exists n. split; [exact j|]. eapply Forall_impl; [|exact f]. exact HP.
Qed.

Lemma Good_log : forall (P : jent -> Prop) c w0 w,
  Tr P w w0 -> (forall j, newent 1 CH_LOG (w_state w0) j -> P j) -> Good P (do_log c w0) w.
Proof. intros. unfold do_log. apply Good_unit_ret. now apply Good_pub. Qed.

(* entries a lifecycle publish may write: depth-1 entries of start/stop/exit carry the right state *)
Definition seen_ok (j : jent) : Prop :=
  j_depth j = 1 ->
  (j_ch j = CH_START -> j_state j = STARTING) /\
  (j_ch j = CH_STOP -> j_state j = STOPPING) /\
  (j_ch j = CH_EXIT -> j_state j = EXITING).

Lemma seen_log : forall s j, newent 1 CH_LOG s j -> seen_ok j.
Proof.
  intros s j [Hs [Hd|[Hd Hc]]] H1; [lia|]. rewrite Hc. repeat split; intros; discriminate.
Qed.
Lemma seen_graceful : forall s j, newent 1 CH_GRACEFUL s j -> seen_ok j.
Proof.
  intros s j [Hs [Hd|[Hd Hc]]] H1; [lia|]. rewrite Hc. repeat split; intros; discriminate.
Qed.
Lemma seen_start : forall j, newent 1 CH_START STARTING j -> seen_ok j.
Proof.
  intros j [Hs [Hd|[Hd Hc]]] H1; [lia|]. rewrite Hc. repeat split; intros; try discriminate; exact Hs.
Qed.
Lemma seen_stop : forall j, newent 1 CH_STOP STOPPING j -> seen_ok j.
Proof.
  intros j [Hs [Hd|[Hd Hc]]] H1; [lia|]. rewrite Hc. repeat split; intros; try discriminate; exact Hs.
Qed.
Lemma seen_exit : forall j, newent 1 CH_EXIT EXITING j -> seen_ok j.
Proof.
  intros j [Hs [Hd|[Hd Hc]]] H1; [lia|]. rewrite Hc. repeat split; intros; try discriminate; exact Hs.
Qed.

(* the state after a step that returned *)
Lemma do_log_state : forall c w w1 r, do_log c w = (w1, r) -> w_state w1 = w_state w /\ w_execv w1 = w_execv w.
Proof. intros c w w1 r H. apply do_log_St in H. destruct H as (H1 & H2 & _). now split. Qed.
Lemma pub_state : forall c ch w w1 r, pub c ch w = (w1, r) -> w_state w1 = w_state w /\ w_execv w1 = w_execv w.
Proof. intros c ch w w1 r H. apply pub_St in H. destruct H as (H1 & H2 & _). now split. Qed.

Section Shapes.
  Variable P : jent -> Prop.
  Variable c : cfg.
  Hypothesis Plog : forall s j, newent 1 CH_LOG s j -> P j.

  Lemma Good_do_stop : forall w0 w,
    (forall j, newent 1 CH_STOP STOPPING j -> P j) ->
    Tr P w w0 -> Good P (do_stop c w0) w.
  Proof.
    intros w0 w Hp Ht. unfold do_stop.
    apply Good_andthen.
    - apply Good_log; [now apply Tr_set_state|apply Plog].
    - intros w1 o E. pose proof E as Es. apply do_log_state in Es. cbn [set_state w_state] in Es.
      assert (Ht1 : Tr P w w1).
      { pose proof (Good_log P c (set_state STOPPING w0) w (Tr_set_state _ _ _ _ Ht) (Plog _)) as G.
        unfold Good in G. rewrite E in G. exact G. }
      assert (G2 : Good P (pub c CH_STOP w1) w).
      { apply Good_pub; [exact Ht1|]. destruct Es as [Es _]. rewrite Es. exact Hp. }
      unfold Good in *. destruct (pub c CH_STOP w1) as [w2 r2] eqn:E2. cbn [fst snd] in *.
      destruct r2; try (destruct (c_fix_stop c); exact G2).
      apply (Good_log P c (set_state STOPPED w2) w); [exact G2|apply Plog].
  Qed.

  Lemma Good_exit_tail : forall w0 w,
    (forall j, newent 1 CH_EXIT EXITING j -> P j) ->
    Tr P w w0 ->
    Good P (andthen (do_log c (set_state EXITING w0)) (fun w =>
            andthen (unit_ret (pub c CH_EXIT w)) (fun w => do_log c w))) w.
  Proof.
    intros w0 w Hp Ht.
    apply Good_andthen.
    - apply Good_log; [now apply Tr_set_state|apply Plog].
    - intros w1 o E. pose proof E as Es. apply do_log_state in Es. cbn [set_state w_state] in Es.
      assert (Ht1 : Tr P w w1).
      { pose proof (Good_log P c (set_state EXITING w0) w (Tr_set_state _ _ _ _ Ht) (Plog _)) as G.
        unfold Good in G. rewrite E in G. exact G. }
      assert (G2 : Good P (pub c CH_EXIT w1) w).
      { apply Good_pub; [exact Ht1|]. destruct Es as [Es _]. rewrite Es. exact Hp. }
      apply Good_andthen; [now apply Good_unit_ret|].
      intros w2 o2 E2. apply Good_log; [|apply Plog].
      unfold Good in G2. destruct (pub c CH_EXIT w1) as [w2' r2]. unfold unit_ret in E2. cbn [fst snd] in *.
      destruct r2; inversion E2; subst; exact G2.
  Qed.

  Lemma Good_do_exit : forall w0 w,
    (forall j, newent 1 CH_STOP STOPPING j -> P j) ->
    (forall j, newent 1 CH_EXIT EXITING j -> P j) ->
    Tr P w w0 -> Good P (do_exit c w0) w.
  Proof.
    intros w0 w Hp1 Hp2 Ht. unfold do_exit.
    apply Good_andthen.
    - apply Good_exit_guard. apply Good_andthen; [now apply Good_do_stop|].
      intros w1 o E. apply Good_exit_tail; [exact Hp2|].
      pose proof (Good_do_stop w0 w Hp1 Ht) as G. unfold Good in G. now rewrite E in G.
    - intros w1 o E.
      assert (Tr P w w1).
      { assert (G : Good P (exit_guard
           (andthen (do_stop c w0) (fun w => andthen (do_log c (set_state EXITING w)) (fun w =>
            andthen (unit_ret (pub c CH_EXIT w)) (fun w => do_log c w))))) w).
        { apply Good_exit_guard. apply Good_andthen; [now apply Good_do_stop|].
          intros w2 o2 E2. apply Good_exit_tail; [exact Hp2|].
          pose proof (Good_do_stop w0 w Hp1 Ht) as G. unfold Good in G. now rewrite E2 in G. }
        unfold Good in G. now rewrite E in G. }
      destruct (w_state w0 =? STARTING); exact H.
  Qed.
End Shapes.

Lemma Good_do_start : forall c w0 w,
  Tr seen_ok w w0 -> Good seen_ok (do_start c w0) w.
Proof.
  intros c w0 w Ht. unfold do_start.
  apply Good_andthen.
  - apply Good_log; [now apply Tr_set_state|apply seen_log].
  - intros w1 o E. pose proof E as Es. apply do_log_state in Es. cbn [set_state w_state] in Es.
    assert (Ht1 : Tr seen_ok w w1).
    { pose proof (Good_log seen_ok c (set_state STARTING w0) w (Tr_set_state _ _ _ _ Ht) (seen_log _)) as G.
      unfold Good in G. rewrite E in G. exact G. }
    assert (Gx : Good seen_ok (andthen (unit_ret (pub c CH_START w1))
                                 (fun w => do_log c (set_state STARTED w))) w).
    { apply Good_andthen.
      - apply Good_unit_ret. apply Good_pub; [exact Ht1|]. destruct Es as [Es _]. rewrite Es. apply seen_start.
      - intros w2 o2 E2. apply Good_log; [|apply seen_log]. apply Tr_set_state.
        assert (G : Good seen_ok (pub c CH_START w1) w).
        { apply Good_pub; [exact Ht1|]. destruct Es as [Es _]. rewrite Es. apply seen_start. }
        unfold Good in G. destruct (pub c CH_START w1) as [w2' r2]. unfold unit_ret in E2. cbn [fst snd] in *.
        destruct r2; inversion E2; subst; exact G. }
    destruct (andthen (unit_ret (pub c CH_START w1)) (fun w => do_log c (set_state STARTED w))) as [wx rx] eqn:Ex.
    cbn [fst snd]. destruct rx; try exact Gx.
    unfold Good in Gx. cbn [fst] in Gx.
    apply Good_andthen; [apply Good_log; [exact Gx|apply seen_log]|].
    intros w3 o3 E3.
    assert (Ht3 : Tr seen_ok w w3).
    { pose proof (Good_log seen_ok c wx w Gx (seen_log _)) as G. unfold Good in G. now rewrite E3 in G. }
    pose proof (Good_do_exit seen_ok c seen_log w3 w seen_stop seen_exit Ht3) as Ge.
    unfold Good in *. destruct (do_exit c w3) as [wy ry]. cbn [fst snd] in *. destruct ry; exact Ge.
Qed.

Definition lifecycle_call (k : call) : Prop :=
  match k with KStart | KStop | KGraceful | KRestart | KExit => True | _ => False end.

Theorem thm_states_seen : forall c k w w' r,
  lifecycle_call k -> do_call c k w = (w', r) -> Tr seen_ok w w'.
Proof.
  intros c k w w' r Hk H.
  assert (G : Good seen_ok (do_call c k w) w).
  { destruct k; try contradiction; cbn [do_call].
    - apply Good_do_start, Tr_refl.
    - apply Good_do_stop; [apply seen_log|apply seen_stop|apply Tr_refl].
    - unfold do_graceful. apply Good_andthen; [apply Good_log; [apply Tr_refl|apply seen_log]|].
      intros w1 o E. apply Good_unit_ret. apply Good_pub; [|apply seen_graceful].
      pose proof (Good_log seen_ok c w w (Tr_refl _ _) (seen_log _)) as G. unfold Good in G. now rewrite E in G.
    - unfold do_restart. apply (Good_do_exit seen_ok c seen_log (set_execv true w) w seen_stop seen_exit).
      apply Tr_set_execv, Tr_refl.
    - apply Good_do_exit; [apply seen_log|apply seen_stop|apply seen_exit|apply Tr_refl]. }
  unfold Good in G. now rewrite H in G.
Qed.

(* ------------------------------------------------------------------ exit: stop listeners before exit listeners *)
Definition no_exit1 (j : jent) : Prop := j_depth j = 1 -> j_ch j <> CH_EXIT.
Definition no_stop1 (j : jent) : Prop := j_depth j = 1 -> j_ch j <> CH_STOP.

Lemma newent_other : forall ch ch' s j, ch <> ch' -> newent 1 ch s j -> j_depth j = 1 -> j_ch j <> ch'.
Proof. intros ch ch' s j Hne [_ [Hd|[Hd Hc]]] H1; [lia|congruence]. Qed.

Definition exit_tail (c : cfg) (w : world) : world * cres :=
  andthen (do_log c (set_state EXITING w)) (fun w =>
  andthen (unit_ret (pub c CH_EXIT w)) (fun w => do_log c w)).

Lemma do_exit_unfold : forall c w,
  do_exit c w =
  andthen (exit_guard (andthen (do_stop c w) (exit_tail c)))
    (fun w1 => if w_state w =? STARTING then (w1, COsExit EX_SOFTWARE) else ret w1).
Proof. reflexivity. Qed.

Lemma fst_exit_guard : forall x, fst (exit_guard x) = fst x.
Proof. intros [w r]. unfold exit_guard. cbn [fst snd]. destruct r; reflexivity. Qed.

Lemma do_exit_fst : forall c w, fst (do_exit c w) = fst (andthen (do_stop c w) (exit_tail c)).
Proof.
  intros c w. rewrite do_exit_unfold. unfold andthen at 1.
  destruct (snd (exit_guard (andthen (do_stop c w) (exit_tail c)))); try apply fst_exit_guard.
  destruct (w_state w =? STARTING); cbn [fst ret]; apply fst_exit_guard.
Qed.

Theorem thm_exit_order : forall c w w' r,
  do_exit c w = (w', r) ->
  exists n_exit n_stop, w_journal w' = n_exit ++ n_stop ++ w_journal w /\
    Forall no_exit1 n_stop /\ Forall no_stop1 n_exit.
Proof.
  intros c w w' r H.
  assert (Hw : w' = fst (andthen (do_stop c w) (exit_tail c))) by (rewrite <- do_exit_fst, H; reflexivity).
  assert (G1 : Good no_exit1 (do_stop c w) w).
  { apply Good_do_stop; [| |apply Tr_refl].
    - intros s j Hj H1. eapply newent_other; [|exact Hj|exact H1]. discriminate.
    - intros j Hj H1. eapply newent_other; [|exact Hj|exact H1]. discriminate. }
  unfold Good in G1. destruct (do_stop c w) as [ws rs] eqn:Es. cbn [fst] in G1.
  destruct G1 as (n1 & j1 & f1).
  assert (G2 : Good no_stop1 (exit_tail c ws) ws).
  { apply Good_exit_tail; [| |apply Tr_refl].
    - intros s j Hj H1. eapply newent_other; [|exact Hj|exact H1]. discriminate.
    - intros j Hj H1. eapply newent_other; [|exact Hj|exact H1]. discriminate. }
  unfold Good in G2. destruct G2 as (n2 & j2 & f2).
  unfold andthen in Hw. cbn [fst snd] in Hw. destruct rs.
  1: { exists n2, n1. subst w'. rewrite j2, j1. repeat split; auto. }
  all: exists [], n1; subst w'; cbn [fst app]; repeat split; auto.
Qed.

(* ------------------------------------------------------------------ lifecycle: states after the calls *)
Lemma do_stop_state : forall c w w' r,
  do_stop c w = (w', r) ->
  w_execv w' = w_execv w /\
  (w_state w' = STOPPING \/ w_state w' = STOPPED) /\
  (forall o, r = CRet o -> w_state w' = STOPPED).
Proof.
  intros c w w' r H. unfold do_stop, andthen in H.
  destruct (do_log c (set_state STOPPING w)) as [w1 r1] eqn:E1. apply do_log_state in E1.
  cbn [set_state w_state w_execv] in E1. destruct E1 as [S1 X1]. cbn [fst snd] in H.
  destruct r1; try (inversion H; subst; repeat split; auto; intros; discriminate).
  destruct (pub c CH_STOP w1) as [w2 r2] eqn:E2. apply pub_state in E2. destruct E2 as [S2 X2].
  cbn [fst snd] in H.
  destruct r2;
    try (inversion H; subst; destruct (c_fix_stop c); cbn [set_state w_state w_execv];
         repeat split; try congruence; auto; try (left; congruence); intros; discriminate).
  apply do_log_state in H. cbn [set_state w_state w_execv] in H. destruct H as [S3 X3].
  repeat split; try congruence; auto.
Qed.

Definition exit_states (s : Z) : Prop := s = STOPPING \/ s = STOPPED \/ s = EXITING.

Lemma exit_tail_state : forall c w w' r,
  exit_tail c w = (w', r) -> w_state w' = EXITING /\ w_execv w' = w_execv w.
Proof.
  intros c w w' r H. unfold exit_tail, andthen in H.
  destruct (do_log c (set_state EXITING w)) as [w1 r1] eqn:E1. apply do_log_state in E1.
  cbn [set_state w_state w_execv] in E1. destruct E1 as [S1 X1]. cbn [fst snd] in H.
  destruct r1; try (inversion H; subst; split; congruence).
  destruct (pub c CH_EXIT w1) as [w2 r2] eqn:E2. apply pub_state in E2. destruct E2 as [S2 X2].
  unfold unit_ret in H. cbn [fst snd] in H.
  destruct r2; cbn [fst snd] in H; try (inversion H; subst; split; congruence).
  apply do_log_state in H. destruct H. split; congruence.
Qed.

Lemma pub_no_osexit : forall c ch w w' r k, pub c ch w = (w', r) -> r <> COsExit k.
Proof.
  intros c ch w w' r k H. unfold pub in H. destruct (publish c FUEL 1 ch w) as [w1 r1].
  inversion H; subst. destruct r1; discriminate.
Qed.
Lemma do_log_no_osexit : forall c w w' r k, do_log c w = (w', r) -> r <> COsExit k.
Proof.
  intros c w w' r k H. unfold do_log, unit_ret in H. destruct (pub c CH_LOG w) as [w1 r1] eqn:E.
  apply (pub_no_osexit _ _ _ _ _ k) in E. cbn [fst snd] in H. destruct r1; inversion H; subst; auto; discriminate.
Qed.
Lemma do_stop_no_osexit : forall c w w' r k, do_stop c w = (w', r) -> r <> COsExit k.
Proof.
  intros c w w' r k H. unfold do_stop, andthen in H.
  destruct (do_log c (set_state STOPPING w)) as [w1 r1] eqn:E1. apply (do_log_no_osexit _ _ _ _ k) in E1.
  cbn [fst snd] in H. destruct r1; try (inversion H; subst; auto; discriminate).
  destruct (pub c CH_STOP w1) as [w2 r2] eqn:E2. apply (pub_no_osexit _ _ _ _ _ k) in E2.
  cbn [fst snd] in H. destruct r2; try (inversion H; subst; auto; discriminate).
  eapply do_log_no_osexit; eauto.
Qed.
Lemma exit_tail_no_osexit : forall c w w' r k, exit_tail c w = (w', r) -> r <> COsExit k.
Proof.
  intros c w w' r k H. unfold exit_tail, andthen in H.
  destruct (do_log c (set_state EXITING w)) as [w1 r1] eqn:E1. apply (do_log_no_osexit _ _ _ _ k) in E1.
  cbn [fst snd] in H. destruct r1; try (inversion H; subst; auto; discriminate).
  destruct (pub c CH_EXIT w1) as [w2 r2] eqn:E2. apply (pub_no_osexit _ _ _ _ _ k) in E2.
  unfold unit_ret in H. cbn [fst snd] in H.
  destruct r2; cbn [fst snd] in H; try (inversion H; subst; auto; discriminate).
  eapply do_log_no_osexit; eauto.
Qed.

Ltac fin_exit :=
  repeat split; auto; try (intros; discriminate); try (intros; now left);
  try (intros; right; left; eexists; reflexivity); try (intros; tauto).

Lemma do_exit_cases : forall c w w' r,
  do_exit c w = (w', r) ->
  exit_states (w_state w') /\ w_execv w' = w_execv w /\
  (forall ids, r <> CFail ids) /\
  (forall o, r = CRet o -> w_state w' = EXITING /\ w_state w <> STARTING) /\
  (w_state w = STARTING -> r = COsExit EX_SOFTWARE \/ (exists k, r = CSys k) \/ r = CKbd \/ r = CFuel).
Proof.
  intros c w w' r H. rewrite do_exit_unfold in H.
  destruct (do_stop c w) as [ws rs] eqn:Es. pose proof (do_stop_state _ _ _ _ Es) as (Xs & Ss & Cs).
  assert (Hcommon : forall wt rt, andthen (ws, rs) (exit_tail c) = (wt, rt) ->
            exit_states (w_state wt) /\ w_execv wt = w_execv w).
  { intros wt rt Ht. unfold andthen in Ht. cbn [fst snd] in Ht.
    destruct rs; try (inversion Ht; subst; split; [unfold exit_states; tauto|congruence]).
    apply exit_tail_state in Ht. destruct Ht. split; [unfold exit_states; tauto|congruence]. }
  destruct (andthen (ws, rs) (exit_tail c)) as [wt rt] eqn:Et.
  destruct (Hcommon _ _ eq_refl) as [Hst Hx].
  assert (Hret : forall o, rt = CRet o -> w_state wt = EXITING).
  { intros o Ho. subst rt. unfold andthen in Et. cbn [fst snd] in Et.
    destruct rs; try (inversion Et; fail). apply exit_tail_state in Et. tauto. }
  unfold andthen, exit_guard in H. cbn [fst snd] in H.
  destruct rt; cbn [fst snd] in H.
  - destruct (w_state w =? STARTING) eqn:Est.
    + inversion H; subst. apply Z.eqb_eq in Est. fin_exit.
    + inversion H; subst. apply Z.eqb_neq in Est. fin_exit. eapply Hret; reflexivity.
  - inversion H; subst. fin_exit.
  - inversion H; subst. fin_exit.
  - inversion H; subst. fin_exit.
  - exfalso. unfold andthen in Et. cbn [fst snd] in Et. destruct rs.
    + eapply exit_tail_no_osexit; eauto.
    + discriminate.
    + discriminate.
    + discriminate.
    + inversion Et; subst. eapply do_stop_no_osexit; eauto.
    + discriminate.
  - inversion H; subst. fin_exit.
Qed.

(* keep the kernel from unfolding the model while it re-checks the case analyses below *)
Opaque publish pub do_log.

(* a call that returned normally: STARTED after start, STOPPED after stop, EXITING after
   exit/restart (and it was not entered in STARTING); every other call leaves the state alone *)
Definition clean_state (k : call) (w w' : world) : Prop :=
  match k with
  | KStart => w_state w' = STARTED /\ w_execv w' = w_execv w
  | KStop => w_state w' = STOPPED /\ w_execv w' = w_execv w
  | KExit => w_state w' = EXITING /\ w_state w <> STARTING /\ w_execv w' = w_execv w
  | KRestart => w_state w' = EXITING /\ w_state w <> STARTING /\ w_execv w' = true
  | _ => w_state w' = w_state w /\ w_execv w' = w_execv w
  end.

Theorem thm_lifecycle_clean : forall c k w w' o,
  do_call c k w = (w', CRet o) -> clean_state k w w'.
Proof.
  intros c k w w' o H. destruct k; cbn [do_call clean_state] in *.
  - (* start *)
    unfold do_start, andthen in H.
    destruct (do_log c (set_state STARTING w)) as [w1 r1] eqn:E1. apply do_log_state in E1.
    cbn [set_state w_state w_execv] in E1. destruct E1 as [S1 X1]. cbn [fst snd] in H.
    destruct r1; try discriminate.
    destruct (pub c CH_START w1) as [w2 r2] eqn:E2. apply pub_state in E2. destruct E2 as [S2 X2].
    unfold unit_ret in H. cbn [fst snd] in H.
    destruct r2; cbn [fst snd] in H; try discriminate.
    + destruct (do_log c (set_state STARTED w2)) as [w3 r3] eqn:E3. apply do_log_state in E3.
      cbn [set_state w_state w_execv] in E3. destruct E3 as [S3 X3]. cbn [fst snd] in H.
      destruct r3; try discriminate; try (inversion H; subst; split; congruence).
      destruct (do_log c w3) as [w4 r4]. cbn [fst snd] in H. destruct r4; try discriminate.
      destruct (do_exit c w4) as [w5 r5]. cbn [fst snd] in H. destruct r5; discriminate.
    + destruct (do_log c w2) as [w4 r4]. cbn [fst snd] in H. destruct r4; try discriminate.
      destruct (do_exit c w4) as [w5 r5]. cbn [fst snd] in H. destruct r5; discriminate.
  - apply do_stop_state in H. destruct H as (X & _ & C). split; eauto.
  - (* graceful *)
    unfold do_graceful, andthen in H.
    destruct (do_log c w) as [w1 r1] eqn:E1. apply do_log_state in E1. destruct E1 as [S1 X1].
    cbn [fst snd] in H. destruct r1; try discriminate.
    destruct (pub c CH_GRACEFUL w1) as [w2 r2] eqn:E2. apply pub_state in E2. destruct E2 as [S2 X2].
    unfold unit_ret in H. cbn [fst snd] in H. destruct r2; inversion H; subst. split; congruence.
  - unfold do_restart in H. apply do_exit_cases in H. destruct H as (_ & X & _ & C & _).
    destruct (C _ eq_refl). cbn [set_execv w_state w_execv] in *. repeat split; auto.
  - apply do_exit_cases in H. destruct H as (_ & X & _ & C & _). destruct (C _ eq_refl). repeat split; auto.
  - apply pub_state in H. exact H.
  - unfold ret in H. inversion H; subst. split; reflexivity.
  - unfold ret in H. inversion H; subst. split; reflexivity.
Qed.

(* exit never lets an Exception out and never returns when it was entered in STARTING *)
Theorem thm_exit_failure : forall c w w' r,
  do_exit c w = (w', r) ->
  (forall ids, r <> CFail ids) /\
  (w_state w = STARTING -> r = COsExit EX_SOFTWARE \/ (exists k, r = CSys k) \/ r = CKbd \/ r = CFuel) /\
  (forall o, r = CRet o -> w_state w' = EXITING) /\
  exit_states (w_state w').
Proof.
  intros c w w' r H. apply do_exit_cases in H. destruct H as (A & _ & B & C & D).
  repeat split; auto. intros o Ho. now destruct (C o Ho).
Qed.

Transparent publish pub do_log.

(* ------------------------------------------------------------------ with log listeners that do not raise *)
Definition LQ (c : cfg) (w : world) : Prop := log_subs_quiet c = true /\ logq c w.
Definition ext (w w' : world) : Prop := exists new, w_journal w' = new ++ w_journal w.

Lemma LQ_set_state : forall c w s, LQ c w -> LQ c (set_state s w).
Proof. intros c w s H. exact H. Qed.

Lemma St_ext : forall c P w w', St c P w w' -> ext w w'.
Proof. intros c P w w' (_ & _ & (n & j & _) & _). now exists n. Qed.
Lemma ext_trans : forall w1 w2 w3, ext w1 w2 -> ext w2 w3 -> ext w1 w3.
Proof. intros w1 w2 w3 [n1 j1] [n2 j2]. exists (n2 ++ n1). rewrite j2, j1. now rewrite app_assoc. Qed.

Lemma do_log_quiet : forall c w, LQ c w ->
  exists w1, do_log c w = (w1, CRet []) /\ w_state w1 = w_state w /\ w_execv w1 = w_execv w /\
             LQ c w1 /\ ext w w1.
Proof.
  intros c w [Hq Hl]. unfold do_log, pub. destruct (publish c FUEL 1 CH_LOG w) as [w1 r1] eqn:E.
  pose proof (publish_ok _ _ _ _ _ _ _ E) as Hst.
  change FUEL with (S 5) in E. destruct (publish_logq_strict c 5 _ _ _ _ Hl E) as [o Ho]. subst r1.
  exists w1. unfold unit_ret. cbn [fst snd cres_of_pres]. split; [reflexivity|].
  pose proof (St_ext _ _ _ _ Hst) as Hx. destruct Hst as (S1 & X1 & _ & L1).
  repeat split; auto.
Qed.

Lemma pub_LQ : forall c ch w w' r, LQ c w -> pub c ch w = (w', r) -> LQ c w'.
Proof. intros c ch w w' r [Hq Hl] H. apply pub_St in H. destruct H as (_ & _ & _ & L). split; auto. Qed.

Opaque publish pub do_log.

(* the repaired stop(): whatever the stop listeners do, the bus is STOPPED afterwards *)
Theorem thm_stop_state : forall c w w' r,
  LQ c w -> c_fix_stop c = true -> do_stop c w = (w', r) -> w_state w' = STOPPED.
Proof.
  intros c w w' r Hq Hfix H. unfold do_stop in H.
  destruct (do_log_quiet c (set_state STOPPING w) (LQ_set_state _ _ _ Hq)) as (w1 & E1 & S1 & _ & Q1 & _).
  rewrite E1 in H. unfold andthen in H. cbn [fst snd] in H.
  destruct (pub c CH_STOP w1) as [w2 r2] eqn:E2. cbn [fst snd] in H. rewrite Hfix in H.
  destruct r2; try (inversion H; subst; reflexivity).
  apply do_log_state in H. destruct H as [H _]. exact H.
Qed.

Opaque do_exit do_stop.

Lemma andthen_ret : forall w o k, andthen (w, CRet o) k = k w.
Proof. reflexivity. Qed.
Lemma andthen_stop : forall w r k, (forall o, r <> CRet o) -> andthen (w, r) k = (w, r).
Proof. intros w r k H. unfold andthen. cbn [fst snd]. destruct r; try reflexivity. now destruct (H outs). Qed.
Lemma unit_ret_ret : forall w o, unit_ret (w, CRet o) = (w, CRet []).
Proof. reflexivity. Qed.
Lemma unit_ret_other : forall w r, (forall o, r <> CRet o) -> unit_ret (w, r) = (w, r).
Proof. intros w r H. unfold unit_ret. cbn [fst snd]. destruct r; try reflexivity. now destruct (H outs). Qed.

Definition start_body (DL : world -> world * cres) (PB : Z -> world -> world * cres)
  (DE : world -> world * cres) (w : world) : world * cres :=
  andthen (DL (set_state STARTING w)) (fun w =>
    let x := andthen (unit_ret (PB CH_START w)) (fun w => DL (set_state STARTED w)) in
    match snd x with
    | CFail ids =>
        andthen (DL (fst x)) (fun w =>
          let y := DE w in
          match snd y with
          | CRet _ | CFail _ => (fst y, CFail ids)
          | _ => y
          end)
    | _ => x
    end).
Lemma do_start_unfold : forall c w, do_start c w = start_body (do_log c) (pub c) (do_exit c) w.
Proof. reflexivity. Qed.

(* start(): either every start listener returned and the bus is STARTED, or it is never STARTED and
   the call does not return; when the start publish raised ChannelFailures, exit() was run from
   STARTING (which publishes stop and exit and ends the process, thm_exit_failure) *)
Theorem thm_start_failure : forall c w w' r,
  LQ c w -> do_start c w = (w', r) ->
  exists w1 w2 r2,
    ext w w1 /\ w_state w1 = STARTING /\ pub c CH_START w1 = (w2, r2) /\
    ( ((exists o, r2 = CRet o) /\ r = CRet [] /\ w_state w' = STARTED)
      \/ ((exists ids w3, r2 = CFail ids /\ ext w2 w3 /\ w_state w3 = STARTING /\ do_exit c w3 = (w', r))
          /\ w_state w' <> STARTED
          /\ (r = COsExit EX_SOFTWARE \/ (exists k, r = CSys k) \/ r = CKbd \/ r = CFuel))
      \/ (w' = w2 /\ r = r2 /\ w_state w' = STARTING /\ ((exists k, r = CSys k) \/ r = CKbd \/ r = CFuel)) ).
Proof.
  intros c w w' r Hq H. rewrite do_start_unfold in H.
  (* the case analysis only needs these facts about log, publish and exit: hide the functions
     behind variables, and rewrite with the andthen/unit_ret equations instead of unfolding
     (unfolding duplicates the nested computations and the kernel re-check explodes) *)
  pose proof (do_log_quiet c) as HDL. pose proof (pub_LQ c) as HPL. pose proof (pub_state c) as HPS.
  pose proof (pub_no_osexit c) as HPN. pose proof (do_exit_cases c) as HDE.
  remember (do_log c) as DL eqn:HeqDL. remember (pub c) as PB eqn:HeqPB. remember (do_exit c) as DE eqn:HeqDE.
  clear HeqDL HeqPB HeqDE. unfold start_body in H.
  destruct (HDL (set_state STARTING w) (LQ_set_state _ _ _ Hq)) as (w1 & E1 & S1 & _ & Q1 & X1).
  rewrite E1, andthen_ret in H.
  cbn [set_state w_state] in S1.
  destruct (PB CH_START w1) as [w2 r2] eqn:E2.
  pose proof (HPL _ _ _ _ Q1 E2) as Q2. pose proof (HPS _ _ _ _ E2) as [S2 _].
  assert (S2' : w_state w2 = STARTING) by congruence.
  exists w1, w2, r2. split; [exact X1|]. split; [exact S1|]. split; [exact E2|].
  destruct r2.
  - left. rewrite unit_ret_ret, andthen_ret in H.
    destruct (HDL (set_state STARTED w2) (LQ_set_state _ _ _ Q2)) as (w3 & E3 & S3 & _).
    rewrite E3 in H. cbv zeta in H. cbn [fst snd] in H. inversion H; subst. repeat split; eauto.
  - right; left. rewrite unit_ret_other, andthen_stop in H by (intros; discriminate).
    cbv zeta in H. cbn [fst snd] in H.
    destruct (HDL w2 Q2) as (w3 & E3 & S3 & _ & Q3 & X3).
    rewrite E3, andthen_ret in H.
    destruct (DE w3) as [w4 r4] eqn:E4. cbn [fst snd] in H.
    assert (S3' : w_state w3 = STARTING) by congruence.
    pose proof (HDE _ _ _ E4) as (Hst & _ & Hnf & _ & Hs). specialize (Hs S3').
    assert (w' = w4 /\ r = r4).
    { destruct Hs as [Hs|[[k Hs]|[Hs|Hs]]]; subst r4; inversion H; auto. }
    destruct H0; subst w4 r4. repeat split.
    + exists ids, w3. repeat split; auto.
    + destruct Hst as [Hst|[Hst|Hst]]; rewrite Hst; discriminate.
    + exact Hs.
  - right; right. rewrite unit_ret_other, andthen_stop in H by (intros; discriminate).
    cbv zeta in H. cbn [fst snd] in H. inversion H; subst.
    split; [reflexivity|]. split; [reflexivity|]. split; [exact S2'|]. left. eexists. reflexivity.
  - right; right. rewrite unit_ret_other, andthen_stop in H by (intros; discriminate).
    cbv zeta in H. cbn [fst snd] in H. inversion H; subst.
    split; [reflexivity|]. split; [reflexivity|]. split; [exact S2'|]. right; left. reflexivity.
  - exfalso. eapply HPN; eauto.
  - right; right. rewrite unit_ret_other, andthen_stop in H by (intros; discriminate).
    cbv zeta in H. cbn [fst snd] in H. inversion H; subst.
    split; [reflexivity|]. split; [reflexivity|]. split; [exact S2'|]. right; right. reflexivity.
Qed.

Transparent do_exit do_stop.

(* exit(): the whole table.  The stop publish runs in STOPPING; if it returned, the exit publish
   runs in EXITING; any ChannelFailures of either, or entry in STARTING, gives os._exit(70);
   SystemExit / KeyboardInterrupt pass through. *)
Definition exit_row (c : cfg) (w w2 w' : world) (rs r : cres) : Prop :=
  match rs with
  | CRet _ =>
      exists w3 w4 rx, ext w2 w3 /\ w_state w3 = EXITING /\ pub c CH_EXIT w3 = (w4, rx) /\
        ext w4 w' /\ w_state w' = EXITING /\
        r = match rx with
            | CRet _ => if w_state w =? STARTING then COsExit EX_SOFTWARE else CRet []
            | CFail _ => COsExit EX_SOFTWARE
            | other => other
            end
  | CFail _ => r = COsExit EX_SOFTWARE /\ w' = (if c_fix_stop c then set_state STOPPED w2 else w2)
  | other => r = other /\ w' = (if c_fix_stop c then set_state STOPPED w2 else w2)
  end.

Lemma ext_refl : forall w, ext w w.
Proof. intros w. now exists []. Qed.
Lemma ext_from_state : forall s w w', ext (set_state s w) w' -> ext w w'.
Proof. intros s w w' H. exact H. Qed.

Theorem thm_exit_table : forall c w w' r,
  LQ c w -> do_exit c w = (w', r) ->
  exists w1 w2 rs, ext w w1 /\ w_state w1 = STOPPING /\ pub c CH_STOP w1 = (w2, rs) /\
                   exit_row c w w2 w' rs r.
Proof.
  intros c w w' r Hq H. rewrite do_exit_unfold in H. unfold do_stop in H.
  destruct (do_log_quiet c (set_state STOPPING w) (LQ_set_state _ _ _ Hq)) as (w1 & E1 & S1 & _ & Q1 & X1).
  rewrite E1 in H. unfold andthen at 3 in H. cbn [fst snd] in H. cbn [set_state w_state] in S1.
  destruct (pub c CH_STOP w1) as [w2 rs] eqn:E2.
  pose proof (pub_LQ _ _ _ _ _ Q1 E2) as Q2.
  pose proof (pub_no_osexit _ _ _ _ _ EX_SOFTWARE E2) as N2.
  exists w1, w2, rs. repeat split; auto. cbn [fst snd] in H. unfold exit_row.
  destruct rs.
  - (* stop returned *)
    destruct (do_log_quiet c (set_state STOPPED w2) (LQ_set_state _ _ _ Q2)) as (w2' & E2' & _ & _ & Q2' & X2').
    rewrite E2' in H. unfold andthen at 2 in H. cbn [fst snd] in H. unfold exit_tail in H.
    destruct (do_log_quiet c (set_state EXITING w2') (LQ_set_state _ _ _ Q2')) as (w3 & E3 & S3 & _ & Q3 & X3).
    rewrite E3 in H. unfold andthen at 2 in H. cbn [fst snd] in H. cbn [set_state w_state] in S3.
    destruct (pub c CH_EXIT w3) as [w4 rx] eqn:E4.
    pose proof (pub_LQ _ _ _ _ _ Q3 E4) as Q4. pose proof (pub_state _ _ _ _ _ E4) as [S4 _].
    exists w3, w4, rx. split; [eapply ext_trans; [apply (ext_from_state _ _ _ X2')|apply (ext_from_state _ _ _ X3)]|]. split; [exact S3|]. split; [exact E4|].
    unfold unit_ret, andthen, exit_guard in H. cbn [fst snd] in H.
    destruct rx; cbn [fst snd] in H.
    + destruct (do_log_quiet c w4 Q4) as (w5 & E5 & S5 & _ & _ & X5). rewrite E5 in H. cbn [fst snd] in H.
      destruct (w_state w =? STARTING); inversion H; subst; repeat split; auto; congruence.
    + inversion H; subst. repeat split; auto using ext_refl; congruence.
    + inversion H; subst. repeat split; auto using ext_refl; congruence.
    + inversion H; subst. repeat split; auto using ext_refl; congruence.
    + exfalso. eapply pub_no_osexit; eauto.
    + inversion H; subst. repeat split; auto using ext_refl; congruence.
  - unfold andthen, exit_guard in H. cbn [fst snd] in H. inversion H; subst. split; reflexivity.
  - unfold andthen, exit_guard in H. cbn [fst snd] in H. inversion H; subst. split; reflexivity.
  - unfold andthen, exit_guard in H. cbn [fst snd] in H. inversion H; subst. split; reflexivity.
  - unfold andthen, exit_guard in H. cbn [fst snd] in H. inversion H; subst. split; reflexivity.
  - unfold andthen, exit_guard in H. cbn [fst snd] in H. inversion H; subst. split; reflexivity.
Qed.

Transparent publish pub do_log.

(* ------------------------------------------------------------------ concrete instances used by the Examples *)
(* listener 0 unsubscribes listener 2 from channel 6 and subscribes listener 3 in front of everybody,
   then raises; 2 raises; 1, 3 return; 4 is a quiet log listener *)
Definition ex_c : cfg :=
  Cfg true [ ([AUnsub 6 2; ASub 6 3 5], Exc); ([], Ok); ([], Exc); ([], Ok); ([], Ok) ] [].
Definition ex_subs (l : list (Z * Z * Z)) : world :=
  set_subs (fold_left (fun acc '(ch, id, p) => subscribe ex_c ch id p acc) l []) init.
Definition ex_w_pub : world := ex_subs [(6, 2, 50); (6, 0, 10); (6, 1, 50); (4, 4, 50)].
Definition ex_w_life : world :=
  ex_subs [(CH_START, 2, 50); (CH_START, 1, 10); (CH_STOP, 1, 50); (CH_EXIT, 3, 50); (CH_LOG, 4, 50)].
Definition ex_w_stop : world := ex_subs [(CH_STOP, 2, 50); (CH_STOP, 1, 60); (CH_LOG, 4, 50)].
Definition lifecycle_view (w : world) : list (Z * Z * Z) :=
  map (fun j => (j_ch j, j_id j, j_state j))
      (filter (fun j => at_depth 1 j && negb (j_ch j =? CH_LOG)) (rev (w_journal w))).

Lemma ex_LQ : forall l, Forall (fun '(ch, id, p) => ch = CH_LOG -> id = 4) l -> LQ ex_c (ex_subs l).
Proof.
  intros l H. split; [reflexivity|]. unfold logq, ex_subs. cbn [set_subs w_subs].
  assert (G : forall acc, Forall (subq ex_c) acc ->
            Forall (subq ex_c) (fold_left (fun acc '(ch, id, p) => subscribe ex_c ch id p acc) l acc)).
  { induction H as [|[[ch id] p] r Hx _ IH]; intros acc Ha; cbn [fold_left]; [exact Ha|].
    apply IH. unfold subscribe. apply Forall_ins_sub.
    - intros Hc. cbn [s_ch s_id] in *. rewrite (Hx Hc). reflexivity.
    - now apply Forall_filter. }
  apply G. constructor.
Qed.
