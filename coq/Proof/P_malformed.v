(** C07 — totality of the repaired parser models: whatever the input and whatever the
    library oracles answer within their declared raise-sets, a parser tolerates or rejects
    with a 4xx; never a crash. *)
From Coq Require Import ZArith List Bool Lia.
From CV Require Import Lib.Sx Lib.ListZ Model.M_malformed.
From CV Require Model.M_params Model.M_ranges Proof.P_ranges.
Import ListNotations.
Open Scope Z_scope.

(** where the model may abstain (a codec outside the modelled kinds, a part with a registered
    content type): whenever it speaks, it does not crash *)
Definition safe (r : res) : bool :=
  match r with
  | Ok | Unmodelled => true
  | Reject c | Answer c => is4xx c
  | Crash _ _ => false
  end.

Ltac dpos tac := do 4 (try (match goal with p : positive |- _ => destruct p end); tac).

Lemma total_safe : forall r, total4xx r = true -> safe r = true.
Proof. intros []; cbn; congruence. Qed.

(* ------------------------------------------------------------------ *)
(** * exceptions *)

Lemma exn_eqb_eq : forall a b, exn_eqb a b = true -> a = b.
Proof. intros a b H; destruct a, b; try reflexivity; discriminate H. Qed.

Lemma in_set_inv : forall o l, in_set o l = true ->
  o = OOk \/ exists e, o = OExn e /\ In e l.
Proof.
  intros [|e] l H; [now left|right]. exists e; split; [reflexivity|].
  cbn in H. apply existsb_exists in H. destruct H as [x [Hin Heq]].
  apply exn_eqb_eq in Heq. now subst.
Qed.

Lemma translate_total : forall classes code e p,
  is4xx code = true -> caught e classes = true -> total4xx (translate classes code e p) = true.
Proof. intros classes code e p H4 Hc. unfold translate. rewrite Hc. exact H4. Qed.

(* ------------------------------------------------------------------ *)
(** * process_headers: decode_TEXT, cookies, Host *)

Definition decode_raises : list exn := [ELookup; EUnicode; EUnicodeDecode; EValue].

Definition dh_declared (dh : dh_answer) : Prop :=
  match dh with
  | DHRaise e => e = EHeaderParse
  | DHAtoms atoms enc => Forall (fun a => in_set (snd a) decode_raises = true) atoms /\ in_set enc [EUnicode] = true
  end.

Lemma decode_raises_caught : forall e, In e decode_raises -> caught e text_catch = true.
Proof. intros e [H|[H|[H|[H|[]]]]]; subst; reflexivity. Qed.

Lemma text_atoms_fixed_total : forall atoms,
  Forall (fun a => in_set (snd a) decode_raises = true) atoms ->
  total4xx (text_atoms_fixed atoms) = true.
Proof.
  induction atoms as [|[[isb cs] o] r IH]; intros H; [reflexivity|].
  inversion H as [|? ? Ho Hr]; subst. cbn [text_atoms_fixed].
  destruct (isb && (1 <? cs)); [|now apply IH].
  cbn [snd] in Ho. apply in_set_inv in Ho. destruct Ho as [->|[e [-> Hin]]]; [now apply IH|].
  apply translate_total; [reflexivity|now apply decode_raises_caught].
Qed.

Lemma decode_text_total : forall value dh,
  dh_declared dh -> total4xx (decode_text cfg_fixed value dh) = true.
Proof.
  intros value dh H. unfold decode_text. destruct (negb (has_sub s_eqq value)); [reflexivity|].
  destruct dh as [e|atoms enc]; cbn [f_text cfg_fixed].
  - cbn in H. subst e. reflexivity.
  - destruct H as [Ha He]. pose proof (text_atoms_fixed_total atoms Ha) as Ht.
    destruct (text_atoms_fixed atoms); try exact Ht.
    apply in_set_inv in He. destruct He as [->|[e [-> [<-|[]]]]]; reflexivity.
Qed.

Lemma process_header_total : forall is_cookie value dh ck,
  dh_declared dh -> in_set ck [ECookie] = true ->
  total4xx (process_header cfg_fixed is_cookie value dh ck) = true.
Proof.
  intros is_cookie value dh ck Hd Hc. unfold process_header.
  pose proof (decode_text_total value dh Hd) as Ht.
  destruct (decode_text cfg_fixed value dh) eqn:E; try exact Ht.
  destruct is_cookie; [|reflexivity].
  apply in_set_inv in Hc. destruct Hc as [->|[e [-> [<-|[]]]]]; reflexivity.
Qed.

Lemma host_check_total : forall h p split, in_set split [EValue] = true -> total4xx (host_check h p split) = true.
Proof.
  intros [] [] split Hs; cbn; try reflexivity;
    apply in_set_inv in Hs; destruct Hs as [->|[e [-> [<-|[]]]]]; reflexivity.
Qed.

(* ------------------------------------------------------------------ *)
(** * query string, Accept-*, Range, max-age, lengths *)

Lemma query_total : forall qs, total4xx (query cfg_fixed qs) = true.
Proof.
  intros qs. unfold query. cbn [f_imap cfg_fixed].
  set (s := M_params.recode qs).
  assert (Hp : total4xx (match M_params.parse_qs M_params.utf8_dec s with Some _ => Ok | None => Reject 404 end) = true)
    by (destruct (M_params.parse_qs M_params.utf8_dec s); reflexivity).
  destruct (M_params.imap_full s); [|exact Hp].
  destruct (split_on 44 s) as [|a [|b r]]; try reflexivity.
  destruct (too_long a || too_long b); [exact Hp|reflexivity].
Qed.

Lemma accept_q_total : forall stage qs, total4xx (accept_q cfg_fixed stage qs) = true.
Proof.
  intros stage qs. unfold accept_q. destruct (negb (qvalue_bad qs)); [reflexivity|].
  destruct (stage =? 0); reflexivity.
Qed.

(** ... and in a before_finalize hook the repaired tool does not raise *)
Lemma accept_q_stage : forall stage qs, stage_total (negb (stage =? 0), accept_q cfg_fixed stage qs) = true.
Proof.
  intros stage qs. unfold accept_q. destruct (negb (qvalue_bad qs)).
  - destruct (negb (stage =? 0)); reflexivity.
  - destruct (stage =? 0); reflexivity.
Qed.

Lemma ranges_total : forall h cl, ranges cfg_fixed h cl = Ok.
Proof.
  intros h cl. unfold ranges. destruct h as [[|c hv]|]; try reflexivity.
  destruct (M_ranges.split1 M_ranges.ch_eq (c :: hv)) as [[u rest]|]; [|reflexivity].
  destruct (negb (M_ranges.unit_is_bytes u)); [reflexivity|].
  destruct (split_at_long (M_ranges.split_on M_ranges.ch_comma rest) []) as [[before p]|]; [|reflexivity].
  cbn [f_range cfg_fixed]. destruct before; [reflexivity|].
  destruct (M_ranges.get_ranges M_ranges.cfg_fixed _ cl); reflexivity.
Qed.

(** where no position is too long M_ranges' repaired get_ranges is the whole story, and it does not raise *)
Lemma ranges_no_int_failure : forall h cl w,
  M_ranges.get_ranges M_ranges.cfg_fixed h cl <> M_ranges.GrCrash w.
Proof. intros. apply P_ranges.get_ranges_strict_no_crash. Qed.

Lemma max_age_total : forall vals, total4xx (max_age cfg_fixed vals) = true.
Proof.
  induction vals as [|v r IH]; [reflexivity|]. cbn [max_age].
  destruct (split1 61 v) as [[d a]|].
  - destruct (eqbZs d s_maxage).
    + destruct (negb (py_isdigit a)); [reflexivity|]. destruct (int_ok_digits a); reflexivity.
    + destruct (eqbZs d s_nocache); [reflexivity|exact IH].
  - destruct (eqbZs v s_maxage); [reflexivity|]. destruct (eqbZs v s_nocache); [reflexivity|exact IH].
Qed.

Lemma body_length_total : forall has_cl has_te maxbytes sent reads_all,
  total4xx (body_length has_cl has_te maxbytes sent reads_all) = true.
Proof.
  intros. unfold body_length. destruct (negb has_cl && negb has_te); [reflexivity|].
  destruct (reads_all && (0 <? maxbytes) && (maxbytes <? sent)); reflexivity.
Qed.

(* ------------------------------------------------------------------ *)
(** * charsets *)

Lemma kind_exn_caught : forall k, caught (kind_exn k) (charset_catch cfg_fixed) = true.
Proof.
  intros k. unfold kind_exn. destruct k as [|p|p]; try reflexivity.
  dpos ltac:(try reflexivity).
Qed.

Lemma urlencoded_safe : forall t cs body, safe (urlencoded_attempts cfg_fixed t cs body) = true.
Proof.
  intros t cs body. induction cs as [|x r IH]; [reflexivity|]. cbn [urlencoded_attempts].
  destruct ((codec_kind t x <? 0) || (5 <? codec_kind t x)); [reflexivity|].
  destruct (M_params.parse_body_with _ body); [reflexivity|].
  rewrite kind_exn_caught. exact IH.
Qed.

(** with modelled codecs only, the answer is definite *)
Lemma urlencoded_total : forall t cs body,
  Forall (fun n => 0 <= codec_kind t n <= 5) cs ->
  total4xx (urlencoded_attempts cfg_fixed t cs body) = true.
Proof.
  intros t cs body H. induction H as [|x r Hx Hr IH]; [reflexivity|]. cbn [urlencoded_attempts].
  replace ((codec_kind t x <? 0) || (5 <? codec_kind t x)) with false
    by (symmetry; apply orb_false_iff; split; [apply Z.ltb_ge|apply Z.ltb_ge]; lia).
  destruct (M_params.parse_body_with _ body); [reflexivity|].
  rewrite kind_exn_caught. exact IH.
Qed.

Lemma decode_entity_safe : forall t cs v, safe (decode_entity cfg_fixed t cs v) = true.
Proof.
  intros t cs v. induction cs as [|x r IH]; [reflexivity|]. cbn [decode_entity].
  destruct ((codec_kind t x <? 0) || (5 <? codec_kind t x)); [reflexivity|].
  destruct (dec_of_kind (codec_kind t x) v); [reflexivity|].
  rewrite kind_exn_caught. exact IH.
Qed.

Lemma decode_entity_total : forall t cs v,
  Forall (fun n => 0 <= codec_kind t n <= 5) cs ->
  total4xx (decode_entity cfg_fixed t cs v) = true.
Proof.
  intros t cs v H. induction H as [|x r Hx Hr IH]; [reflexivity|]. cbn [decode_entity].
  replace ((codec_kind t x <? 0) || (5 <? codec_kind t x)) with false
    by (symmetry; apply orb_false_iff; split; [apply Z.ltb_ge|apply Z.ltb_ge]; lia).
  destruct (dec_of_kind (codec_kind t x) v); [reflexivity|].
  rewrite kind_exn_caught. exact IH.
Qed.

Lemma form_body_safe : forall t ctype body, safe (form_body cfg_fixed t ctype body) = true.
Proof.
  intros. unfold form_body. destruct (first_element (Some ctype)) as [[v ps]|]; [|reflexivity].
  destruct (eqbZs v s_form); [apply urlencoded_safe|reflexivity].
Qed.

Lemma encode_charset_total : forall stream k, total4xx (encode_charset cfg_fixed stream k) = true.
Proof.
  intros stream k. unfold encode_charset. destruct ((k <? 3) || (5 <? k)); [reflexivity|].
  destruct stream; [reflexivity|]. cbn [f_encnul cfg_fixed].
  unfold kind_exn. destruct k as [|p|p]; try reflexivity. dpos ltac:(try reflexivity).
Qed.

(* ------------------------------------------------------------------ *)
(** * Content-Disposition *)

Lemma unquote_outcome_declared : forall t enc f e,
  unquote_outcome t enc f = Some (OExn e) -> caught e fnstar_catch = true.
Proof.
  intros t enc f e. unfold unquote_outcome.
  destruct (negb (existsb (fun ch => ch =? 37) f)); [discriminate|].
  destruct (codec_kind t enc) as [|p|p]; try discriminate.
  dpos ltac:(try discriminate); intros H; inversion H; reflexivity.
Qed.

(** the repaired Entity.__init__ never fails on a Content-Disposition header *)
Lemma disposition_safe : forall t cd,
  disposition cfg_fixed t cd = Ok \/ disposition cfg_fixed t cd = Unmodelled.
Proof.
  intros t cd. unfold disposition. destruct (first_element cd) as [[v ps]|]; [|now left].
  destruct (lookup s_fnstar ps) as [x|]; [|now left].
  destruct (split_on 39 x) as [|a [|b [|c0 [|d r]]]]; try (now left).
  destruct (unquote_outcome t a c0) as [[|e]|] eqn:E; [now left| |now right].
  cbn [f_fnstar cfg_fixed]. rewrite (unquote_outcome_declared _ _ _ _ E). now left.
Qed.

(* ------------------------------------------------------------------ *)
(** * multipart *)

Definition ok_or_400 (r : res) : Prop := r = Ok \/ r = Reject 400.

Lemma mp_fail_fixed : forall e p, mp_fail cfg_fixed e p = Reject 400.
Proof. reflexivity. Qed.

Lemma read_headers_ok : forall lines k acc,
  ok_or_400 (fst (fst (read_headers cfg_fixed lines k acc))).
Proof.
  induction lines as [|line r IH]; intros k acc; cbn [read_headers].
  - right; reflexivity.
  - destruct (eqbZs line s_crlf); [left; reflexivity|].
    destruct (negb (suffix s_crlf line)); [right; reflexivity|].
    destruct line as [|ch l']; [right; reflexivity|].
    destruct ((ch =? 32) || (ch =? 9)).
    + destruct k; [|right; reflexivity]. destruct acc as [|[k0 v0] acc']; apply IH.
    + destruct (split1 58 (ch :: l')) as [[k0 v0]|]; [apply IH|right; reflexivity].
Qed.

Lemma read_to_boundary_ok : forall b lines p acc d,
  ok_or_400 (fst (fst (fst (read_to_boundary cfg_fixed b lines p acc d)))).
Proof.
  intros b. induction lines as [|line r IH]; intros p acc d; cbn [read_to_boundary].
  - right; reflexivity.
  - destruct (prefix s_dd line && p && eqbZs (bstrip line) b); [left; reflexivity|].
    destruct (prefix s_dd line && p && eqbZs (bstrip line) (b ++ s_dd)); [left; reflexivity|].
    destruct (suffix s_crlf (d ++ line)); [apply IH|].
    destruct (suffix [10] (d ++ line)); apply IH.
Qed.

Lemma parts_loop_safe : forall t form b early fuel lines,
  safe (parts_loop cfg_fixed t form b early fuel lines) = true.
Proof.
  intros t form b early. induction fuel as [|x fuel IH]; intros lines; [reflexivity|].
  cbn [parts_loop].
  pose proof (read_headers_ok lines false []) as Hh.
  destruct (read_headers cfg_fixed lines false []) as [[r0 hs] rest]. cbn [fst] in Hh.
  destruct Hh as [->| ->]; [|reflexivity].
  destruct (disposition_safe t (header_get s_cdisp (rv hs))) as [Hd|Hd]; rewrite Hd; [|reflexivity].
  destruct (match first_element (header_get s_ctype (rv hs)) with Some e => e | None => (s_textplain, []) end) as [ctv ctp].
  destruct (registered ctv); [reflexivity|].
  pose proof (read_to_boundary_ok b rest true [] []) as Hb.
  destruct (read_to_boundary cfg_fixed b rest true [] []) as [[[r1 content] is_end] rest']. cbn [fst] in Hb.
  destruct Hb as [->| ->]; [|reflexivity].
  match goal with |- context [if ?c then decode_entity ?a ?b0 ?c0 ?d0 else Ok] =>
    assert (Hdec : safe (if c then decode_entity a b0 c0 d0 else Ok) = true)
      by (destruct c; [apply decode_entity_safe|reflexivity]);
    remember (if c then decode_entity a b0 c0 d0 else Ok) as dec
  end.
  destruct (is_end || early); [exact Hdec|].
  specialize (IH rest'). destruct (parts_loop cfg_fixed t form b early fuel rest'); try exact IH; exact Hdec.
Qed.

Lemma multipart_safe : forall t ctype lines early,
  safe (multipart cfg_fixed t ctype lines early) = true.
Proof.
  intros. unfold multipart. destruct (first_element (Some ctype)) as [[v ps]|]; [|reflexivity].
  destruct (negb _); [reflexivity|].
  destruct (negb (boundary_ok _)); [reflexivity|].
  destruct (skip_to_marker _ lines); [apply parts_loop_safe|reflexivity].
Qed.

(* ------------------------------------------------------------------ *)
(** * JSON, basic, digest, sessions *)

Definition json_raises : list exn := [EValue; EJSON; EUnicodeDecode; EUnicode; ERecursion].

Lemma json_body_total : forall cl o,
  in_set o json_raises = true -> total4xx (json_body cfg_fixed cl o) = true.
Proof.
  intros cl o H. unfold json_body. destruct (negb cl); [reflexivity|].
  apply in_set_inv in H. destruct H as [->|[e [-> Hin]]]; [reflexivity|].
  apply translate_total; [reflexivity|].
  destruct Hin as [<-|[<-|[<-|[<-|[<-|[]]]]]]; reflexivity.
Qed.

Lemma basic_auth_total : forall sp sb ascii b64 colon pw,
  in_set ascii [EUnicode] = true -> in_set b64 [EBinascii; EValue] = true ->
  total4xx (basic_auth sp sb ascii b64 colon pw) = true.
Proof.
  intros sp sb ascii b64 colon pw Ha Hb. unfold basic_auth.
  destruct (negb sp); [reflexivity|]. destruct (negb sb); [reflexivity|].
  apply in_set_inv in Ha. destruct Ha as [->|[e [-> [<-|[]]]]]; [|reflexivity].
  apply in_set_inv in Hb. destruct Hb as [->|[e [-> [<-|[<-|[]]]]]]; try reflexivity.
  destruct (negb colon); [reflexivity|]. destruct pw; reflexivity.
Qed.

Definition digest_decode_raises : list exn := [EValue; EUnicode; EUnicodeDecode].
Definition keqv_raises : list exn := [EValue; EIndex].

Lemma digest_init_cases : forall dec sp keqv f,
  in_set dec digest_decode_raises = true -> in_set keqv keqv_raises = true ->
  (exists c, digest_init cfg_fixed dec sp keqv f = Reject c /\ is4xx c = true) \/
  (digest_init cfg_fixed dec sp keqv f = Ok /\
   match d_qop f with Some q => qop_valid q = true | None => True end).
Proof.
  intros dec sp keqv f Hd Hk. unfold digest_init.
  apply in_set_inv in Hd. destruct Hd as [->|[e [-> Hin]]].
  2:{ left. exists 400. split; [|reflexivity].
      destruct Hin as [<-|[<-|[<-|[]]]]; reflexivity. }
  destruct (negb sp); [left; exists 400; split; reflexivity|].
  apply in_set_inv in Hk. destruct Hk as [->|[e [-> Hin]]].
  2:{ left. exists 400. split; [|reflexivity]. destruct Hin as [<-|[<-|[]]]; reflexivity. }
  destruct (negb (d_alg_ok f)); [left; exists 400; split; reflexivity|].
  destruct (negb (d_required f)); [left; exists 400; split; reflexivity|].
  cbn [f_qopempty cfg_fixed].
  destruct (d_qop f) as [q|].
  - assert (Hc : (match q with [] => true | _ :: _ => true end) = true) by (destruct q; reflexivity).
    replace (match q with [] => true | _ :: _ => true end) with true.
    destruct (qop_valid q) eqn:Eq; cbn [negb].
    + destruct (negb (d_cnonce f && d_nc f)); [left; exists 400; split; reflexivity|right; split; [reflexivity|exact eq_refl]].
    + left; exists 400; split; reflexivity.
  - destruct (d_cnonce f || d_nc f); [left; exists 400; split; reflexivity|right; split; [reflexivity|exact Logic.I]].
Qed.

Lemma digest_auth_total : forall sd dec sp keqv f nonce_ok user digest_ok stale,
  in_set dec digest_decode_raises = true -> in_set keqv keqv_raises = true ->
  total4xx (digest_auth cfg_fixed sd dec sp keqv f nonce_ok user digest_ok stale) = true.
Proof.
  intros sd dec sp keqv f nonce_ok user digest_ok stale Hd Hk. unfold digest_auth.
  destruct (negb sd); [reflexivity|].
  destruct (digest_init_cases dec sp keqv f Hd Hk) as [[c [-> Hc]]|[-> Hq]]; [exact Hc|].
  destruct (negb nonce_ok); [reflexivity|]. destruct (negb user); [reflexivity|].
  destruct (d_qop f) as [q|].
  - cbn [f_authint cfg_fixed]. destruct (eqbZs q s_authint) eqn:E1; [reflexivity|].
    unfold qop_valid in Hq. rewrite E1 in Hq. rewrite orb_false_r in Hq. rewrite Hq.
    destruct (negb digest_ok); [reflexivity|]. destruct stale; reflexivity.
  - destruct (negb digest_ok); [reflexivity|]. destruct stale; reflexivity.
Qed.

Lemma session_id_total : forall esc lock kind, total4xx (session_id cfg_fixed esc lock kind) = true.
Proof.
  intros esc lock kind. unfold session_id. destruct esc; [reflexivity|]. destruct lock; [reflexivity|].
  destruct (kind =? 2); reflexivity.
Qed.

(* ------------------------------------------------------------------ *)
(** * test_callable_spec: every way the call can fail is classified *)

Lemma existsb_filter : forall {A} (p : A -> bool) l, existsb p l = true -> filter p l <> [].
Proof.
  intros A p l H. apply existsb_exists in H. destruct H as [x [Hin Hp]].
  intros E. assert (Hx : In x (filter p l)) by (apply filter_In; now split). rewrite E in Hx. exact Hx.
Qed.

Lemma callable_spec_total : forall h npos kws,
  total4xx (callable_spec cfg_fixed h npos kws) = true.
Proof.
  intros h npos kws. unfold callable_spec.
  destruct (negb (call_fails h npos kws)) eqn:Ef; [reflexivity|].
  apply negb_false_iff in Ef. unfold call_fails in Ef.
  set (us := usages (h_args h) 0 npos (lenZ (h_args h)) (h_ndef h) kws) in *.
  destruct (existsb (fun au => snd au =? 0) us) eqn:E1; [reflexivity|].
  destruct (negb (h_varargs h) && (lenZ (h_args h) <? npos)) eqn:E3; [reflexivity|].
  cbn [f_kwself cfg_fixed andb].
  destruct (existsb (fun au => 1 <? snd au) us) eqn:E2.
  { apply existsb_filter in E2.
    destruct (filter (fun au => 1 <? snd au) us) as [|y ys]; [congruence|]. cbn [map app].
    match goal with |- context [if ?c then Reject 404 else Reject 400] => destruct c; reflexivity end. }
  destruct (mem (h_self h) (map fst kws)) eqn:E5.
  { destruct (map fst (filter (fun au => 1 <? snd au) us)) as [|y ys]; cbn [app];
      match goal with |- context [if ?c then Reject 404 else Reject 400] => destruct c; reflexivity end. }
  cbn [orb] in Ef. rewrite orb_false_r in Ef.
  apply andb_true_iff in Ef. destruct Ef as [Hkw Hex]. rewrite Hkw.
  apply existsb_filter in Hex.
  assert (Hm : map fst (filter (fun au => 1 <? snd au) us) = []).
  { destruct (filter (fun au => 1 <? snd au) us) as [|y ys] eqn:Efl; [reflexivity|].
    exfalso. assert (Hy : In y (filter (fun au => 1 <? snd au) us)) by (rewrite Efl; now left).
    apply filter_In in Hy. destruct Hy as [Hin Hp].
    assert (existsb (fun au => 1 <? snd au) us = true) by (apply existsb_exists; now exists y). congruence. }
  rewrite Hm. cbn [app].
  destruct (filter (fun kv => negb (mem (fst kv) (h_args h))) kws) as [|z zs]; [congruence|].
  match goal with |- context [if ?c then Reject 404 else Reject 400] => destruct c; reflexivity end.
Qed.

(* ------------------------------------------------------------------ *)
(** * the pipeline *)

Lemma is4xx_lt : forall c, is4xx c = true -> 400 <= c <= 499.
Proof. intros c H. unfold is4xx in H. apply andb_true_iff in H. destruct H as [H1 H2].
  apply Z.leb_le in H1. apply Z.leb_le in H2. lia. Qed.

Lemma pipeline_no_5xx : forall stages handler,
  Forall (fun s => stage_total s = true) stages -> 100 <= handler < 500 ->
  100 <= pipeline stages handler < 500.
Proof.
  induction stages as [|[bf r] rest IH]; intros handler H Hh; [exact Hh|].
  inversion H as [|? ? Hs Hr]; subst. cbn [pipeline].
  destruct r as [|c|c|e p|].
  - now apply IH.
  - destruct bf; [discriminate Hs|]. cbn in Hs. apply is4xx_lt in Hs. lia.
  - assert (Hc : is4xx c = true) by (destruct bf; exact Hs). apply is4xx_lt in Hc. lia.
  - destruct bf; discriminate Hs.
  - destruct bf; discriminate Hs.
Qed.

Lemma stage_total_of_total : forall r, total4xx r = true -> stage_total (false, r) = true.
Proof. intros r H. exact H. Qed.
