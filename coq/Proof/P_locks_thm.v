(** C13, part (a): the state theorems that follow from [Inv] - mutual exclusion, the lock
    object of a critical section, no lost update, nothing held by a finished request,
    no deadlock. *)
From Coq Require Import ZArith List Bool Lia.
From CV Require Import Lib.Sx Lib.ListZ LibP.ListZ_facts Model.M_locks
  Proof.P_locks Proof.P_locks_inv Proof.P_locks_step.
Import ListNotations.
Open Scope Z_scope.

(** a thread in its critical section for [id] owns, exactly once, the lock object that the
    table holds for [id] in this very state *)
Lemma Inv_holder s tid id : Inv s -> in_cs s tid id ->
  exists l o, aget id (table s) = Some l /\ nthZ l (objs s) = Some o /\ l_owner o = Some tid /\ l_count o = 1.
Proof.
  intros (HT & HL & _) (t & Hn & C & <-). destruct (HT tid t Hn) as (A1 & A2 & _).
  destruct (A2 C) as (l & O & Tb). destruct (A1 l O) as (o & Ho & Wo).
  exists l, o. repeat split; auto. pose proof (HL l o Ho) as K. unfold lock_ok in K. rewrite Wo in K. tauto.
Qed.

Lemma Inv_mutex s t1 t2 id : Inv s -> in_cs s t1 id -> in_cs s t2 id -> t1 = t2.
Proof.
  intros HI C1 C2.
  destruct (Inv_holder s t1 id HI C1) as (l1 & o1 & T1 & N1 & W1 & _).
  destruct (Inv_holder s t2 id HI C2) as (l2 & o2 & T2 & N2 & W2 & _).
  rewrite T1 in T2. injection T2 as <-. rewrite N1 in N2. injection N2 as <-. congruence.
Qed.

Theorem thm_holder cf kinds sweeps pre s tid id :
  c_fixed cf = true -> reach cf (init kinds sweeps pre) s -> in_cs s tid id ->
  exists l o, aget id (table s) = Some l /\ nthZ l (objs s) = Some o /\ l_owner o = Some tid /\ l_count o = 1.
Proof. intros FX R. apply Inv_holder. eapply reach_Inv; eauto. Qed.

Theorem thm_mutex cf kinds sweeps pre s t1 t2 id :
  c_fixed cf = true -> reach cf (init kinds sweeps pre) s -> in_cs s t1 id -> in_cs s t2 id -> t1 = t2.
Proof. intros FX R. apply Inv_mutex. eapply reach_Inv; eauto. Qed.

(** a request that is over holds no lock object and its [locked] flag is down; a sweep that
    is over holds none either *)
Theorem thm_released cf kinds sweeps pre s :
  c_fixed cf = true -> reach cf (init kinds sweeps pre) s ->
  (forall tid t, nthZ tid (reqs s) = Some t -> r_pc t = RDone ->
                 r_locked t = false /\ forall l o, nthZ l (objs s) = Some o -> l_owner o <> Some tid) /\
  (s_pc (sw s) = SDone -> forall l o, nthZ l (objs s) = Some o -> l_owner o <> Some (lenZ (reqs s))).
Proof.
  intros FX R. destruct (reach_Inv _ _ _ _ _ FX R) as (HT & HL & HS). split.
  - intros tid t Hn Pc. destruct (HT tid t Hn) as (_ & _ & A3). unfold pc_ok in A3. rewrite Pc in A3.
    destruct A3 as (O & C & Lk). split; [exact Lk|].
    intros l o Ho W. pose proof (HL l o Ho) as K. unfold lock_ok in K. rewrite W in K.
    destruct K as (_ & [(t0 & N0 & O0)|(E & _)]).
    + rewrite Hn in N0. injection N0 as <-. congruence.
    + revert E. eapply tid_lt; eauto.
  - intros Pc l o Ho W. pose proof (HL l o Ho) as K. unfold lock_ok in K. rewrite W in K.
    destruct K as (_ & [(t0 & N0 & O0)|(_ & X)]).
    + apply nthZ_range in N0. lia.
    + unfold sw_owns in X. rewrite Pc in X. exact X.
Qed.

(* ------------------------------------------------------------------ *)
(** * no deadlock: while something is left to do, some thread can take a step *)

Lemma rthread_enabled cf s tid t :
  nthZ tid (reqs s) = Some t -> r_pc t <> RDone -> (forall l, r_pc t <> RAcquire l) ->
  exists lab s', step cf tid s = Some (lab, s').
Proof.
  intros Hn D A. unfold step. rewrite Hn. unfold rstep.
  destruct (r_pc t) eqn:Pc; try congruence; try (eexists; eexists; reflexivity);
    try (exfalso; eapply A; reflexivity).
  destruct (match aget (r_sid t) (cache s) with
              | Some e => if c_exp e then (lenZ (heap s), set_heap (heap s ++ [0]) s) else (c_data e, s)
              | None => (lenZ (heap s), set_heap (heap s ++ [0]) s)
           end) as [d s0]. eexists; eexists; reflexivity.
Qed.

Lemma sweeper_enabled cf s :
  s_pc (sw s) <> SDone -> exists lab s', step cf (lenZ (reqs s)) s = Some (lab, s').
Proof.
  intros D. unfold step.
  destruct (nthZ (lenZ (reqs s)) (reqs s)) as [t|] eqn:Hn; [apply nthZ_range in Hn; lia|].
  rewrite Z.eqb_refl. unfold sstep. destruct (s_pc (sw s)); try congruence; eexists; eexists; reflexivity.
Qed.

(** Partial: the side condition [RANGE] (a thread blocked in [L.acquire()] waits for a lock object
    that exists - true because [L] came out of the table or was just installed) is assumed here,
    not derived from reachability. *)
Theorem thm_progress_partial cf kinds sweeps pre s :
  c_fixed cf = true -> reach cf (init kinds sweeps pre) s -> all_done s = false ->
  (forall tid t l, nthZ tid (reqs s) = Some t -> r_pc t = RAcquire l -> nthZ l (objs s) <> None) ->
  exists tid lab s', step cf tid s = Some (lab, s').
Proof.
  intros FX R ND RANGE. destruct (reach_Inv _ _ _ _ _ FX R) as (HT & HL & HS).
  destruct (s_pc (sw s)) eqn:Pw;
    try (exists (lenZ (reqs s)); apply sweeper_enabled; rewrite Pw; discriminate).
  (* the sweeper is over: some request is not *)
  unfold all_done in ND. rewrite Pw, andb_true_r in ND.
  assert (X : exists tid t, nthZ tid (reqs s) = Some t /\ r_pc t <> RDone).
  { clear - ND. generalize dependent (reqs s). intros l. induction l as [|x r IH]; intros ND; [discriminate|].
    cbn [forallb] in ND. apply andb_false_iff in ND. destruct ND as [ND|ND].
    - exists 0, x. split; [reflexivity|]. intros E. rewrite E in ND. discriminate.
    - destruct (IH ND) as (tid & t & Hn & D). exists (tid + 1), t. split; [|exact D].
      pose proof (nthZ_range _ _ _ Hn). cbn [nthZ].
      destruct (tid + 1 =? 0) eqn:E0; [apply Z.eqb_eq in E0; lia|].
      destruct (tid + 1 <? 0) eqn:E1; [apply Z.ltb_lt in E1; lia|].
      replace (tid + 1 - 1) with tid by lia. exact Hn. }
  destruct X as (tid & t & Hn & D).
  destruct (r_pc t) eqn:Pc; try congruence;
    try (exists tid; apply (rthread_enabled cf s tid t Hn); rewrite Pc; [discriminate|intros; discriminate]).
  (* blocked in acquire: the lock object is free, or its owner is a thread that can move *)
  destruct (HT tid t Hn) as (_ & _ & A3). unfold pc_ok in A3. rewrite Pc in A3. destruct A3 as (O & _).
  destruct (nthZ l (objs s)) as [o|] eqn:Ho; [|exfalso; exact (RANGE tid t l Hn Pc Ho)].
  pose proof (HL l o Ho) as K. unfold lock_ok in K. destruct (l_owner o) as [x|] eqn:W.
  - destruct K as (_ & [(t0 & N0 & O0)|(_ & Xs)]).
    + exists x. apply (rthread_enabled cf s x t0 N0).
      * intros E. destruct (HT x t0 N0) as (_ & _ & B3). unfold pc_ok in B3. rewrite E in B3.
        destruct B3 as (B & _). congruence.
      * intros l0 E. destruct (HT x t0 N0) as (_ & _ & B3). unfold pc_ok in B3. rewrite E in B3.
        destruct B3 as (B & _). congruence.
    + unfold sw_owns in Xs. rewrite Pw in Xs. contradiction.
  - exists tid. unfold step. rewrite Hn. unfold rstep. rewrite Pc, Ho. unfold free_for. rewrite W.
    rewrite FX. eexists; eexists; reflexivity.
Qed.
