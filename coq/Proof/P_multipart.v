(** read_lines_to_boundary returns exactly the content that precedes the
    delimiter line, for every content without a delimiter-like line, every
    buffer size and every fragmentation. *)
From Coq Require Import ZArith List Bool Lia.
From CV Require Import Lib.Sx Lib.ListZ LibP.ListZ_facts Model.M_reader Proof.P_reader
  Proof.P_multipart_line Model.M_multipart.
Import ListNotations.
Open Scope Z_scope.

(* ---------- strip ---------- *)

Lemma rv_rev (l : list Z) : rv l = rev l.
Proof. unfold rv. symmetry. apply rev_alt. Qed.

Lemma rstrip_all f w : forallb f w = true -> rstrip_by f w = [].
Proof.
  induction w as [|x w IH]; cbn [forallb rstrip_by]; intros H; [reflexivity|].
  apply andb_true_iff in H. destruct H as [Hx Hw]. now rewrite (IH Hw), Hx.
Qed.

Lemma rstrip_app_ws f m w : forallb f w = true -> rstrip_by f (m ++ w) = rstrip_by f m.
Proof.
  intros Hw. induction m as [|x m IH]; cbn [app rstrip_by].
  - now apply rstrip_all.
  - now rewrite IH.
Qed.

Lemma lstrip_all f w : forallb f w = true -> lstrip_by f w = [].
Proof.
  induction w as [|x w IH]; cbn [forallb lstrip_by]; intros H; [reflexivity|].
  apply andb_true_iff in H. destruct H as [Hx Hw]. now rewrite Hx, (IH Hw).
Qed.

Lemma lstrip_app f l w :
  lstrip_by f (l ++ w) = if forallb f l then lstrip_by f w else lstrip_by f l ++ w.
Proof.
  induction l as [|x l IH]; cbn [app lstrip_by forallb]; [reflexivity|].
  destruct (f x); cbn [andb]; [exact IH | reflexivity].
Qed.

Lemma strip_app_ws f l w : forallb f w = true -> strip_by f (l ++ w) = strip_by f l.
Proof.
  intros Hw. unfold strip_by. rewrite lstrip_app.
  destruct (forallb f l) eqn:E.
  - now rewrite (lstrip_all f w Hw), (lstrip_all f l E).
  - now apply rstrip_app_ws.
Qed.

Lemma rstrip_last f m x : f x = false -> rstrip_by f (m ++ [x]) = m ++ [x].
Proof.
  intros Hx. induction m as [|y m IH]; cbn [app rstrip_by].
  - now rewrite Hx.
  - rewrite IH. destruct (m ++ [x]) eqn:E; [|reflexivity].
    now apply app_eq_nil in E.
Qed.

(* ---------- the boundary and the delimiter line ---------- *)

(** the boundary string "--" ++ ib as the code builds it, for a valid ib *)
Definition b_ok (b : list Z) : Prop :=
  exists ib, b = 45 :: 45 :: ib /\ valid_boundary ib = true.

Lemma printable_not_ws z : printable z = true -> z <> 32 -> is_ws z = false.
Proof.
  unfold printable, is_ws. intros H Hz.
  apply andb_true_iff in H. destruct H as [H1 H2]. apply Z.leb_le in H1, H2.
  apply orb_false_iff. split; [apply Z.eqb_neq; exact Hz|].
  apply andb_false_iff. right. apply Z.leb_gt. lia.
Qed.

Lemma valid_boundary_last ib :
  valid_boundary ib = true -> exists m x, ib = m ++ [x] /\ is_ws x = false /\ forallb printable ib = true.
Proof.
  unfold valid_boundary. intros H.
  apply andb_true_iff in H. destruct H as [H Hl]. apply andb_true_iff in H. destruct H as [Hp _].
  rewrite rv_rev in Hl. destruct (rev ib) as [|x m] eqn:E; [discriminate|].
  exists (rev m), x. assert (Eib : ib = rev m ++ [x]).
  { rewrite <- (rev_involutive ib), E. reflexivity. }
  split; [exact Eib|]. split; [|exact Hp].
  apply printable_not_ws.
  - rewrite forallb_forall in Hp. apply Hp. rewrite Eib. apply in_or_app. right. now left.
  - apply negb_true_iff, Z.eqb_neq in Hl. exact Hl.
Qed.

Lemma strip_b b : b_ok b -> strip b = b.
Proof.
  intros (ib & -> & Hv). destruct (valid_boundary_last ib Hv) as (m & x & -> & Hx & _).
  unfold strip, strip_by. cbn [lstrip_by]. change (is_ws 45) with false. cbv iota.
  change (45 :: 45 :: m ++ [x]) with ((45 :: 45 :: m) ++ [x]). now apply rstrip_last.
Qed.

Lemma b_no_lf b : b_ok b -> find_nl b = None.
Proof.
  intros (ib & -> & Hv). destruct (valid_boundary_last ib Hv) as (_ & _ & _ & _ & Hp).
  cbn [find_nl]. change (45 =? 10) with false. cbv iota.
  assert (H : find_nl ib = None).
  { clear Hv. induction ib as [|y r IH]; [reflexivity|]. cbn [forallb] in Hp.
    apply andb_true_iff in Hp. destruct Hp as [Hy Hr]. cbn [find_nl].
    unfold printable in Hy. apply andb_true_iff in Hy. destruct Hy as [H1 _]. apply Z.leb_le in H1.
    destruct (y =? 10) eqn:E; [apply Z.eqb_eq in E; lia|]. now rewrite (IH Hr). }
  now rewrite H.
Qed.

(** the padding and line end after the boundary on a delimiter line:
    white space, ending at the first LF or at the end of the body *)
Definition pad_ok (t R : list Z) : Prop :=
  forallb is_ws t = true /\
  ((exists t0, t = t0 ++ [10] /\ find_nl t0 = None) \/ (find_nl t = None /\ R = [])).

Lemma first_line_pad l t R : find_nl l = None -> pad_ok t R -> first_line ((l ++ t) ++ R) = l ++ t.
Proof.
  intros Hl [_ [(t0 & -> & Ht0) | (Ht & ->)]].
  - rewrite <- !app_assoc. rewrite (first_line_nolf_app l _ Hl). rewrite (first_line_nolf_app t0 _ Ht0).
    cbn. reflexivity.
  - rewrite app_nil_r. rewrite <- (app_nil_r (l ++ t)) at 1.
    rewrite first_line_nolf_app by (now apply find_nl_none_app). cbn. now rewrite app_nil_r.
Qed.

Lemma eqbZs_refl l : eqbZs l l = true.
Proof.
  unfold eqbZs. induction l as [|x l IH]; [reflexivity|].
  cbn -[Z.eqb]. rewrite Z.eqb_refl. exact IH.
Qed.

Lemma eqbZs_eq a b : eqbZs a b = true -> a = b.
Proof.
  unfold eqbZs. revert b; induction a as [|x a IH]; intros [|y b] H; try discriminate; [reflexivity|].
  cbn -[Z.eqb] in H.
  apply andb_true_iff in H. destruct H as [H1 H2]. apply Z.eqb_eq in H1. subst. f_equal. now apply IH.
Qed.

Lemma eqbZs_app_ne b : eqbZs (b ++ [45; 45]) b = false.
Proof.
  destruct (eqbZs (b ++ [45; 45]) b) eqn:E; [|reflexivity].
  apply eqbZs_eq in E. apply (f_equal (@length Z)) in E. rewrite app_length in E. cbn in E. lia.
Qed.

Lemma starts_dd_b b t : b_ok b -> starts_dd (b ++ t) = true.
Proof. intros (ib & -> & _). reflexivity. Qed.

Lemma bnd_test_delim b t : b_ok b -> forallb is_ws t = true -> bnd_test b (b ++ t) true = 1.
Proof.
  intros Hb Ht. unfold bnd_test. rewrite (starts_dd_b b t Hb). cbn [andb].
  unfold strip. rewrite (strip_app_ws is_ws b t Ht). fold (strip b). rewrite (strip_b b Hb).
  now rewrite eqbZs_refl.
Qed.

Lemma b_ok_dd b : b_ok b -> strip (b ++ [45; 45]) = b ++ [45; 45].
Proof.
  intros (ib & -> & Hv). unfold strip, strip_by. cbn [app lstrip_by]. change (is_ws 45) with false. cbv iota.
  replace (45 :: 45 :: ib ++ [45; 45]) with ((45 :: 45 :: ib ++ [45]) ++ [45])
    by (cbn [app]; rewrite <- app_assoc; reflexivity).
  now apply rstrip_last.
Qed.

Lemma bnd_test_close b t : b_ok b -> forallb is_ws t = true -> bnd_test b ((b ++ [45; 45]) ++ t) true = 2.
Proof.
  intros Hb Ht. unfold bnd_test.
  assert (Hs : starts_dd ((b ++ [45; 45]) ++ t) = true) by (destruct Hb as (ib & -> & _); reflexivity).
  rewrite Hs. cbn [andb].
  unfold strip. rewrite (strip_app_ws is_ws _ t Ht). fold (strip (b ++ [45; 45])). rewrite (b_ok_dd b Hb).
  now rewrite eqbZs_app_ne, eqbZs_refl.
Qed.

(* ---------- delimiter-like lines in the content ---------- *)

(** would the loop take [line] (read at a line start) for a delimiter? *)
Definition delim_like (b line : list Z) : bool :=
  starts_dd line && (eqbZs (strip line) b || eqbZs (strip line) (b ++ [45; 45])).

(** no line of the content (the pieces between LFs, the last one included) is delimiter-like *)
Fixpoint ndl (b cur l : list Z) : bool :=
  match l with
  | [] => negb (delim_like b cur)
  | x :: r => if x =? 10 then negb (delim_like b cur) && ndl b [] r else ndl b (cur ++ [x]) r
  end.
Definition no_delim_line (b content : list Z) : Prop := ndl b [] content = true.

Lemma ndl_line b : forall l cur x', find_nl l = None ->
  ndl b cur (l ++ 10 :: x') = negb (delim_like b (cur ++ l)) && ndl b [] x'.
Proof.
  induction l as [|y l IH]; intros cur x' H; cbn [app ndl find_nl] in *.
  - change (10 =? 10) with true. cbv iota. now rewrite app_nil_r.
  - destruct (y =? 10); [discriminate|].
    destruct (find_nl l) eqn:E; [discriminate|]. rewrite IH by reflexivity. now rewrite <- app_assoc.
Qed.

Lemma ndl_last b : forall l cur, find_nl l = None -> ndl b cur l = negb (delim_like b (cur ++ l)).
Proof.
  induction l as [|y l IH]; intros cur H; cbn [app ndl find_nl] in *.
  - now rewrite app_nil_r.
  - destruct (y =? 10); [discriminate|].
    destruct (find_nl l) eqn:E; [discriminate|]. rewrite IH by reflexivity. now rewrite <- app_assoc.
Qed.

Lemma starts_dd_ne1 y r : y <> 45 -> starts_dd (y :: r) = false.
Proof.
  intros H. unfold starts_dd.
  destruct y as [|p|p]; try reflexivity.
  do 6 (destruct p; try reflexivity). now elim H.
Qed.

Lemma starts_dd_ne2 a y r : y <> 45 -> starts_dd (a :: y :: r) = false.
Proof.
  intros H. unfold starts_dd.
  destruct a as [|q|q]; try reflexivity.
  do 6 (destruct q; try reflexivity).
  destruct y as [|p|p]; try reflexivity.
  do 6 (destruct p; try reflexivity). now elim H.
Qed.

Lemma starts_dd_app l y w : y <> 45 -> starts_dd (l ++ y :: w) = starts_dd l.
Proof.
  intros H. destruct l as [|a [|a' l]]; cbn [app].
  - now apply starts_dd_ne1.
  - rewrite (starts_dd_ne2 a y w H). destruct a as [|q|q]; try reflexivity.
    do 6 (destruct q; try reflexivity).
  - reflexivity.
Qed.

(** the test the loop performs on a content line with its terminator *)
Lemma bnd_test_content b l w :
  delim_like b l = false -> forallb is_ws w = true -> (forall r, w <> 45 :: r) -> w <> [] ->
  bnd_test b (l ++ w) true = 0.
Proof.
  intros Hd Hw Hw1 Hw2. unfold bnd_test, delim_like in *.
  destruct w as [|y w']; [now elim Hw2|].
  assert (Hy : y <> 45) by (intros ->; now elim (Hw1 w')).
  rewrite (starts_dd_app l y w' Hy). rewrite andb_true_r.
  unfold strip in *. rewrite (strip_app_ws is_ws l (y :: w') Hw).
  destruct (starts_dd l); [|reflexivity]. cbn [andb] in Hd.
  apply orb_false_iff in Hd. destruct Hd as [-> ->]. reflexivity.
Qed.

(* ---------- split_term ---------- *)

Lemma split_term_lf m : (forall m', m <> m' ++ [13]) -> split_term (m ++ [10]) = (m, [10], true).
Proof.
  intros H. unfold split_term. rewrite rv_rev, rev_app_distr. cbn [rev app].
  destruct (rev m) as [|y r] eqn:E.
  - assert (m = []) by (rewrite <- (rev_involutive m), E; reflexivity). subst. reflexivity.
  - assert (Em : m = rev r ++ [y]) by (rewrite <- (rev_involutive m), E; reflexivity).
    assert (Hy : y <> 13) by (intros ->; now elim (H (rev r))).
    assert (Hrv : rv (y :: r) = m) by (rewrite rv_rev, Em; reflexivity).
    destruct y as [|p|p]; try (rewrite Hrv; reflexivity).
    do 4 (destruct p; try (rewrite Hrv; reflexivity)). now elim Hy.
Qed.

Lemma split_term_crlf m : split_term (m ++ [13; 10]) = (m, [13; 10], true).
Proof.
  unfold split_term. rewrite rv_rev, rev_app_distr. cbn [rev app].
  now rewrite rv_rev, rev_involutive.
Qed.

Definition delim_ok (dl : list Z) : Prop := dl = [] \/ dl = [10] \/ dl = [13; 10].

Lemma last_cr_dec (l : list Z) : (exists m, l = m ++ [13]) \/ (forall m, l <> m ++ [13]).
Proof.
  destruct (rev l) as [|y r] eqn:E.
  - right. intros m Hm. subst l. rewrite rev_app_distr in E. discriminate.
  - assert (El : l = rev r ++ [y]) by (rewrite <- (rev_involutive l), E; reflexivity).
    destruct (Z.eq_dec y 13) as [->|Hy].
    + left. now exists (rev r).
    + right. intros m Hm. rewrite Hm in El. apply app_inj_tail in El. destruct El as [_ El]. congruence.
Qed.

(** a content line [l ++ LF] after the pending terminator [dl]:
    what is emitted and what is deferred add up to the same bytes *)
Lemma split_term_line dl l :
  delim_ok dl -> exists txt dl',
    split_term (dl ++ l ++ [10]) = (txt, dl', true) /\ delim_ok dl' /\ txt ++ dl' = dl ++ l ++ [10].
Proof.
  intros Hdl. destruct (last_cr_dec l) as [(m & ->) | Hn].
  - exists (dl ++ m), [13; 10]. rewrite <- !app_assoc. cbn [app].
    replace (dl ++ m ++ [13; 10]) with ((dl ++ m) ++ [13; 10]) by now rewrite <- app_assoc.
    split; [apply split_term_crlf|]. split; [right; now right | reflexivity].
  - exists (dl ++ l), [10].
    replace (dl ++ l ++ [10]) with ((dl ++ l) ++ [10]) by now rewrite <- app_assoc.
    split; [|split; [right; now left | reflexivity]].
    apply split_term_lf. intros m' Hm.
    destruct l as [|y l'] using rev_ind.
    + rewrite app_nil_r in Hm. destruct Hdl as [-> | [-> | ->]].
      * symmetry in Hm. now apply app_eq_nil in Hm.
      * change [10] with ([] ++ [10]) in Hm. apply app_inj_tail in Hm. destruct Hm; discriminate.
      * change [13; 10] with ([13] ++ [10]) in Hm. apply app_inj_tail in Hm. destruct Hm; discriminate.
    + rewrite app_assoc in Hm. apply app_inj_tail in Hm. destruct Hm as [_ ->]. now elim (Hn l').
Qed.

(* ---------- the loop ---------- *)

Definition CRLF_ws : forallb is_ws [13; 10] = true := eq_refl.

Lemma lenZ_app_ge0 {A} (a : list A) : 0 <= lenZ a.
Proof. apply lenZ_nonneg. Qed.

(** the delimiter line that ends the content: boundary or close delimiter, then padding *)
Inductive delim_line (b : list Z) : bool -> list Z -> list Z -> Prop :=
| DlNext t R : pad_ok t R -> delim_line b false (b ++ t) R
| DlClose t R : pad_ok t R -> delim_line b true ((b ++ [45; 45]) ++ t) R.

Lemma rlb_at_delim fuel c body b maxram dl seen isfile d s close dline R :
  WF c -> nolimit c body -> Inv c body d s -> b_ok b ->
  delim_line b close dline R ->
  body_eff c body = d ++ dline ++ R ->
  exists s', rlb_loop (S fuel) c b maxram dl true seen isfile s = (MOk, [], isfile, s')
             /\ Inv c body (d ++ dline) s' /\ (close = true -> done s' = true).
Proof.
  intros W Hnl Hi Hb Hd Hbody. cbn [rlb_loop].
  destruct (readline c (Some 65536) s) as [[st out] s1] eqn:Hrl.
  destruct (readline_line c body d (dline ++ R) (Some 65536) s st out s1 W Hnl Hi) as (-> & -> & Hi1);
    [cbn; lia | exact Hbody | exact Hrl |].
  pose proof (b_no_lf b Hb) as Hbl.
  destruct Hd as [t R Hp | t R Hp].
  - rewrite (first_line_pad b t R Hbl Hp) in *.
    destruct (b ++ t) as [|y r] eqn:E; [destruct Hb as (ib & -> & _); discriminate|]. rewrite <- E in *.
    rewrite (bnd_test_delim b t Hb (proj1 Hp)). cbn.
    exists s1. split; [reflexivity|]. split; [exact Hi1 | discriminate].
  - assert (Hbl2 : find_nl (b ++ [45; 45]) = None) by (apply find_nl_none_app; [exact Hbl | reflexivity]).
    rewrite (first_line_pad (b ++ [45; 45]) t R Hbl2 Hp) in *.
    destruct ((b ++ [45; 45]) ++ t) as [|y r] eqn:E; [destruct Hb as (ib & -> & _); discriminate|].
    rewrite <- E in *. rewrite (bnd_test_close b t Hb (proj1 Hp)). cbn.
    exists (set_done s1). split; [reflexivity|]. split; [now apply Inv_set_done | reflexivity].
Qed.

(** spool flag after [n] more bytes have been seen *)
Definition spool_after (maxram seen : Z) (isfile : bool) (n : Z) : bool :=
  isfile || (maxram <? seen + n).

Lemma first_line_cons_ne rest : rest <> [] -> first_line rest <> [].
Proof. destruct rest as [|x r]; [congruence|]. cbn. destruct (x =? 10); discriminate. Qed.

Lemma rlb_content : forall fuel x c body b maxram dl seen isfile d s close dline R,
  WF c -> nolimit c body -> Inv c body d s -> b_ok b -> delim_ok dl ->
  delim_line b close dline R ->
  ndl b [] x = true ->
  body_eff c body = d ++ (x ++ [13; 10]) ++ dline ++ R ->
  (length x + 2 <= fuel)%nat ->
  exists s', rlb_loop fuel c b maxram dl true seen isfile s
             = (MOk, dl ++ x, spool_after maxram seen isfile (lenZ (dl ++ x)), s')
             /\ Inv c body (d ++ (x ++ [13; 10]) ++ dline) s' /\ (close = true -> done s' = true).
Proof.
  induction fuel as [|f IH]; intros x c body b maxram dl seen isfile d s close dline R
    W Hnl Hi Hb Hdl Hd Hx Hbody Hf; [lia|].
  cbn [rlb_loop].
  destruct (readline c (Some 65536) s) as [[st out] s1] eqn:Hrl.
  destruct (readline_line c body d ((x ++ [13; 10]) ++ dline ++ R) (Some 65536) s st out s1 W Hnl Hi)
    as (-> & -> & Hi1); [cbn; lia | exact Hbody | exact Hrl |].
  clear Hrl.
  (* the line just read: l ++ w where l has no LF, and the content that remains *)
  assert (Hcase : exists l w x' dl1 txt,
            find_nl l = None /\ delim_like b l = false
            /\ forallb is_ws w = true /\ (forall r, w <> 45 :: r) /\ w <> []
            /\ first_line ((x ++ [13; 10]) ++ dline ++ R) = l ++ w
            /\ split_term (dl ++ l ++ w) = (txt, dl1, true) /\ delim_ok dl1
            /\ ((x' = None /\ txt = dl ++ x /\ dl1 = [13; 10] /\ l ++ w = x ++ [13; 10])
                \/ (exists xr, x' = Some xr /\ ndl b [] xr = true /\ (length xr < length x)%nat
                               /\ txt ++ dl1 ++ xr = dl ++ x /\ x = l ++ w ++ xr))).
  { destruct (find_nl x) as [pos|] eqn:Ex.
    - (* x = l ++ LF ++ xr *)
      pose proof (find_nl_le x pos Ex) as Hpos.
      pose proof (firstn_skipn pos x) as Hfs.
      pose proof (first_line_found x [] pos Ex) as Hfl. rewrite app_nil_r in Hfl.
      assert (Hl : exists l, firstn pos x = l ++ [10] /\ find_nl l = None).
      { clear - Ex. revert pos Ex. induction x as [|y x IHx]; intros pos Ex; cbn [find_nl] in Ex; [discriminate|].
        destruct (y =? 10) eqn:Ey.
        - inversion Ex; subst. apply Z.eqb_eq in Ey. subst. exists []. now split.
        - destruct (find_nl x) as [k|] eqn:Ek; [|discriminate]. inversion Ex; subst.
          destruct (IHx k eq_refl) as (l & El & Hl). exists (y :: l). cbn [firstn app find_nl].
          rewrite El, Ey, Hl. now split. }
      destruct Hl as (l & El & Hl).
      set (xr := skipn pos x) in *.
      assert (Exx : x = l ++ 10 :: xr) by (rewrite <- Hfs, El, <- app_assoc; reflexivity).
      unfold no_delim_line in Hx. rewrite Exx in Hx. rewrite (ndl_line b l [] xr Hl) in Hx.
      apply andb_true_iff in Hx. destruct Hx as [Hdl1 Hxr]. apply negb_true_iff in Hdl1. cbn [app] in Hdl1.
      destruct (split_term_line dl l Hdl) as (txt & dl1 & Hst & Hdl1ok & Hsum).
      exists l, [10], (Some xr), dl1, txt.
      split; [exact Hl|]. split; [exact Hdl1|]. split; [reflexivity|].
      split; [intros r; discriminate|]. split; [discriminate|].
      split.
      { rewrite Exx. rewrite <- !app_assoc. rewrite (first_line_nolf_app l _ Hl). cbn. reflexivity. }
      split; [exact Hst|]. split; [exact Hdl1ok|].
      right. exists xr. split; [reflexivity|]. split; [exact Hxr|].
      split.
      { rewrite Exx, app_length. cbn [length]. lia. }
      split; [|exact Exx].
      rewrite app_assoc, Hsum, Exx. rewrite <- !app_assoc. reflexivity.
    - (* x has no LF: the line is x ++ CRLF *)
      unfold no_delim_line in Hx. rewrite (ndl_last b x [] Ex) in Hx. apply negb_true_iff in Hx. cbn [app] in Hx.
      exists x, [13; 10], None, [13; 10], (dl ++ x).
      split; [exact Ex|]. split; [exact Hx|]. split; [reflexivity|].
      split; [intros r; discriminate|]. split; [discriminate|].
      split.
      { rewrite <- !app_assoc. rewrite (first_line_nolf_app x _ Ex). cbn. reflexivity. }
      split.
      { replace (dl ++ x ++ [13; 10]) with ((dl ++ x) ++ [13; 10]) by now rewrite <- app_assoc.
        apply split_term_crlf. }
      split; [right; now right|].
      left. repeat split; reflexivity. }
  destruct Hcase as (l & w & x' & dl1 & txt & Hl & Hnd & Hw & Hw1 & Hw2 & Hfl & Hst & Hdl1 & Hrest).
  rewrite Hfl in *.
  destruct (l ++ w) as [|y r] eqn:Elw; [apply app_eq_nil in Elw; destruct Elw; contradiction|].
  rewrite <- Elw in *.
  rewrite (bnd_test_content b l w Hnd Hw Hw1 Hw2). cbn [Z.eqb].
  rewrite Hst.
  set (seen' := if isfile then seen else seen + lenZ txt).
  set (isfile' := isfile || (maxram <? seen')).
  destruct Hrest as [(-> & -> & -> & Elx) | (xr & -> & Hxr & Hlen & Hsum & Exx)].
  - (* next comes the delimiter line *)
    destruct f as [|f']; [lia|].
    destruct (rlb_at_delim f' c body b maxram [13; 10] seen' isfile' (d ++ l ++ w) s1 close dline R
                W Hnl Hi1 Hb Hd) as (s2 & Hr & Hi2 & Hdn).
    { rewrite Hbody, Elx. now rewrite <- !app_assoc. }
    rewrite Hr. exists s2. split; [|split; [|exact Hdn]].
    + rewrite app_nil_r. f_equal. f_equal. unfold spool_after. subst isfile' seen'.
      destruct isfile; reflexivity.
    + rewrite Elx in Hi2. now rewrite <- !app_assoc in *.
  - (* more content lines *)
    destruct (IH xr c body b maxram dl1 seen' isfile' (d ++ l ++ w) s1 close dline R
                W Hnl Hi1 Hb Hdl1 Hd Hxr) as (s2 & Hr & Hi2 & Hdn).
    { rewrite Hbody, Exx. now rewrite <- !app_assoc. }
    { lia. }
    rewrite Hr. exists s2. split; [|split; [|exact Hdn]].
    + rewrite Hsum. f_equal. f_equal.
      unfold spool_after. subst isfile' seen'.
      assert (Hl1 : lenZ (dl ++ x) = lenZ txt + lenZ (dl1 ++ xr)) by (rewrite <- Hsum, !lenZ_app; lia).
      pose proof (lenZ_nonneg (dl1 ++ xr)). pose proof (lenZ_nonneg txt).
      destruct isfile; [reflexivity|]. cbn [orb]. rewrite Hl1.
      destruct (maxram <? seen + lenZ txt) eqn:E1; cbn [orb].
      * apply Z.ltb_lt in E1. symmetry. apply Z.ltb_lt. lia.
      * f_equal. lia.
    + rewrite Exx. now rewrite <- !app_assoc in *.
Qed.

(** read_lines_to_boundary on [content CRLF delimiter-line rest] *)
Lemma rlb_roundtrip c body b maxram isfile d s content close dline R fuel :
  WF c -> nolimit c body -> Inv c body d s -> b_ok b ->
  no_delim_line b content ->
  delim_line b close dline R ->
  body_eff c body = d ++ (content ++ [13; 10]) ++ dline ++ R ->
  (length content + 2 <= fuel)%nat ->
  exists s', read_lines_to_boundary fuel c b maxram isfile s
             = (MOk, content, isfile || (maxram <? lenZ content), s')
             /\ Inv c body (d ++ (content ++ [13; 10]) ++ dline) s'
             /\ (close = true -> done s' = true).
Proof.
  intros W Hnl Hi Hb Hc Hd Hbody Hf. unfold read_lines_to_boundary.
  destruct (rlb_content fuel content c body b maxram [] 0 isfile d s close dline R W Hnl Hi Hb
              (or_introl eq_refl) Hd Hc Hbody Hf) as (s' & Hr & Hi' & Hdn).
  exists s'. cbn [app] in Hr. unfold spool_after in Hr. rewrite Z.add_0_l in Hr. auto.
Qed.

(* ---------- the RFC 2046 precondition (for Refuted/R_C04.v) ---------- *)

Fixpoint prefixb (p l : list Z) : bool :=
  match p, l with
  | [], _ => true
  | x :: p', y :: l' => (x =? y) && prefixb p' l'
  | _ :: _, [] => false
  end.
Fixpoint infixb (p l : list Z) : bool :=
  prefixb p l || match l with [] => false | _ :: r => infixb p r end.

(** RFC 2046: the content, which follows the CRLF that ends the part headers,
    does not contain CRLF "--" boundary *)
Definition rfc_ok (b content : list Z) : bool :=
  negb (infixb ([13; 10] ++ b) ([13; 10] ++ content)).
