(** Lemmas about Model/M_ranges.v: the byte-range grammar, its printer, the declarative
    slice semantics and the correspondence with get_ranges (repaired configuration). *)
From Coq Require Import ZArith List Bool Lia.
From CV Require Import Lib.Sx Lib.ListZ LibP.ListZ_facts Model.M_ranges.
Import ListNotations.
Open Scope Z_scope.

(* ------------------------------------------------------------------ *)
(** * The grammar (RFC 7233 section 2.1, with optional whitespace) and its meaning *)

(** One byte-range-spec as text: digit strings (either may be empty, not both) and the
    blanks around them:  w1 first w2 "-" w3 last w4. *)
Record tspec := TSpec {
  t_w1 : list Z; t_first : list Z; t_w2 : list Z;
  t_w3 : list Z; t_last : list Z; t_w4 : list Z }.

Definition all_ows (w : list Z) : bool := forallb is_ows w.
Definition all_digits (d : list Z) : bool := forallb is_digit d.

Definition wf_tspec (t : tspec) : bool :=
  all_ows (t_w1 t) && all_digits (t_first t) && all_ows (t_w2 t)
  && all_ows (t_w3 t) && all_digits (t_last t) && all_ows (t_w4 t)
  && negb (match t_first t, t_last t with [], [] => true | _, _ => false end).

Definition render_spec (t : tspec) : list Z :=
  t_w1 t ++ t_first t ++ t_w2 t ++ ch_dash :: t_w3 t ++ t_last t ++ t_w4 t.

Fixpoint join (ps : list (list Z)) : list Z :=
  match ps with
  | [] => []
  | p :: r => match r with [] => p | _ :: _ => p ++ ch_comma :: join r end
  end.

(** "bytes" "=" spec *( "," spec ), the unit in any letter case *)
Definition render_header (u : list Z) (ts : list tspec) : list Z :=
  u ++ ch_eq :: join (map render_spec ts).

(** abstract syntax *)
Inductive bspec :=
| BFirstLast (f l : Z)      (* first-byte-pos "-" last-byte-pos *)
| BFirst (f : Z)            (* first-byte-pos "-" *)
| BSuffix (n : Z).          (* "-" suffix-length *)

Definition abs_spec (t : tspec) : bspec :=
  match t_first t, t_last t with
  | [], _ => BSuffix (dval (t_last t) 0)
  | _ :: _, [] => BFirst (dval (t_first t) 0)
  | _ :: _, _ :: _ => BFirstLast (dval (t_first t) 0) (dval (t_last t) 0)
  end.

(** last-byte-pos < first-byte-pos: the byte-range-spec is invalid, the header is ignored.
    (As in the code, a spec that starts at or after EOF is unsatisfiable whatever its end.) *)
Definition spec_invalid (len : Z) (s : bspec) : bool :=
  match s with
  | BFirstLast f l => (f <? len) && (l <? f)
  | _ => false
  end.

(** the bytes a spec selects from an entity of [len] bytes, as Python slice bounds
    (a, b) with 0 <= a < b <= len; [None] = no byte (unsatisfiable spec) *)
Definition spec_slice (len : Z) (s : bspec) : option (Z * Z) :=
  match s with
  | BFirstLast f l => if f <? len then Some (f, Z.min (l + 1) len) else None
  | BFirst f => if f <? len then Some (f, len) else None
  | BSuffix n => if (0 <? n) && (0 <? len) then Some (len - Z.min n len, len) else None
  end.

Definition slices (len : Z) (ss : list bspec) : list (Z * Z) :=
  flat_map (fun s => match spec_slice len s with Some r => [r] | None => [] end) ss.

Definition ranges_spec (len : Z) (ss : list bspec) : gr_result :=
  if existsb (spec_invalid len) ss then GrNone else GrList (slices len ss).

Definition slice_ok (len : Z) (r : Z * Z) : Prop := 0 <= fst r /\ fst r < snd r /\ snd r <= len.

(* ------------------------------------------------------------------ *)
(** * Character classes *)

Lemma digit_range c : is_digit c = true -> 48 <= c <= 57.
Proof. unfold is_digit. intros H. apply andb_prop in H as [A B]. apply Z.leb_le in A, B. lia. Qed.

Lemma ows_cases c : is_ows c = true -> c = 32 \/ c = 9.
Proof. unfold is_ows. intros H. apply orb_prop in H as [H|H]; apply Z.eqb_eq in H; auto. Qed.

Lemma digit_not_ows c : is_digit c = true -> is_ows c = false.
Proof.
  intros H. apply digit_range in H. unfold is_ows.
  destruct (c =? 32) eqn:A; [apply Z.eqb_eq in A; lia|].
  destruct (c =? 9) eqn:B; [apply Z.eqb_eq in B; lia|]. reflexivity.
Qed.

Lemma ows_not_digit c : is_ows c = true -> is_digit c = false.
Proof. intros H. apply ows_cases in H as [->| ->]; reflexivity. Qed.

Lemma forallb_impl {A} (P Q : A -> bool) l :
  (forall x, P x = true -> Q x = true) -> forallb P l = true -> forallb Q l = true.
Proof.
  intros HPQ. induction l as [|x r IH]; cbn [forallb]; [auto|].
  intros H. apply andb_prop in H as [H1 H2]. rewrite (HPQ _ H1), (IH H2). reflexivity.
Qed.

Definition head_not (P : Z -> bool) (s : list Z) : Prop :=
  match s with [] => True | c :: _ => P c = false end.

(* ------------------------------------------------------------------ *)
(** * Scanner of the repaired get_ranges on rendered specs *)

Lemma skip_ows_app w s : all_ows w = true -> skip_ows (w ++ s) = skip_ows s.
Proof.
  unfold all_ows. induction w as [|c w IH]; cbn [app skip_ows forallb]; intros H; [reflexivity|].
  apply andb_prop in H as [H1 H2]. rewrite H1. auto.
Qed.

Lemma skip_ows_all w : all_ows w = true -> skip_ows w = [].
Proof. intros H. rewrite <- (app_nil_r w). rewrite skip_ows_app by assumption. reflexivity. Qed.

Lemma skip_ows_id s : head_not is_ows s -> skip_ows s = s.
Proof. destruct s as [|c s]; cbn [skip_ows head_not]; intros H; [reflexivity| now rewrite H]. Qed.

Lemma skip_ows_head s : head_not is_ows (skip_ows s).
Proof.
  induction s as [|c s IH]; cbn [skip_ows]; [exact Logic.I|].
  destruct (is_ows c) eqn:E; [exact IH | exact E].
Qed.

Lemma skip_ows_idem s : skip_ows (skip_ows s) = skip_ows s.
Proof. apply skip_ows_id, skip_ows_head. Qed.

Lemma span_digits_app d s :
  all_digits d = true -> head_not is_digit s -> span_digits (d ++ s) = (d, s).
Proof.
  unfold all_digits. induction d as [|c d IH]; cbn [app forallb]; intros H Hs.
  - destruct s as [|x s]; cbn [span_digits]; [reflexivity|]. cbn [head_not] in Hs. now rewrite Hs.
  - apply andb_prop in H as [H1 H2]. cbn [span_digits]. rewrite H1, (IH H2 Hs). reflexivity.
Qed.

Lemma span_digits_digits s : all_digits (fst (span_digits s)) = true.
Proof.
  unfold all_digits. induction s as [|c s IH]; cbn [span_digits]; [reflexivity|].
  destruct (is_digit c) eqn:E; [|reflexivity].
  destruct (span_digits s) as [d t]. cbn [fst forallb] in *. now rewrite E, IH.
Qed.

(** one numeric field with its blanks: the scanner returns exactly the digits *)
Lemma scan_field w d T :
  all_ows w = true -> all_digits d = true ->
  head_not is_digit T -> head_not is_digit (skip_ows T) ->
  exists T', span_digits (skip_ows (w ++ d ++ T)) = (d, T') /\ skip_ows T' = skip_ows T.
Proof.
  intros Hw Hd HT HT'. rewrite skip_ows_app by assumption.
  destruct d as [|c d].
  - cbn [app]. exists (skip_ows T). split; [|apply skip_ows_idem].
    change (skip_ows T) with ([] ++ skip_ows T) at 1. now apply span_digits_app.
  - exists T. split; [|reflexivity].
    rewrite skip_ows_id.
    + now apply span_digits_app.
    + cbn [app head_not]. apply digit_not_ows. unfold all_digits in Hd. cbn [forallb] in Hd.
      now apply andb_prop in Hd as [Hd _].
Qed.

Lemma head_not_digit_ows_then w x R :
  all_ows w = true -> is_digit x = false -> head_not is_digit (w ++ x :: R).
Proof.
  destruct w as [|c w]; cbn [app head_not]; intros Hw Hx; [exact Hx|].
  unfold all_ows in Hw. cbn [forallb] in Hw. apply andb_prop in Hw as [Hc _]. now apply ows_not_digit.
Qed.

Lemma head_not_digit_ows w : all_ows w = true -> head_not is_digit w.
Proof.
  destruct w as [|c w]; cbn [head_not]; intros Hw; [exact Logic.I|].
  unfold all_ows in Hw. cbn [forallb] in Hw. apply andb_prop in Hw as [Hc _]. now apply ows_not_digit.
Qed.

Lemma wf_tspec_parts t : wf_tspec t = true ->
  all_ows (t_w1 t) = true /\ all_digits (t_first t) = true /\ all_ows (t_w2 t) = true /\
  all_ows (t_w3 t) = true /\ all_digits (t_last t) = true /\ all_ows (t_w4 t) = true /\
  (t_first t <> [] \/ t_last t <> []).
Proof.
  unfold wf_tspec. intros H.
  repeat (apply andb_prop in H as [H ?]).
  repeat split; try assumption.
  destruct (t_first t); [|left; discriminate]. destruct (t_last t); [discriminate | right; discriminate].
Qed.

Lemma scan_spec_render t : wf_tspec t = true -> scan_spec (render_spec t) = Some (t_first t, t_last t).
Proof.
  intros H. apply wf_tspec_parts in H as (W1 & D1 & W2 & W3 & D2 & W4 & _).
  unfold scan_spec, render_spec.
  destruct (scan_field (t_w1 t) (t_first t) (t_w2 t ++ ch_dash :: t_w3 t ++ t_last t ++ t_w4 t))
    as (T' & E1 & E2); try assumption.
  - now apply head_not_digit_ows_then.
  - rewrite skip_ows_app by assumption. cbn [skip_ows]. reflexivity.
  - rewrite E1, E2. rewrite skip_ows_app by assumption.
    cbn [skip_ows]. change (is_ows ch_dash) with false. cbv iota.
    change (ch_dash =? ch_dash) with true. cbv iota.
    destruct (scan_field (t_w3 t) (t_last t) (t_w4 t)) as (T'' & E3 & E4); try assumption.
    + now apply head_not_digit_ows.
    + rewrite skip_ows_all by assumption. exact Logic.I.
    + rewrite E3, E4. rewrite skip_ows_all by assumption. reflexivity.
Qed.

(* ------------------------------------------------------------------ *)
(** * split / join *)

Definition no_char (sep : Z) (p : list Z) : bool := forallb (fun c => negb (c =? sep)) p.

Lemma split_on_nosep sep p : no_char sep p = true -> split_on sep p = [p].
Proof.
  unfold no_char. induction p as [|c p IH]; cbn [forallb split_on]; intros H; [reflexivity|].
  apply andb_prop in H as [H1 H2]. apply negb_true_iff in H1. rewrite H1, (IH H2). reflexivity.
Qed.

Lemma split_on_app sep p r : no_char sep p = true -> split_on sep (p ++ sep :: r) = p :: split_on sep r.
Proof.
  unfold no_char. induction p as [|c p IH]; cbn [forallb split_on app]; intros H.
  - now rewrite Z.eqb_refl.
  - apply andb_prop in H as [H1 H2]. apply negb_true_iff in H1. rewrite H1, (IH H2). reflexivity.
Qed.

Lemma split_join ps : ps <> [] -> forallb (no_char ch_comma) ps = true -> split_on ch_comma (join ps) = ps.
Proof.
  induction ps as [|p r IH]; intros Hne H; [congruence|].
  cbn [forallb] in H. apply andb_prop in H as [H1 H2]. cbn [join].
  destruct r as [|q r'].
  - now apply split_on_nosep.
  - rewrite split_on_app by assumption. f_equal. apply IH; [discriminate | assumption].
Qed.

Lemma split1_app sep u rest : no_char sep u = true -> split1 sep (u ++ sep :: rest) = Some (u, rest).
Proof.
  unfold no_char. induction u as [|c u IH]; cbn [forallb split1 app]; intros H.
  - now rewrite Z.eqb_refl.
  - apply andb_prop in H as [H1 H2]. apply negb_true_iff in H1. rewrite H1, (IH H2). reflexivity.
Qed.

Lemma no_char_app sep a b : no_char sep (a ++ b) = no_char sep a && no_char sep b.
Proof. unfold no_char. apply forallb_app. Qed.

Lemma ows_no_comma w : all_ows w = true -> no_char ch_comma w = true.
Proof.
  apply forallb_impl. intros c H. apply ows_cases in H as [->| ->]; reflexivity.
Qed.

Lemma digits_no_comma d : all_digits d = true -> no_char ch_comma d = true.
Proof.
  apply forallb_impl. intros c H. apply digit_range in H. apply negb_true_iff.
  apply Z.eqb_neq. unfold ch_comma. lia.
Qed.

Lemma render_no_comma t : wf_tspec t = true -> no_char ch_comma (render_spec t) = true.
Proof.
  intros H. apply wf_tspec_parts in H as (W1 & D1 & W2 & W3 & D2 & W4 & _).
  unfold render_spec.
  rewrite !no_char_app. change (ch_dash :: t_w3 t ++ t_last t ++ t_w4 t)
    with ([ch_dash] ++ t_w3 t ++ t_last t ++ t_w4 t). rewrite !no_char_app.
  rewrite (ows_no_comma _ W1), (digits_no_comma _ D1), (ows_no_comma _ W2), (ows_no_comma _ W3),
    (digits_no_comma _ D2), (ows_no_comma _ W4). reflexivity.
Qed.

(* ------------------------------------------------------------------ *)
(** * Numbers *)

Lemma dval_nonneg d acc : all_digits d = true -> 0 <= acc -> 0 <= dval d acc.
Proof.
  unfold all_digits. revert acc. induction d as [|c d IH]; cbn [forallb dval]; intros acc H Ha; [assumption|].
  apply andb_prop in H as [H1 H2]. apply digit_range in H1. apply IH; [assumption | lia].
Qed.

Lemma field_val_nonneg d v : all_digits d = true -> field_val d = Some v -> 0 <= v.
Proof.
  intros Hd. unfold field_val. destruct d as [|c d]; [discriminate|]. intros E. assert (Hv : v = dval (c :: d) 0) by congruence. rewrite Hv.
  apply dval_nonneg; [exact Hd | lia].
Qed.

(* ------------------------------------------------------------------ *)
(** * One spec: arithmetic of the repaired code = the declarative slice *)

Definition spec_expect (len : Z) (s : bspec) : spec_res :=
  if spec_invalid len s then SNone
  else match spec_slice len s with Some (a, b) => SAdd a b | None => SSkip end.

Lemma spec_strict_render len t :
  0 <= len -> wf_tspec t = true ->
  spec_strict true len (render_spec t) = spec_expect len (abs_spec t).
Proof.
  intros Hl H. unfold spec_strict. rewrite (scan_spec_render _ H).
  apply wf_tspec_parts in H as (_ & D1 & _ & _ & D2 & _ & Hne).
  unfold abs_spec, spec_expect, field_val.
  destruct (t_first t) as [|c1 d1] eqn:E1; destruct (t_last t) as [|c2 d2] eqn:E2.
  - destruct Hne; congruence.
  - (* suffix *)
    pose proof (dval_nonneg _ 0 D2 ltac:(lia)) as Hn.
    remember (dval (c2 :: d2) 0) as n.
    cbn [spec_core spec_invalid spec_slice].
    destruct (Z.min n len =? 0) eqn:K.
    + apply Z.eqb_eq in K.
      destruct (0 <? n) eqn:A; destruct (0 <? len) eqn:B; cbn [andb]; try reflexivity.
      apply Z.ltb_lt in A, B. lia.
    + apply Z.eqb_neq in K.
      destruct (0 <? n) eqn:A; destruct (0 <? len) eqn:B; cbn [andb]; try reflexivity;
        try apply Z.ltb_ge in A; try apply Z.ltb_ge in B; lia.
  - (* first- *)
    pose proof (dval_nonneg _ 0 D1 ltac:(lia)) as Hf.
    remember (dval (c1 :: d1) 0) as f.
    cbn [spec_core spec_invalid spec_slice].
    destruct (len <=? f) eqn:A.
    + apply Z.leb_le in A. destruct (f <? len) eqn:B; [apply Z.ltb_lt in B; lia | reflexivity].
    + apply Z.leb_gt in A. destruct (f <? len) eqn:B; [|apply Z.ltb_ge in B; lia].
      destruct (len - 1 <? f) eqn:C; [apply Z.ltb_lt in C; lia|].
      replace (len - 1 + 1) with len by lia. now rewrite Z.min_id.
  - (* first-last *)
    pose proof (dval_nonneg _ 0 D1 ltac:(lia)) as Hf.
    pose proof (dval_nonneg _ 0 D2 ltac:(lia)) as Hla.
    remember (dval (c1 :: d1) 0) as f. remember (dval (c2 :: d2) 0) as l.
    cbn [spec_core spec_invalid spec_slice].
    destruct (len <=? f) eqn:A.
    + apply Z.leb_le in A. destruct (f <? len) eqn:B; [apply Z.ltb_lt in B; lia | reflexivity].
    + apply Z.leb_gt in A. destruct (f <? len) eqn:B; [|apply Z.ltb_ge in B; lia].
      cbn [andb]. destruct (l <? f); reflexivity.
Qed.

(* ------------------------------------------------------------------ *)
(** * The loop *)

Lemma gr_loop_spec len ts :
  0 <= len -> forallb wf_tspec ts = true ->
  gr_loop (spec_strict true len) (map render_spec ts) = ranges_spec len (map abs_spec ts).
Proof.
  intros Hl. unfold ranges_spec, slices.
  induction ts as [|t r IH]; cbn [forallb map gr_loop existsb flat_map]; intros H; [reflexivity|].
  apply andb_prop in H as [H1 H2]. rewrite (spec_strict_render _ _ Hl H1). rewrite (IH H2).
  unfold spec_expect.
  destruct (spec_invalid len (abs_spec t)); cbn [orb]; [reflexivity|].
  destruct (spec_slice len (abs_spec t)) as [[a b]|];
    destruct (existsb (spec_invalid len) (map abs_spec r)); reflexivity.
Qed.

Lemma eqbZs_eq a b : eqbZs a b = true -> a = b.
Proof.
  unfold eqbZs. revert b. induction a as [|x a IH]; intros [|y b] H; try discriminate; [reflexivity|].
  apply andb_prop in H as [H1 H2]. apply Z.eqb_eq in H1. subst. f_equal. now apply IH.
Qed.

Lemma eqbZs_refl a : eqbZs a a = true.
Proof. unfold eqbZs. induction a as [|x a IH]; [reflexivity|]. now rewrite Z.eqb_refl, IH. Qed.

Lemma unit_no_eq u : unit_is_bytes u = true -> no_char ch_eq u = true.
Proof.
  unfold unit_is_bytes. intros H. apply eqbZs_eq in H.
  unfold no_char. apply forallb_forall. intros c Hc.
  apply negb_true_iff, Z.eqb_neq. intros ->.
  apply (in_map lower_ascii) in Hc. rewrite H in Hc.
  cbn in Hc. unfold ch_eq in Hc. intuition discriminate.
Qed.

Lemma unit_nonempty u : unit_is_bytes u = true -> u <> [].
Proof. intros H ->. discriminate. Qed.

Theorem thm_ranges_spec : forall u ts len,
  unit_is_bytes u = true -> ts <> [] -> forallb wf_tspec ts = true -> 0 <= len ->
  get_ranges cfg_fixed (Some (render_header u ts)) len = ranges_spec len (map abs_spec ts).
Proof.
  intros u ts len Hu Hne Hwf Hl. unfold get_ranges, render_header.
  destruct (u ++ ch_eq :: join (map render_spec ts)) as [|c0 hv] eqn:E.
  - destruct u; discriminate.
  - rewrite <- E. rewrite split1_app by now apply unit_no_eq.
    cbn [cfg_fixed f_strict f_clamp]. rewrite Hu.
    rewrite split_join.
    + now apply gr_loop_spec.
    + destruct ts; [congruence | discriminate].
    + clear -Hwf. induction ts as [|t r IH]; cbn [map forallb] in *; [reflexivity|].
      apply andb_prop in Hwf as [H1 H2]. rewrite (render_no_comma _ H1), (IH H2). reflexivity.
Qed.

(* ------------------------------------------------------------------ *)
(** * Every slice the repaired get_ranges returns, for ANY header, is inside the entity *)

Lemma scan_spec_digits p d1 d2 : scan_spec p = Some (d1, d2) -> all_digits d1 = true /\ all_digits d2 = true.
Proof.
  unfold scan_spec. pose proof (span_digits_digits (skip_ows p)) as H1.
  destruct (span_digits (skip_ows p)) as [e1 s2]. cbn [fst] in H1.
  destruct (skip_ows s2) as [|c s3]; [discriminate|].
  destruct (c =? ch_dash); [|discriminate].
  pose proof (span_digits_digits (skip_ows s3)) as H2.
  destruct (span_digits (skip_ows s3)) as [e2 s4]. cbn [fst] in H2.
  destruct (skip_ows s4); [|discriminate]. intros [= <- <-]. auto.
Qed.

Lemma spec_core_clamp_ok len st sp a b :
  0 <= len -> (forall v, st = Some v -> 0 <= v) -> (forall v, sp = Some v -> 0 <= v) ->
  spec_core true len st sp = SAdd a b -> slice_ok len (a, b).
Proof.
  intros Hl Hst Hsp. unfold spec_core, slice_ok. cbn [fst snd].
  destruct st as [s|].
  - specialize (Hst s eq_refl).
    destruct (len <=? s) eqn:A; [discriminate|]. apply Z.leb_gt in A.
    destruct ((match sp with Some e => e | None => len - 1 end) <? s) eqn:B; [discriminate|].
    apply Z.ltb_ge in B. intros [= <- <-]. lia.
  - destruct sp as [n|]; [|discriminate]. specialize (Hsp n eq_refl).
    destruct (Z.min n len =? 0) eqn:K; [discriminate|]. apply Z.eqb_neq in K.
    intros [= <- <-]. lia.
Qed.

Lemma spec_strict_ok len p a b : 0 <= len -> spec_strict true len p = SAdd a b -> slice_ok len (a, b).
Proof.
  intros Hl. unfold spec_strict. destruct (scan_spec p) as [[d1 d2]|] eqn:E; [|discriminate].
  apply scan_spec_digits in E as [D1 D2].
  apply spec_core_clamp_ok; [assumption | | ]; intros v; now apply field_val_nonneg.
Qed.

Lemma spec_strict_no_crash clamp len p w : spec_strict clamp len p <> SCrash w.
Proof.
  unfold spec_strict. destruct (scan_spec p) as [[d1 d2]|]; [|discriminate].
  unfold spec_core.
  destruct (field_val d1) as [s|].
  - destruct (len <=? s); [discriminate|].
    destruct ((match field_val d2 with Some e => e | None => len - 1 end) <? s); discriminate.
  - destruct (field_val d2) as [n|]; [|discriminate]. destruct clamp.
    + destruct (Z.min n len =? 0); discriminate.
    + destruct (len <? n); discriminate.
Qed.

Lemma gr_loop_ok f len ps l :
  (forall p a b, f p = SAdd a b -> slice_ok len (a, b)) ->
  gr_loop f ps = GrList l -> Forall (slice_ok len) l.
Proof.
  intros Hf. revert l. induction ps as [|p r IH]; cbn [gr_loop]; intros l.
  - intros [= <-]. constructor.
  - destruct (f p) as [| |w|a b] eqn:E; try discriminate.
    + apply IH.
    + destruct (gr_loop f r) as [|w|l'] eqn:E2; try discriminate.
      intros [= <-]. constructor; [now apply (Hf p) | now apply IH].
Qed.

Lemma gr_loop_no_crash f ps w :
  (forall p w', f p <> SCrash w') -> gr_loop f ps <> GrCrash w.
Proof.
  intros Hf. induction ps as [|p r IH]; cbn [gr_loop]; [discriminate|].
  destruct (f p) as [| |w'|a b] eqn:E; try discriminate; [assumption | now apply Hf in E |].
  destruct (gr_loop f r); try discriminate. assumption.
Qed.

(** a piece the repaired code rejects voids the whole header, wherever it stands *)
Lemma gr_loop_void f ps p :
  (forall q w', f q <> SCrash w') -> In p ps -> f p = SNone -> gr_loop f ps = GrNone.
Proof.
  intros Hf. induction ps as [|q r IH]; cbn [gr_loop In]; [tauto|].
  intros [->|Hin] Hp.
  - now rewrite Hp.
  - specialize (IH Hin Hp). rewrite IH.
    destruct (f q) as [| |w'|a b] eqn:E; try reflexivity. now apply Hf in E.
Qed.

Theorem get_ranges_fixed_ok : forall h len l,
  0 <= len -> get_ranges cfg_fixed h len = GrList l -> Forall (slice_ok len) l.
Proof.
  intros h len l Hl. unfold get_ranges. destruct h as [[|c hv]|]; try discriminate.
  destruct (split1 ch_eq (c :: hv)) as [[u rest]|]; cbn [cfg_fixed f_strict f_clamp]; [|discriminate].
  destruct (unit_is_bytes u); [|discriminate].
  apply gr_loop_ok. intros p a b. now apply spec_strict_ok.
Qed.

Theorem get_ranges_strict_no_crash : forall clamp h len w,
  get_ranges (RCfg true clamp) h len <> GrCrash w.
Proof.
  intros clamp h len w. unfold get_ranges. destruct h as [[|c hv]|]; try discriminate.
  destruct (split1 ch_eq (c :: hv)) as [[u rest]|]; cbn [f_strict f_clamp]; [|discriminate].
  destruct (unit_is_bytes u); [|discriminate].
  apply gr_loop_no_crash. intros p w'. apply spec_strict_no_crash.
Qed.

(* ------------------------------------------------------------------ *)
(** * '%s' % n  is the decimal numeral of n (the fuel never runs out) *)

Lemma dec_fuel_val fuel : forall n acc,
  0 <= n <= Zpos fuel -> dval (dec_fuel fuel n acc) 0 = dval acc n.
Proof.
  induction fuel as [f IH|f IH|]; intros n acc Hn; cbn [dec_fuel];
    destruct (n <? 10) eqn:E; try (cbn [dval]; f_equal; lia).
  - apply Z.ltb_ge in E. rewrite IH by (split; [apply Z.div_pos; lia | apply Z.div_le_upper_bound; lia]).
    cbn [dval]. f_equal. pose proof (Z.div_mod n 10 ltac:(lia)). lia.
  - apply Z.ltb_ge in E. rewrite IH by (split; [apply Z.div_pos; lia | apply Z.div_le_upper_bound; lia]).
    cbn [dval]. f_equal. pose proof (Z.div_mod n 10 ltac:(lia)). lia.
Qed.

Lemma dec_fuel_digits fuel : forall n acc,
  0 <= n <= Zpos fuel -> all_digits acc = true -> all_digits (dec_fuel fuel n acc) = true.
Proof.
  assert (D : forall k, 0 <= k < 10 -> is_digit (48 + k) = true).
  { intros k Hk. unfold is_digit. apply andb_true_intro. split; apply Z.leb_le; lia. }
  unfold all_digits in *.
  induction fuel as [f IH|f IH|]; intros n acc Hn Ha; cbn [dec_fuel];
    destruct (n <? 10) eqn:E; try (apply Z.ltb_lt in E; cbn [forallb]; rewrite D, Ha by lia; reflexivity).
  - apply Z.ltb_ge in E. apply IH; [split; [apply Z.div_pos; lia | apply Z.div_le_upper_bound; lia]|].
    cbn [forallb]. rewrite D, Ha; [reflexivity | apply Z.mod_pos_bound; lia].
  - apply Z.ltb_ge in E. apply IH; [split; [apply Z.div_pos; lia | apply Z.div_le_upper_bound; lia]|].
    cbn [forallb]. rewrite D, Ha; [reflexivity | apply Z.mod_pos_bound; lia].
  - apply Z.ltb_ge in E. lia.
Qed.

Theorem dec_Z_faithful : forall n, 0 <= n -> all_digits (dec_Z n) = true /\ dval (dec_Z n) 0 = n.
Proof.
  intros [|p|p] Hn; [split; reflexivity | | lia].
  cbn [dec_Z]. split.
  - apply dec_fuel_digits; [lia | reflexivity].
  - rewrite dec_fuel_val by lia. reflexivity.
Qed.
