(** History-level facts about the session model: the clock is monotone, an
    entry is untouched by every operation that does not present its id
    (persistence), expired data is never loaded again. *)
From Coq Require Import ZArith List Bool Lia.
From CV Require Import Lib.Sx Lib.ListZ Model.M_session Proof.P_session.
Import ListNotations.
Open Scope Z_scope.

Lemma ensure_loaded_id (c : cfg) (w : world) (x : sess) :
  x_id (snd (ensure_loaded c w x)) = x_id x.
Proof.
  unfold ensure_loaded. destruct (x_loaded x); [reflexivity|].
  destruct (load_raw c (x_id x) (w_store w)); reflexivity.
Qed.

(* ---------- monotone clock ---------- *)

Lemma act_mono (c : cfg) (a : act) (w : world) (x : sess) st w1 x1 o :
  do_act c a w x = (st, w1, x1, o) -> w_now w <= w_now w1.
Proof.
  destruct a; cbn [do_act]; intro H.
  - destruct (ensure_loaded c w x) as [st' x']. injection H as <- <- <- <-. lia.
  - destruct (ensure_loaded c w x) as [st' x']. destruct st'; injection H as <- <- <- <-; lia.
  - destruct (ensure_loaded c w x) as [st' x']. destruct st'; injection H as <- <- <- <-; lia.
  - destruct (gen_id (remove (x_id x) (w_store w)) (w_rng w)) as [[i|] r];
      injection H as <- <- <- <-; cbn [w_now]; lia.
  - injection H as <- <- <- <-. lia.
  - injection H as <- <- <- <-. cbn [w_now]. lia.
Qed.

Lemma acts_mono (c : cfg) (acts : list act) : forall w x outs st w1 x1 outs1,
  do_acts c acts w x outs = (st, w1, x1, outs1) -> w_now w <= w_now w1.
Proof.
  induction acts as [|a r IH]; cbn [do_acts]; intros w x outs st w1 x1 outs1 H.
  - injection H as <- <- <- <-. lia.
  - destruct (do_act c a w x) as [[[st' w'] x'] o] eqn:E. pose proof (act_mono _ _ _ _ _ _ _ _ E) as M.
    destruct st'.
    + specialize (IH _ _ _ _ _ _ _ H). lia.
    + injection H as <- <- <- <-. exact M.
    + injection H as <- <- <- <-. exact M.
Qed.

Lemma begin_now (w : world) (cookie : option Z) st w1 i :
  begin_req w cookie = (st, w1, i) -> w_now w1 = w_now w /\ w_store w1 = w_store w.
Proof.
  unfold begin_req. intro B.
  destruct cookie as [p|]; [destruct (mem p (w_store w))|];
    try (injection B as <- <- <-; split; reflexivity);
    destruct (gen_id (w_store w) (w_rng w)) as [[j|] r]; injection B as <- <- <-; split; reflexivity.
Qed.

Lemma save_now (c : cfg) (w : world) (x : sess) : w_now (save c w x) = w_now w.
Proof. unfold save. destruct (x_loaded x); reflexivity. Qed.

Lemma req_mono (c : cfg) (w : world) (cookie : option Z) (acts : list act) rp w' :
  do_req c w cookie acts = (rp, w') -> w_now w <= w_now w'.
Proof.
  unfold do_req. destruct (begin_req w cookie) as [[st0 w1] i] eqn:B.
  destruct (begin_now _ _ _ _ _ B) as [N _].
  destruct st0; [|intro H; injection H as <- <-; lia|intro H; injection H as <- <-; lia].
  destruct (do_acts c acts w1 (Sess i [] false false) []) as [[[st w2] x] outs] eqn:E.
  pose proof (acts_mono _ _ _ _ _ _ _ _ _ E) as M.
  destruct st; intro H; injection H as <- <-; rewrite ?save_now; lia.
Qed.

Lemma sweep_now (c : cfg) (w : world) : w_now (snd (sweep c w)) = w_now w.
Proof.
  unfold sweep. destruct (c_file c); [|reflexivity].
  destruct (sweep_file c (w_now w) (w_store w)). reflexivity.
Qed.

Lemma step_mono (c : cfg) (o : op) (w : world) rp w' :
  step c o w = (rp, w') -> w_now w <= w_now w'.
Proof.
  destruct o; cbn [step].
  - apply req_mono.
  - intro H. injection H as <- <-. cbn [w_now]. lia.
  - pose proof (sweep_now c w) as N. destruct (sweep c w) as [st w1]. cbn [snd] in N.
    intro H. injection H as <- <-. lia.
  - intro H. injection H as <- <-. destruct (c_file c); cbn [w_now]; lia.
Qed.

Lemma run_mono (c : cfg) (ops : list op) : forall w rs w',
  run c ops w = (rs, w') -> w_now w <= w_now w'.
Proof.
  induction ops as [|o r IH]; cbn [run]; intros w rs w' H.
  - injection H as <- <-. lia.
  - destruct (step c o w) as [rp w1] eqn:S. destruct (run c r w1) as [rs2 w2] eqn:E.
    injection H as <- <-. pose proof (step_mono _ _ _ _ _ S). specialize (IH _ _ _ E). lia.
Qed.

(* ---------- frame: operations on other ids leave an entry alone ---------- *)

Lemma act_frame (c : cfg) (a : act) (w : world) (x : sess) st w1 x1 o (i : Z) (ct : content) :
  x_id x <> i -> lookup i (w_store w) = Some ct ->
  do_act c a w x = (st, w1, x1, o) ->
  x_id x1 <> i /\ lookup i (w_store w1) = Some ct.
Proof.
  intros Hx Hl. pose proof (ensure_loaded_id c w x) as I.
  destruct a; cbn [do_act]; intro H.
  - destruct (ensure_loaded c w x) as [st' x']. cbn [snd] in I. injection H as <- <- <- <-.
    rewrite I. auto.
  - destruct (ensure_loaded c w x) as [st' x']. cbn [snd] in I.
    destruct st'; injection H as <- <- <- <-; cbn [set_data x_id]; rewrite I; auto.
  - destruct (ensure_loaded c w x) as [st' x']. cbn [snd] in I.
    destruct st'; injection H as <- <- <- <-; cbn [set_data x_id]; rewrite I; auto.
  - assert (L1 : lookup i (remove (x_id x) (w_store w)) = Some ct).
    { rewrite lookup_remove. destruct (x_id x =? i) eqn:E; [apply Z.eqb_eq in E; contradiction|exact Hl]. }
    destruct (gen_id (remove (x_id x) (w_store w)) (w_rng w)) as [[j|] r] eqn:G;
      injection H as <- <- <- <-; cbn [w_store x_id]; (split; [|exact L1]); [|exact Hx].
    destruct (gen_id_spec _ _ _ _ G) as [Hf _]. intros ->. unfold mem in Hf. rewrite L1 in Hf. discriminate.
  - injection H as <- <- <- <-. auto.
  - injection H as <- <- <- <-. auto.
Qed.

Lemma acts_frame (c : cfg) (acts : list act) (i : Z) (ct : content) : forall w x outs st w1 x1 outs1,
  x_id x <> i -> lookup i (w_store w) = Some ct ->
  do_acts c acts w x outs = (st, w1, x1, outs1) ->
  x_id x1 <> i /\ lookup i (w_store w1) = Some ct.
Proof.
  induction acts as [|a r IH]; cbn [do_acts]; intros w x outs st w1 x1 outs1 Hx Hl H.
  - injection H as <- <- <- <-. auto.
  - destruct (do_act c a w x) as [[[st' w'] x'] o] eqn:E.
    destruct (act_frame _ _ _ _ _ _ _ _ _ _ Hx Hl E) as [Hx' Hl'].
    destruct st'.
    + eapply IH; eauto.
    + injection H as <- <- <- <-. auto.
    + injection H as <- <- <- <-. auto.
Qed.

Lemma req_frame (c : cfg) (w : world) (cookie : option Z) (acts : list act) rp w' (i : Z) (ct : content) :
  cookie <> Some i -> lookup i (w_store w) = Some ct ->
  do_req c w cookie acts = (rp, w') -> lookup i (w_store w') = Some ct.
Proof.
  intros Hc Hl. unfold do_req. destruct (begin_req w cookie) as [[st0 w1] j] eqn:B.
  destruct (begin_now _ _ _ _ _ B) as [_ S1].
  destruct st0; [|intro H; injection H as <- <-; rewrite S1; exact Hl
                 |intro H; injection H as <- <-; rewrite S1; exact Hl].
  assert (Hj : j <> i).
  { destruct (begin_spec _ _ _ _ B) as [[p [Hp [_ [-> _]]]]|[_ [Hf _]]].
    - intros ->. apply Hc. exact Hp.
    - intros ->. unfold mem in Hf. rewrite Hl in Hf. discriminate. }
  destruct (do_acts c acts w1 (Sess j [] false false) []) as [[[st w2] x] outs] eqn:E.
  rewrite <- S1 in Hl.
  assert (Hj' : x_id (Sess j [] false false) <> i) by exact Hj.
  destruct (acts_frame _ _ _ _ _ _ _ _ _ _ _ Hj' Hl E) as [Hx Hl2].
  destruct st; intro H; injection H as <- <-; try exact Hl2.
  unfold save. destruct (x_loaded x); [|exact Hl2]. cbn [w_store]. rewrite lookup_put.
  destruct (x_id x =? i) eqn:K; [apply Z.eqb_eq in K; contradiction|exact Hl2].
Qed.

(** "not yet swept": the file sweep keeps expiry = now, the RAM sweep does not *)
Definition alive (c : cfg) (now e : Z) : Prop := if c_file c then now <= e else now < e.

Lemma alive_mono (c : cfg) (n n' e : Z) : n <= n' -> alive c n' e -> alive c n e.
Proof. unfold alive. destruct (c_file c); lia. Qed.

Lemma sweep_frame (c : cfg) (w : world) (i : Z) d e :
  lookup i (w_store w) = Some (Good d e) -> alive c (w_now w) e ->
  lookup i (w_store (snd (sweep c w))) = Some (Good d e).
Proof.
  unfold sweep, alive. intros Hl Ha. destruct (c_file c).
  - pose proof (sweep_file_keeps c (w_now w) (w_store w) i (Good d e) Hl) as K.
    destruct (sweep_file c (w_now w) (w_store w)) as [st s']. cbn [snd w_store] in *. apply K.
    unfold file_keep. cbn [snd]. destruct (e <? w_now w) eqn:L; [apply Z.ltb_lt in L; lia|reflexivity].
  - cbn [snd w_store]. apply lookup_filter_keep; [exact Hl|]. unfold ram_keep. cbn [snd].
    destruct (e <=? w_now w) eqn:L; [apply Z.leb_le in L; lia|reflexivity].
Qed.

(** operations that do not present id i and do not damage its file *)
Fixpoint quiet (i : Z) (ops : list op) : Prop :=
  match ops with
  | [] => True
  | OReq ck _ :: r => ck <> Some i /\ quiet i r
  | OTear j _ :: r => j <> i /\ quiet i r
  | _ :: r => quiet i r
  end.

Lemma step_frame (c : cfg) (o : op) (w : world) rp w' (i : Z) d e :
  quiet i [o] -> lookup i (w_store w) = Some (Good d e) -> alive c (w_now w) e ->
  step c o w = (rp, w') -> lookup i (w_store w') = Some (Good d e).
Proof.
  intros Q Hl Ha. destruct o; cbn [step quiet] in *.
  - apply req_frame; tauto.
  - intro H. injection H as <- <-. exact Hl.
  - pose proof (sweep_frame c w i d e Hl Ha) as K. destruct (sweep c w) as [st w1]. cbn [snd] in K.
    intro H. injection H as <- <-. exact K.
  - intro H. injection H as <- <-. destruct (c_file c); [|exact Hl]. cbn [w_store]. rewrite lookup_put.
    destruct (i0 =? i) eqn:K; [apply Z.eqb_eq in K; tauto|exact Hl].
Qed.

Lemma run_frame (c : cfg) (ops : list op) (i : Z) d e : forall w rs w',
  run c ops w = (rs, w') -> quiet i ops ->
  lookup i (w_store w) = Some (Good d e) -> alive c (w_now w') e ->
  lookup i (w_store w') = Some (Good d e).
Proof.
  induction ops as [|o r IH]; cbn [run]; intros w rs w' H Q Hl Ha.
  - injection H as <- <-. exact Hl.
  - destruct (step c o w) as [rp w1] eqn:S. destruct (run c r w1) as [rs2 w2] eqn:E.
    injection H as <- <-.
    assert (Q1 : quiet i [o]) by (destruct o; cbn [quiet] in *; tauto).
    assert (Q2 : quiet i r) by (destruct o; cbn [quiet] in *; tauto).
    pose proof (step_mono _ _ _ _ _ S) as M1. pose proof (run_mono _ _ _ _ _ E) as M2.
    eapply IH; eauto. eapply step_frame; eauto. eapply alive_mono; [|exact Ha]. lia.
Qed.

(* ---------- what a request presenting a stored id reads ---------- *)

Lemma acts_outs (c : cfg) (acts : list act) : forall w x outs st w1 x1 outs1,
  do_acts c acts w x outs = (st, w1, x1, outs1) -> exists rest, outs1 = outs ++ rest.
Proof.
  induction acts as [|a r IH]; cbn [do_acts]; intros w x outs st w1 x1 outs1 H.
  - injection H as <- <- <- <-. exists []. rewrite app_nil_r. reflexivity.
  - destruct (do_act c a w x) as [[[st' w'] x'] o] eqn:E.
    assert (K : exists rest, outs1 = match o with Some d => outs ++ [d] | None => outs end ++ rest).
    { destruct st'; [eapply IH; eauto| |]; injection H as <- <- <- <-; exists []; rewrite app_nil_r; reflexivity. }
    destruct K as [rest ->]. destruct o; [rewrite <- app_assoc|]; eauto.
Qed.

Lemma req_reads (c : cfg) (w : world) (i : Z) (acts : list act) rp w' (first : data) :
  mem i (w_store w) = true ->
  ensure_loaded c w (Sess i [] false false) = (SOk, Sess i first true false) ->
  do_req c w (Some i) (ARead :: acts) = (rp, w') ->
  exists rest, r_reads rp = first :: rest.
Proof.
  intros Hm He. unfold do_req, begin_req. rewrite Hm. cbn [do_acts do_act]. rewrite He. cbn [x_data app].
  destruct (do_acts c acts w (Sess i first true false) [first]) as [[[st w2] x] outs] eqn:E.
  destruct (acts_outs _ _ _ _ _ _ _ _ _ E) as [rest ->].
  intros H. destruct st; injection H as <- <-; cbn [r_reads app]; eauto.
Qed.

Lemma load_saved (c : cfg) (w : world) (i : Z) d e ex :
  lookup i (w_store w) = Some (Good d e) -> w_now w <= e ->
  ensure_loaded c w (Sess i [] false ex) = (SOk, Sess i d true ex).
Proof.
  intros Hl Hn. unfold ensure_loaded, load_raw. cbn [x_loaded x_id x_exp]. rewrite Hl.
  destruct (e <? w_now w) eqn:L; [apply Z.ltb_lt in L; lia|reflexivity].
Qed.

Lemma load_expired (c : cfg) (w : world) (i : Z) d e ex :
  lookup i (w_store w) = Some (Good d e) -> e < w_now w ->
  ensure_loaded c w (Sess i [] false ex) = (SOk, Sess i [] true ex).
Proof.
  intros Hl Hn. unfold ensure_loaded, load_raw. cbn [x_loaded x_id x_exp]. rewrite Hl.
  destruct (e <? w_now w) eqn:L; [reflexivity|apply Z.ltb_ge in L; lia].
Qed.

Lemma load_torn (c : cfg) (w : world) (i : Z) cls ex :
  c_repaired c = true -> raise_set_ok (w_store w) -> lookup i (w_store w) = Some (Bad cls) ->
  ensure_loaded c w (Sess i [] false ex) = (SOk, Sess i [] true ex).
Proof.
  intros R H Hl. unfold ensure_loaded. cbn [x_loaded x_id x_exp].
  rewrite (load_raw_torn c i _ cls R H Hl). reflexivity.
Qed.

(* ---------- the property-level statements ---------- *)

(** persistence: whatever other clients, the clock and the sweeper do, a later
    request presenting the id reads exactly the saved data while it is alive *)
Lemma persist (c : cfg) (ops : list op) (w : world) rs w' (i : Z) d e :
  run c ops w = (rs, w') -> quiet i ops ->
  lookup i (w_store w) = Some (Good d e) -> alive c (w_now w') e ->
  lookup i (w_store w') = Some (Good d e)
  /\ forall acts rp w'', do_req c w' (Some i) (ARead :: acts) = (rp, w'') ->
       exists rest, r_reads rp = d :: rest.
Proof.
  intros H Q Hl Ha. pose proof (run_frame _ _ _ _ _ _ _ _ H Q Hl Ha) as K. split; [exact K|].
  intros acts rp w'' R. eapply req_reads; eauto.
  - unfold mem. rewrite K. reflexivity.
  - apply load_saved with (e := e); [exact K|]. unfold alive in Ha. destruct (c_file c); lia.
Qed.

(** no resurrection: the clock never goes back, so an entry that is expired
    stays expired, and a load that meets it flushes the data *)
Lemma no_resurrection (c : cfg) (ops : list op) (w : world) rs w' (i : Z) d e :
  run c ops w = (rs, w') ->
  lookup i (w_store w) = Some (Good d e) -> e < w_now w ->
  e < w_now w'
  /\ (lookup i (w_store w') = Some (Good d e) ->
      forall ex, ensure_loaded c w' (Sess i [] false ex) = (SOk, Sess i [] true ex)).
Proof.
  intros H Hl He. pose proof (run_mono _ _ _ _ _ H) as M. split; [lia|].
  intros K ex. apply load_expired with (d := d) (e := e); [exact K|lia].
Qed.

(** an unreadable file is an absent session (repaired handler) *)
Lemma torn_is_absent (c : cfg) (w : world) (i : Z) cls :
  c_repaired c = true -> raise_set_ok (w_store w) -> lookup i (w_store w) = Some (Bad cls) ->
  load_raw c i (w_store w) = LNone
  /\ (forall acts rp w', do_req c w (Some i) (ARead :: acts) = (rp, w') ->
        not_raised (r_status rp) /\ exists rest, r_reads rp = [] :: rest)
  /\ fst (sweep c w) = SOk.
Proof.
  intros R H Hl. split; [eapply load_raw_torn; eauto|]. split.
  - intros acts rp w' E. split; [eapply req_no_raise; eauto|].
    eapply req_reads; eauto.
    + unfold mem. rewrite Hl. reflexivity.
    + eapply load_torn; eauto.
  - apply sweep_total; assumption.
Qed.

(** non-vacuity: a concrete history on the file backend meeting every hypothesis
    used above *)
Lemma ex_nonvacuous :
  let c := Cfg true 60 true in
  let ops := [OReq None [AWrite 1 2]; OReq None [AWrite 0 5]; OTear 8 2; OReq (Some 5) [ARead]; OAdvance 60] in
  exists rs w',
    run c ops (W [] 0 [7; 8; 7; 9; 10]) = (rs, w')
    /\ c_repaired c = true /\ tears_ok ops /\ quiet 7 ops
    /\ lookup 7 (w_store w') = Some (Good [(1, 2)] 60) /\ alive c (w_now w') 60
    /\ lookup 8 (w_store w') = Some (Bad 2) /\ raise_set_ok (w_store w')
    /\ map r_id rs = [7; 8; 0; 9; 0]
    /\ fst (sweep c (W (w_store w') 61 [])) = SOk
    /\ lookup 7 (w_store (snd (sweep c (W (w_store w') 61 [])))) = None
    /\ r_reads (fst (do_req c w' (Some 7) [ARead])) = [[(1, 2)]]
    /\ r_reads (fst (do_req c w' (Some 8) [ARead])) = [[]].
Proof.
  cbv zeta. eexists. eexists. split; [vm_compute; reflexivity|].
  cbn [w_store w_now].
  assert (RS : raise_set_ok [(9, Good [] 60); (8, Bad 2); (7, Good [(1, 2)] 60)]).
  { intros i cls Hin. cbn in Hin.
    repeat (destruct Hin as [Hin|Hin]; [try discriminate; injection Hin as <- <-; lia|]). destruct Hin. }
  split; [reflexivity|].
  split; [cbn [tears_ok]; repeat split; lia|].
  split; [cbn [quiet]; repeat split; intro K; try discriminate K; lia|].
  split; [vm_compute; reflexivity|].
  split; [vm_compute; congruence|].
  split; [vm_compute; reflexivity|].
  split; [exact RS|].
  repeat split; vm_compute; reflexivity.
Qed.
