(** Every request that was ever loaded into the serving slot is closed, unless it is still the serving one
    (and open) or the ghost flag [lost_req] has recorded that one was dropped unclosed.  A predicate on the
    identities only, preserved by every step of every execution of every program. *)
From Coq Require Import ZArith List Bool Lia.
Import ListNotations.
From CV Require Import Model.M_flow.
Open Scope Z_scope.

Definition L (i : ids) : Prop :=
  memZ 0 (closed i) = true /\
  forall r, In r (served i) ->
    lost_req i = true \/ memZ r (closed i) = true \/ (r = serving i /\ is_open i = true).

Lemma memZ_cons x y l : memZ x (y :: l) = (x =? y) || memZ x l.
Proof. reflexivity. Qed.

Lemma L_effect a i : L i -> L (ids_effect a i).
Proof.
  intros [H0 HL]. destruct a; try (split; assumption).
  - (* LoadServing *)
    split; [exact H0|]. cbn [ids_effect served lost_req closed serving]. intros r [<-|Hr].
    + destruct (pending_req i =? 0) eqn:Ez.
      * apply Z.eqb_eq in Ez. rewrite Ez. right. left. exact H0.
      * destruct (memZ (pending_req i) (closed i)) eqn:Ec; [right; left; reflexivity|].
        right. right. split; [reflexivity|]. unfold is_open. cbn [serving closed]. rewrite Ez, Ec. reflexivity.
    + destruct (HL r Hr) as [Hl|[Hc|[Hs Ho]]].
      * left. rewrite Hl. reflexivity.
      * right. left. exact Hc.
      * left. rewrite Ho. apply orb_true_r.
  - (* ClearServing *)
    split; [exact H0|]. cbn [ids_effect served lost_req closed serving]. intros r Hr.
    destruct (HL r Hr) as [Hl|[Hc|[Hs Ho]]].
    + left. rewrite Hl. reflexivity.
    + right. left. exact Hc.
    + left. rewrite Ho. apply orb_true_r.
  - (* SetClosed *)
    split.
    + cbn [ids_effect closed]. rewrite memZ_cons, H0. apply orb_true_r.
    + cbn [ids_effect served lost_req closed serving]. intros r Hr.
      destruct (HL r Hr) as [Hl|[Hc|[Hs Ho]]].
      * left. exact Hl.
      * right. left. rewrite memZ_cons, Hc. apply orb_true_r.
      * destruct (serving i =? self_req i) eqn:Es.
        -- right. left. rewrite memZ_cons, Hs, Es. reflexivity.
        -- right. right. split; [exact Hs|]. unfold is_open in *. cbn [serving closed]. rewrite memZ_cons, Es. exact Ho.
Qed.

Lemma L_raise e i : L i -> L (ids_raise e i).
Proof. intros [H0 HL]. split; [exact H0|]. intros r Hr. exact (HL r Hr). Qed.

Lemma L_with_self r k i : L i -> L (ids_with_self r k i).
Proof. intros [H0 HL]. split; [exact H0|]. intros q Hq. exact (HL q Hq). Qed.

Definition LS (st : state) : Prop := L (sid st).

Section Served.
  Variable prog : fname -> stmt.
  Variable pparam : fname -> stmt.
  Variable E : env.
  Notation EX := (exec prog pparam E).

  Lemma LS_effect a st : LS st -> LS (effect E a (log_action a st)).
  Proof. unfold LS, effect, log_action. cbn [sid]. apply L_effect. Qed.

  Lemma LS_raise a e st : LS st -> LS (log_raise a e (log_action a st)).
  Proof. unfold LS, log_raise, log_action. cbn [sid]. apply L_raise. Qed.

  Theorem LS_preserved : forall fuel param s st o st',
    LS st -> EX fuel param s st = (o, st') -> LS st'.
  Proof.
    induction fuel as [|f IH]; intros param s st o st' Hinv H; [cbn in H; inversion H; subst; exact Hinv|].
    destruct s as [|a|s1 s2|body hs orelse fin|c s1 s2|fl|[e|]| |body|body|g|]; cbn [exec] in H.
    - inversion H; subst; exact Hinv.
    - destruct (action_eq_dec a SetClosed) as [->|Hns].
      + inversion H; subst. now apply LS_effect.
      + assert (H' : (match e_act E (occ a (journal st)) a with
                      | None => (Normal, effect E a (log_action a st))
                      | Some e => (Raised e, log_raise a e (log_action a st))
                      end) = (o, st')) by (destruct a; try exact H; congruence).
        destruct (e_act E (occ a (journal st)) a); inversion H'; subst; [now apply LS_raise | now apply LS_effect].
    - destruct (EX f param s1 st) as [o1 st1] eqn:H1. pose proof (IH _ _ _ _ _ Hinv H1) as Hi1.
      destruct o1; try (inversion H; subst; exact Hi1). eapply IH; eassumption.
    - destruct (EX f param body st) as [o1 st1] eqn:H1. pose proof (IH _ _ _ _ _ Hinv H1) as Hi1.
      assert (H2 : exists o2 st2, LS st2 /\
                 (match o2 with OutOfFuel => (OutOfFuel, st2)
                  | _ => let '(o3, st3) := EX f param fin st2 in
                         match o3 with Normal => (o2, st3) | _ => (o3, st3) end end) = (o, st')).
      { destruct o1.
        - destruct (EX f param orelse st1) as [o2 st2] eqn:H2. exists o2, st2. split; [eapply IH; eassumption | exact H].
        - exists Returned, st1. split; [exact Hi1 | exact H].
        - destruct (find_handler hs e) as [h|].
          + destruct (EX f param h (with_cur (Some e) st1)) as [oh sth] eqn:Hh.
            exists oh, (with_cur (cur_exn (sfin st1)) sth). split; [|exact H].
            assert (Hw : LS (with_cur (Some e) st1)) by exact Hi1.
            exact (IH _ _ _ _ _ Hw Hh).
          + exists (Raised e), st1. split; [exact Hi1 | exact H].
        - exists OutOfFuel, st1. split; [exact Hi1 | exact H]. }
      destruct H2 as (o2 & st2 & Hi2 & H2).
      destruct o2; try (destruct (EX f param fin st2) as [o3 st3] eqn:H3;
                        pose proof (IH _ _ _ _ _ Hi2 H3) as Hi3; destruct o3; inversion H2; subst; exact Hi3).
      inversion H2; subst; exact Hi2.
    - assert (Hu : LS (upd_tick st)) by exact Hinv.
      destruct (eval_cond E st c); eapply IH; eassumption.
    - inversion H; subst; exact Hinv.
    - inversion H; subst; exact Hinv.
    - destruct (cur_exn (sfin st)); inversion H; subst; exact Hinv.
    - inversion H; subst; exact Hinv.
    - destruct (EX f param body st) as [o1 st1] eqn:H1. pose proof (IH _ _ _ _ _ Hinv H1) as Hi1.
      destruct o1; try (inversion H; subst; exact Hi1). eapply IH; eassumption.
    - destruct (e_cond E (tick st) FLoopMore); [|inversion H; subst; exact Hinv].
      destruct (EX f param body (upd_tick st)) as [o1 st1] eqn:H1.
      assert (Hu : LS (upd_tick st)) by exact Hinv. pose proof (IH _ _ _ _ _ Hu H1) as Hi1.
      destruct o1; try (inversion H; subst; exact Hi1). eapply IH; eassumption.
    - destruct (EX f (pparam g) (prog g) (with_self (receiver g st) (recv_known g (rsk (sid st))) st)) as [o1 st1] eqn:H1.
      assert (Hw : LS (with_self (receiver g st) (recv_known g (rsk (sid st))) st))
        by (unfold LS, with_self; cbn [sid]; apply L_with_self; exact Hinv).
      pose proof (IH _ _ _ _ _ Hw H1) as Hi1. inversion H; subst.
      unfold LS, with_self. cbn [sid]. apply L_with_self. exact Hi1.
    - eapply IH; eassumption.
  Qed.
End Served.

Lemma LS_init : LS init_state.
Proof. split; [reflexivity|]. intros r []. Qed.
