(** C10 - frame, history independence and thread locality of the heap model. *)
From Coq Require Import ZArith List Bool Lia.
From CV Require Import Lib.Sx Lib.ListZ Model.M_isolation Proof.P_isolation.
Import ListNotations.
Open Scope Z_scope.

(** ** what owner [t] can see is the same in two states *)
Definition RootsEq (st1 st2 : state) : Prop :=
  forall f, In f all_fields -> hget (heap_of st1) (root f) = hget (heap_of st2) (root f).

Definition SlotSim (t : Z) (st1 st2 : state) : Prop :=
  match sget (serving st1) t, sget (serving st2) t with
  | Some sl1, Some sl2 =>
      forall f, In f all_fields ->
        hget (heap_of st1) (slot_obj sl1 f) = hget (heap_of st2) (slot_obj sl2 f)
  | None, None => True
  | _, _ => False
  end.

Definition Sim (t : Z) (st1 st2 : state) : Prop := RootsEq st1 st2 /\ SlotSim t st1 st2.

Lemma snapshot_ext : forall h1 h2 sl1 sl2,
  (forall f, In f all_fields -> hget h1 (slot_obj sl1 f) = hget h2 (slot_obj sl2 f)) ->
  snapshot h1 sl1 = snapshot h2 sl2.
Proof.
  intros h1 h2 sl1 sl2 H. unfold snapshot. apply map_ext_in. intros f Hf. rewrite (H f Hf). reflexivity.
Qed.

(** [OBegin] of the same owner in two states with equal roots *)
Lemma begin_sim : forall tbl t st1 st2,
  table_ok tbl = true -> Inv st1 -> Inv st2 -> RootsEq st1 st2 ->
  Sim t (fst (step tbl st1 (t, OBegin))) (fst (step tbl st2 (t, OBegin))).
Proof.
  intros tbl t st1 st2 Htok HI1 HI2 HR.
  assert (R1 := fun f => step_roots tbl st1 (t, OBegin) f Htok HI1).
  assert (R2 := fun f => step_roots tbl st2 (t, OBegin) f Htok HI2).
  split.
  - intros f Hf. rewrite R1, R2 by assumption. apply HR; assumption.
  - clear R1 R2. unfold SlotSim, step. cbn [fst snd].
    destruct (alloc_fields tbl all_fields (heap_of st1) (next st1)) as [[h1 n1] sl1] eqn:A1.
    destruct (alloc_fields tbl all_fields (heap_of st2) (next st2)) as [[h2 n2] sl2] eqn:A2.
    cbn [fst serving heap_of]. rewrite !sget_cons, !Z.eqb_refl.
    destruct HI1 as [I1 _]. destruct HI2 as [J1 _].
    destruct (alloc_all _ _ _ _ _ Htok I1 A1) as [_ [_ [_ [_ C1]]]].
    destruct (alloc_all _ _ _ _ _ Htok J1 A2) as [_ [_ [_ [_ C2]]]].
    intros f Hf. rewrite (C1 f Hf), (C2 f Hf). destruct (kind_of tbl f); try reflexivity.
    apply HR; assumption.
Qed.

(** the same step of owner [t] on both sides *)
Lemma step_sim_same : forall tbl t o st1 st2,
  table_ok tbl = true -> Inv st1 -> Inv st2 -> Sim t st1 st2 ->
  Sim t (fst (step tbl st1 (t, o))) (fst (step tbl st2 (t, o)))
  /\ snd (step tbl st1 (t, o)) = snd (step tbl st2 (t, o)).
Proof.
  intros tbl t o st1 st2 Htok HI1 HI2 [HR HS].
  destruct o as [|f m| |].
  - split; [apply begin_sim; assumption|].
    unfold step. cbn [fst snd].
    destruct (alloc_fields tbl all_fields (heap_of st1) (next st1)) as [[h1 n1] sl1].
    destruct (alloc_fields tbl all_fields (heap_of st2) (next st2)) as [[h2 n2] sl2]. reflexivity.
  - assert (R1 := fun g => step_roots tbl st1 (t, OMut f m) g Htok HI1).
    assert (R2 := fun g => step_roots tbl st2 (t, OMut f m) g Htok HI2).
    unfold SlotSim in HS. unfold Sim, SlotSim, RootsEq.
    split; [split|].
    + intros g Hg. rewrite R1, R2 by assumption. apply HR; assumption.
    + clear R1 R2. unfold step. cbn [fst snd].
      destruct (sget (serving st1) t) as [sl1|] eqn:S1; destruct (sget (serving st2) t) as [sl2|] eqn:S2;
        try contradiction.
      * destruct (valid_field f) eqn:V.
        -- cbn [fst serving heap_of]. rewrite S1, S2. intros g Hg.
           apply valid_field_In in V.
           destruct HI1 as [_ [I2 _]]. destruct HI2 as [_ [J2 _]].
           destruct (I2 _ _ S1) as [_ Inj1]. destruct (J2 _ _ S2) as [_ Inj2].
           rewrite !hget_hset.
           destruct (Z.eqb_spec (slot_obj sl1 f) (slot_obj sl1 g)) as [E1|E1];
             destruct (Z.eqb_spec (slot_obj sl2 f) (slot_obj sl2 g)) as [E2|E2].
           ++ rewrite (HS f V). reflexivity.
           ++ apply Inj1 in E1; try assumption. subst g. contradiction.
           ++ apply Inj2 in E2; try assumption. subst g. contradiction.
           ++ apply HS; assumption.
        -- cbn [fst]. rewrite S1, S2. exact HS.
      * cbn [fst]. rewrite S1, S2. exact Logic.I.
    + unfold step. cbn [fst snd].
      destruct (sget (serving st1) t) as [sl1|]; destruct (sget (serving st2) t) as [sl2|];
        try contradiction; [|reflexivity].
      destruct (valid_field f); reflexivity.
  - unfold SlotSim in HS. unfold step. cbn [fst snd].
    destruct (sget (serving st1) t) as [sl1|] eqn:S1; destruct (sget (serving st2) t) as [sl2|] eqn:S2;
      try contradiction; cbn [fst snd].
    + split.
      * split; [exact HR|]. unfold SlotSim. rewrite S1, S2. exact HS.
      * rewrite (snapshot_ext _ _ _ _ HS). reflexivity.
    + split; [|reflexivity]. split; [exact HR|]. unfold SlotSim. rewrite S1, S2. exact Logic.I.
  - unfold step. cbn [fst snd]. split; [|reflexivity]. split.
    + exact HR.
    + unfold SlotSim. cbn [serving heap_of]. rewrite !sget_cons, !Z.eqb_refl. exact Logic.I.
Qed.

(** a step of ANOTHER owner on the left side only *)
Lemma step_sim_other : forall tbl t e st1 st2,
  table_ok tbl = true -> Inv st1 -> Sim t st1 st2 -> fst e <> t ->
  Sim t (fst (step tbl st1 e)) st2 /\ outs_of t (snd (step tbl st1 e)) = [].
Proof.
  intros tbl t [t' o] st1 st2 Htok HI1 [HR HS] Hne. cbn [fst] in Hne.
  assert (R1 := fun g => step_roots tbl st1 (t', o) g Htok HI1).
  assert (Hout : outs_of t (snd (step tbl st1 (t', o))) = []).
  { unfold step. cbn [fst snd].
    assert (E : (t' =? t) = false) by (apply Z.eqb_neq; exact Hne).
    destruct o as [|f m| |].
    - destruct (alloc_fields tbl all_fields (heap_of st1) (next st1)) as [[h1 n1] sl1]. reflexivity.
    - destruct (sget (serving st1) t'); [destruct (valid_field f)|]; cbn [snd outs_of filter fst]; try rewrite E;
        reflexivity.
    - destruct (sget (serving st1) t'); cbn [snd outs_of filter fst]; rewrite E; reflexivity.
    - reflexivity. }
  split; [|exact Hout]. split.
  - intros g Hg. rewrite R1 by assumption. apply HR; assumption.
  - clear R1 Hout. unfold SlotSim in *. destruct HI1 as [I1 [I2 I3]].
    assert (Hne' : t' <> t) by exact Hne.
    unfold step. cbn [fst snd]. destruct o as [|f m| |].
    + destruct (alloc_fields tbl all_fields (heap_of st1) (next st1)) as [[h1 n1] sl1] eqn:A1.
      cbn [fst serving heap_of]. rewrite sget_cons.
      destruct (Z.eqb_spec t' t); [contradiction|].
      destruct (sget (serving st1) t) as [sla|] eqn:S1; [|exact HS].
      destruct (sget (serving st2) t) as [slb|]; [|exact HS].
      intros g Hg. destruct (alloc_all _ _ _ _ _ Htok I1 A1) as [_ [A2 _]].
      destruct (I2 _ _ S1) as [B _]. specialize (B g Hg).
      rewrite A2 by lia. apply HS; assumption.
    + destruct (sget (serving st1) t') as [sl'|] eqn:S'; [|exact HS].
      destruct (valid_field f) eqn:V; [|exact HS].
      cbn [fst serving heap_of].
      destruct (sget (serving st1) t) as [sla|] eqn:S1; [|exact HS].
      destruct (sget (serving st2) t) as [slb|]; [|exact HS].
      intros g Hg. apply valid_field_In in V.
      rewrite hget_hset_other; [apply HS; assumption|].
      exact (I3 t' t sl' sla Hne' S' S1 f g V Hg).
    + destruct (sget (serving st1) t'); exact HS.
    + cbn [fst serving heap_of]. rewrite sget_cons.
      destruct (Z.eqb_spec t' t); [contradiction|]. exact HS.
Qed.

Lemma outs_of_app : forall t a b, outs_of t (a ++ b) = outs_of t a ++ outs_of t b.
Proof. intros. unfold outs_of. apply filter_app. Qed.

(** the outputs of a step of owner [t] are tagged [t] *)
Lemma step_tagged : forall tbl st t o, outs_of t (snd (step tbl st (t, o))) = snd (step tbl st (t, o)).
Proof.
  intros tbl st t o. unfold step. cbn [fst snd]. destruct o as [|f m| |].
  - destruct (alloc_fields tbl all_fields (heap_of st) (next st)) as [[h1 n1] sl1]. reflexivity.
  - destruct (sget (serving st) t); [destruct (valid_field f)|]; cbn [snd outs_of filter fst];
      try rewrite Z.eqb_refl; reflexivity.
  - destruct (sget (serving st) t); cbn [snd outs_of filter fst]; rewrite Z.eqb_refl; reflexivity.
  - reflexivity.
Qed.

(** the interleaved run on the left, the owner's own steps alone on the right *)
Lemma run_sim : forall tbl t sched st1 st2,
  table_ok tbl = true -> Inv st1 -> Inv st2 -> Sim t st1 st2 ->
  outs_of t (snd (run tbl st1 sched)) = snd (run tbl st2 (proj t sched)).
Proof.
  intros tbl t. induction sched as [|[t' o] r IH]; intros st1 st2 Htok HI1 HI2 HS.
  - reflexivity.
  - rewrite run_cons. cbn [snd]. rewrite outs_of_app. cbn [proj filter fst].
    destruct (Z.eqb_spec t' t) as [E|E].
    + subst t'. rewrite run_cons. cbn [snd].
      destruct (step_sim_same tbl t o st1 st2 Htok HI1 HI2 HS) as [HS' Ho].
      rewrite step_tagged, Ho. f_equal.
      apply IH; try assumption; apply step_inv; assumption.
    + destruct (step_sim_other tbl t (t', o) st1 st2 Htok HI1 HS E) as [HS' Ho].
      rewrite Ho. cbn [app]. apply IH; try assumption. apply step_inv; assumption.
Qed.

(** the same steps of one owner from two similar states *)
Lemma run_sim_same : forall tbl t ops st1 st2,
  table_ok tbl = true -> Inv st1 -> Inv st2 -> Sim t st1 st2 ->
  snd (run tbl st1 (map (fun o => (t, o)) ops)) = snd (run tbl st2 (map (fun o => (t, o)) ops)).
Proof.
  intros tbl t. induction ops as [|o r IH]; intros st1 st2 Htok HI1 HI2 HS.
  - reflexivity.
  - cbn [map]. rewrite !run_cons. cbn [snd].
    destruct (step_sim_same tbl t o st1 st2 Htok HI1 HI2 HS) as [HS' Ho].
    rewrite Ho. f_equal. apply IH; try assumption; apply step_inv; assumption.
Qed.

(** ** the theorems *)
Section Thm.
Variable tbl : table.
Hypothesis Hfresh : forallb is_fresh_entry tbl = true.
Hypothesis Hcov : covers tbl = true.

Lemma thm_table_ok : table_ok tbl = true.
Proof. apply table_ok_of; assumption. Qed.

(** frame: in every state reachable from the initial one by ANY schedule, the objects a step writes
    are never class-level roots; [writes] is complete (every other object keeps its content); hence
    the content of every class-level root after any schedule is what it was before the first request *)
Theorem thm_frame : forall h0 pre e,
  let st := fst (run tbl (init h0) pre) in
  (forall o, In o (writes tbl st e) -> is_root o = false)
  /\ (forall o, ~ In o (writes tbl st e) -> hget (heap_of (fst (step tbl st e))) o = hget (heap_of st) o)
  /\ (forall f, In f all_fields -> hget (heap_of st) (root f) = hget h0 (root f)).
Proof.
  intros h0 pre e st.
  assert (HI : Inv st) by (apply run_inv; [exact thm_table_ok|apply Inv_init]).
  split; [|split].
  - intros o Hin. apply is_root_false. apply (writes_not_root _ _ _ _ thm_table_ok HI Hin).
  - intros o Hno. apply step_frame; assumption.
  - intros f Hf. unfold st. rewrite run_roots; [reflexivity|exact thm_table_ok|apply Inv_init|exact Hf].
Qed.

(** a request that follows an arbitrary schedule (any owners, any operations) outputs what it outputs
    as the first request of the process *)
Lemma request_after : forall h0 h t ops,
  snd (run tbl (fst (run tbl (init h0) h)) (request t ops)) = snd (run tbl (init h0) (request t ops)).
Proof.
  intros h0 h t ops. unfold request. rewrite !run_cons. cbn [snd].
  set (sth := fst (run tbl (init h0) h)).
  assert (HIh : Inv sth) by (apply run_inv; [exact thm_table_ok|apply Inv_init]).
  assert (HI0 : Inv (init h0)) by apply Inv_init.
  assert (HR : RootsEq sth (init h0)).
  { intros f Hf. unfold sth. apply run_roots; [exact thm_table_ok|apply Inv_init|exact Hf]. }
  assert (HS := begin_sim tbl t sth (init h0) thm_table_ok HIh HI0 HR).
  f_equal.
  - unfold step. cbn [fst snd].
    destruct (alloc_fields tbl all_fields (heap_of sth) (next sth)) as [[h1 n1] sl1].
    destruct (alloc_fields tbl all_fields (heap_of (init h0)) (next (init h0))) as [[h2 n2] sl2]. reflexivity.
  - apply run_sim_same; try assumption; try exact thm_table_ok; apply step_inv; try assumption; exact thm_table_ok.
Qed.

Theorem thm_history_independent : forall h0 hist t ops,
  outputs tbl h0 (hist ++ [(t, ops)]) = outputs tbl h0 hist ++ outputs tbl h0 [(t, ops)].
Proof.
  intros h0 hist t ops. unfold outputs, sched_of. rewrite flat_map_app. cbn [flat_map fst snd].
  rewrite app_nil_r. rewrite run_app. cbn [snd]. f_equal. apply request_after.
Qed.

(** every request of a history observes what it observes alone *)
Corollary thm_every_request_alone : forall h0 hist,
  outputs tbl h0 hist = flat_map (fun r => outputs tbl h0 [r]) hist.
Proof.
  intros h0 hist. induction hist as [|r hist IH] using rev_ind.
  - reflexivity.
  - destruct r as [t ops]. rewrite thm_history_independent, IH, flat_map_app. cbn [flat_map].
    rewrite app_nil_r. reflexivity.
Qed.

(** for EVERY interleaving [sched] of the steps of any number of owners, what owner [t] outputs is what
    its own steps output when they run alone, in their order *)
Theorem thm_thread_local : forall h0 sched t,
  outs_of t (snd (run tbl (init h0) sched)) = snd (run tbl (init h0) (proj t sched)).
Proof.
  intros h0 sched t. apply run_sim; try exact thm_table_ok; try apply Inv_init.
  split.
  - intros f Hf. reflexivity.
  - unfold SlotSim, init. cbn [serving sget]. exact Logic.I.
Qed.

End Thm.
