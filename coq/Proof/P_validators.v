(** Lemmas about Model/M_validators.v: the decision table of conditional requests and the
    shape of a 304. *)
From Coq Require Import ZArith List Bool Lia.
From CV Require Import Lib.Sx Lib.ListZ LibP.ListZ_facts Model.M_ranges Model.M_validators Proof.P_ranges
  Proof.P_ranges_thm.
Import ListNotations.
Open Scope Z_scope.

(* ------------------------------------------------------------------ *)
(** * What the four conditions mean (from the property text) *)

(** a header / validator that is there and not empty *)
Definition present (h : option (list Z)) (v : list Z) : Prop := h = Some v /\ v <> [].

(** If-Unmodified-Since differs from the current Last-Modified *)
Definition failed_ius (lastmod ius : option (list Z)) : Prop :=
  exists lm v, present lastmod lm /\ present ius v /\ v <> lm.

(** If-Modified-Since equals the current Last-Modified *)
Definition matched_ims (lastmod ims : option (list Z)) : Prop :=
  exists lm, present lastmod lm /\ ims = Some lm.

(** the current entity tag is a member of the list *)
Definition listed (etag : option (list Z)) (cs : list (list Z)) : Prop :=
  exists e, etag = Some e /\ In e cs.

Definition star : list (list Z) := [[42]].

(** If-Match is given, is not "*" and does not list the current tag *)
Definition failed_im (etag im : option (list Z)) : Prop :=
  conditions im <> [] /\ conditions im <> star /\ ~ listed etag (conditions im).

(** If-None-Match is "*" or lists the current tag *)
Definition matched_inm (etag inm : option (list Z)) : Prop :=
  conditions inm = star \/ listed etag (conditions inm).

(** the decision table: rows in the order the code consults them *)
Definition decision_table (safe f_ius m_ims f_im m_inm : bool) : decision :=
  if f_ius then D412
  else if m_ims then (if safe then D304 else D412)
  else if f_im then D412
  else if m_inm then (if safe then D304 else D412)
  else DPass.

(* ------------------------------------------------------------------ *)

Lemma eqbZs_iff a b : eqbZs a b = true <-> a = b.
Proof. split; [apply eqbZs_eq | intros ->; apply eqbZs_refl]. Qed.

Lemma is_star_iff cs : is_star cs = true <-> cs = star.
Proof.
  unfold is_star, star. destruct cs as [|c [|d r]].
  - split; discriminate.
  - rewrite eqbZs_iff. split; [now intros -> | now intros [= ->]].
  - split; discriminate.
Qed.

Lemma tag_in_iff etag cs : tag_in etag cs = true <-> listed etag cs.
Proof.
  unfold tag_in, listed. destruct etag as [e|].
  - rewrite existsb_exists. split.
    + intros (x & Hin & Hx). apply eqbZs_eq in Hx. subst. eauto.
    + intros (e' & [= <-] & Hin). exists e. split; [assumption | apply eqbZs_refl].
  - split; [discriminate | intros (e & H & _); discriminate].
Qed.

Lemma truthy_iff o : truthy o = true <-> exists v, present o v.
Proof.
  unfold truthy, present. destruct o as [[|c v]|].
  - split; [discriminate | intros (v & [= <-] & H); congruence].
  - split; [intros _; exists (c :: v); split; [reflexivity | discriminate] | reflexivity].
  - split; [discriminate | intros (v & H & _); discriminate].
Qed.

Definition b_failed_ius (lastmod ius : option (list Z)) : bool :=
  truthy lastmod && truthy ius
  && negb (eqbZs (match ius with Some v => v | None => [] end) (match lastmod with Some v => v | None => [] end)).

Definition b_matched_ims (lastmod ims : option (list Z)) : bool :=
  truthy lastmod && truthy ims
  && eqbZs (match ims with Some v => v | None => [] end) (match lastmod with Some v => v | None => [] end).

Definition b_failed_im (etag im : option (list Z)) : bool :=
  match conditions im with [] => false | _ :: _ => true end
  && negb (is_star (conditions im) || tag_in etag (conditions im)).

Definition b_matched_inm (etag inm : option (list Z)) : bool :=
  is_star (conditions inm) || tag_in etag (conditions inm).

Lemma b_failed_ius_iff lastmod ius : b_failed_ius lastmod ius = true <-> failed_ius lastmod ius.
Proof.
  unfold b_failed_ius, failed_ius. rewrite !andb_true_iff, !truthy_iff, negb_true_iff. split.
  - intros [[(lm & Hl) (v & Hv)] Hne]. exists lm, v.
    split; [exact Hl|]. split; [exact Hv|].
    destruct Hl as [-> _], Hv as [-> _]. intros ->. now rewrite eqbZs_refl in Hne.
  - intros (lm & v & Hl & Hv & Hne).
    split; [split; [exists lm; exact Hl | exists v; exact Hv]|].
    destruct Hl as [-> _], Hv as [-> _].
    destruct (eqbZs v lm) eqn:E; [apply eqbZs_eq in E; congruence | reflexivity].
Qed.

Lemma b_matched_ims_iff lastmod ims : b_matched_ims lastmod ims = true <-> matched_ims lastmod ims.
Proof.
  unfold b_matched_ims, matched_ims. rewrite !andb_true_iff, !truthy_iff. split.
  - intros [[(lm & Hl) (v & Hv)] He]. exists lm. split; [exact Hl|].
    destruct Hl as [-> _], Hv as [-> _]. apply eqbZs_eq in He. now subst.
  - intros (lm & Hl & ->).
    split; [split; [exists lm; exact Hl | exists lm; destruct Hl as [_ Hne]; split; [reflexivity | exact Hne]]|].
    destruct Hl as [-> _]. apply eqbZs_refl.
Qed.

Lemma b_failed_im_iff etag im : b_failed_im etag im = true <-> failed_im etag im.
Proof.
  unfold b_failed_im, failed_im. rewrite andb_true_iff, negb_true_iff, orb_false_iff.
  rewrite <- is_star_iff, <- tag_in_iff. split.
  - intros [Hne [Hs Ht]]. repeat split.
    + destruct (conditions im); [discriminate | discriminate].
    + now rewrite Hs.
    + now rewrite Ht.
  - intros (Hne & Hs & Ht). repeat split.
    + destruct (conditions im); [congruence | reflexivity].
    + now apply not_true_is_false.
    + now apply not_true_is_false.
Qed.

Lemma b_matched_inm_iff etag inm : b_matched_inm etag inm = true <-> matched_inm etag inm.
Proof.
  unfold b_matched_inm, matched_inm. now rewrite orb_true_iff, is_star_iff, tag_in_iff.
Qed.

Definition no_semicolon (h : option (list Z)) : Prop :=
  has_semicolon (match h with Some v => v | None => [] end) = false.

(** the code computes exactly the table *)
Lemma decide_table m etag lastmod im inm ims ius :
  no_semicolon im -> no_semicolon inm ->
  decide m etag lastmod im inm ims ius
  = decision_table (safe_method m) (b_failed_ius lastmod ius) (b_matched_ims lastmod ims)
                   (b_failed_im etag im) (b_matched_inm etag inm).
Proof.
  unfold no_semicolon. intros S1 S2.
  unfold decide, validate_since, validate_etags, decision_table,
    b_failed_ius, b_matched_ims, b_failed_im, b_matched_inm.
  change (is_2xx 200) with true. cbn [orb andb]. rewrite S1, S2. cbn [orb].
  destruct lastmod as [[|c0 lm0]|]; cbn [truthy andb].
  - destruct (match conditions im with [] => false | _ :: _ => true end
              && negb (is_star (conditions im) || tag_in etag (conditions im))); [reflexivity|].
    destruct (is_star (conditions inm) || tag_in etag (conditions inm)); [|reflexivity].
    destruct (safe_method m); reflexivity.
  - rewrite !andb_true_r.
    destruct (truthy ius && negb (eqbZs match ius with Some v => v | None => [] end (c0 :: lm0))); [reflexivity|].
    destruct (truthy ims && eqbZs match ims with Some v => v | None => [] end (c0 :: lm0)).
    + destruct (safe_method m); reflexivity.
    + destruct (match conditions im with [] => false | _ :: _ => true end
              && negb (is_star (conditions im) || tag_in etag (conditions im))); [reflexivity|].
      destruct (is_star (conditions inm) || tag_in etag (conditions inm)); [|reflexivity].
      destruct (safe_method m); reflexivity.
  - destruct (match conditions im with [] => false | _ :: _ => true end
              && negb (is_star (conditions im) || tag_in etag (conditions im))); [reflexivity|].
    destruct (is_star (conditions inm) || tag_in etag (conditions inm)); [|reflexivity].
    destruct (safe_method m); reflexivity.
Qed.

Theorem thm_validators : forall m etag lastmod im inm ims ius,
  no_semicolon im -> no_semicolon inm ->
  exists f_ius m_ims f_im m_inm,
    (f_ius = true <-> failed_ius lastmod ius) /\
    (m_ims = true <-> matched_ims lastmod ims) /\
    (f_im = true <-> failed_im etag im) /\
    (m_inm = true <-> matched_inm etag inm) /\
    decide m etag lastmod im inm ims ius = decision_table (safe_method m) f_ius m_ims f_im m_inm.
Proof.
  intros m etag lastmod im inm ims ius S1 S2.
  exists (b_failed_ius lastmod ius), (b_matched_ims lastmod ims), (b_failed_im etag im), (b_matched_inm etag inm).
  split; [apply b_failed_ius_iff|]. split; [apply b_matched_ims_iff|].
  split; [apply b_failed_im_iff|]. split; [apply b_matched_inm_iff|].
  now apply decide_table.
Qed.

(** readable consequences *)
Theorem thm_304_412_pass : forall m etag lastmod im inm ims ius,
  no_semicolon im -> no_semicolon inm ->
  let d := decide m etag lastmod im inm ims ius in
  (d = D304 -> safe_method m = true /\ (matched_ims lastmod ims \/ matched_inm etag inm)) /\
  (d = D412 -> failed_ius lastmod ius \/ failed_im etag im
               \/ (safe_method m = false /\ (matched_ims lastmod ims \/ matched_inm etag inm))) /\
  (d = DPass <-> ~ failed_ius lastmod ius /\ ~ matched_ims lastmod ims
                 /\ ~ failed_im etag im /\ ~ matched_inm etag inm) /\
  (failed_ius lastmod ius \/ failed_im etag im ->
   ~ matched_ims lastmod ims -> ~ matched_inm etag inm -> d = D412) /\
  (~ failed_ius lastmod ius -> ~ failed_im etag im ->
   matched_ims lastmod ims \/ matched_inm etag inm ->
   d = if safe_method m then D304 else D412) /\
  d <> DUnsupported.
Proof.
  intros m etag lastmod im inm ims ius S1 S2 d. subst d.
  rewrite (decide_table _ _ _ _ _ _ _ S1 S2).
  rewrite <- b_failed_ius_iff, <- b_matched_ims_iff, <- b_failed_im_iff, <- b_matched_inm_iff.
  unfold decision_table.
  destruct (b_failed_ius lastmod ius), (b_matched_ims lastmod ims), (b_failed_im etag im),
    (b_matched_inm etag inm), (safe_method m); cbn;
    repeat split; try discriminate; try tauto; try (intros; intuition discriminate).
Qed.

(* ------------------------------------------------------------------ *)
(** * respond: what a 304 looks like, and where statuses come from *)

Lemma validate_etags_304_safe m s e im inm : validate_etags m s e im inm = D304 -> safe_method m = true.
Proof.
  unfold validate_etags.
  repeat match goal with |- context [if ?x then _ else _] => destruct x eqn:? end; try discriminate; reflexivity.
Qed.

Lemma validate_since_304_safe m s lm ius ims : validate_since m s lm ius ims = D304 -> safe_method m = true.
Proof.
  unfold validate_since. destruct lm as [[|c0 lm0]|]; try discriminate.
  repeat match goal with |- context [if ?x then _ else _] => destruct x eqn:? end; try discriminate; reflexivity.
Qed.

Theorem thm_304_empty : forall c q r,
  o_status (respond c q r) = 304 ->
  o_body (respond c q r) = Some [] /\ o_cr (respond c q r) = None
  /\ o_cl (respond c q r) = None /\ o_ct (respond c q r) = None
  /\ safe_method (q_method q) = true.
Proof.
  intros c q r. unfold respond.
  destruct (validate_since (q_method q) 200 (r_lastmod r) (q_ius q) (q_ims q)) eqn:VS;
    cbn [o_status obs_304 obs_err]; try discriminate.
  - destruct (if r_is_file r
              then serve c (q_proto11 q) (q_range q) (r_content r) (r_ctype r) (r_boundary r)
              else SvWhole (r_content r)) as [w|cr|b|cr n b|ct b];
      cbn [o_status obs_err]; try discriminate;
      (destruct (r_etags_on r);
       [match goal with |- context [validate_etags ?a ?b ?c ?d ?e] =>
          destruct (validate_etags a b c d e) eqn:VE end|]);
      cbn [o_status o_body o_cr o_cl o_ct obs_304 obs_err]; try discriminate; intros _;
      (split; [reflexivity|]); (split; [reflexivity|]); (split; [reflexivity|]); (split; [reflexivity|]);
      eapply validate_etags_304_safe; exact VE.
  - intros _. cbn [o_body o_cr o_cl o_ct obs_304].
    repeat (split; [reflexivity|]). eapply validate_since_304_safe; exact VS.
Qed.

(** for a handler-generated body (no Range processing) with tools.etags on, the status is the
    decision *)
Theorem thm_respond_decide : forall c q r,
  r_is_file r = false -> r_etags_on r = true ->
  o_status (respond c q r)
  = match decide (q_method q) (etag_effective (r_etag_set r) (r_autotags r) 200 (r_auto_etag r))
                 (r_lastmod r) (q_im q) (q_inm q) (q_ims q) (q_ius q) with
    | DPass => 200 | D304 => 304 | D412 => 412 | DUnsupported => 0
    end.
Proof.
  intros c q r Hf He. unfold respond, decide. rewrite Hf, He.
  destruct (validate_since (q_method q) 200 (r_lastmod r) (q_ius q) (q_ims q)); try reflexivity.
  destruct (validate_etags (q_method q) 200
              (etag_effective (r_etag_set r) (r_autotags r) 200 (r_auto_etag r)) (q_im q) (q_inm q)); reflexivity.
Qed.

(* ------------------------------------------------------------------ *)
(** * Non-vacuity examples used by Props/C16.v *)

(** "Hello, world\r\n" *)
Definition ex_hello : list Z := [72;101;108;108;111;44;32;119;111;114;108;100;13;10].

Lemma ex_grammar_nonvacuous :
  let u := [66;121;116;101;115] in
  let ts := [TSpec [] [52] [] [] [54] []; TSpec [32] [50] [] [] [53] [32]; TSpec [] [] [] [] [49] [];
             TSpec [] [48] [] [] [49;48;48] []; TSpec [] [50;48] [] [] [51;48] []; TSpec [] [] [] [] [48] []] in
  unit_is_bytes u = true /\ ts <> [] /\ forallb wf_tspec ts = true
  /\ render_header u ts = [66;121;116;101;115;61;52;45;54;44;32;50;45;53;32;44;45;49;44;48;45;49;48;48;44;
                           50;48;45;51;48;44;45;48]
  /\ get_ranges cfg_fixed (Some (render_header u ts)) 14 = GrList [(4,7); (2,6); (13,14); (0,14)].
Proof. repeat split; try discriminate; vm_compute; reflexivity. Qed.

Lemma ex_serve_nonvacuous :
  serve cfg_fixed true (Some [98;121;116;101;115;61;50;45;53]) ex_hello [116] [66]
  = SvSingle [98;121;116;101;115;32;50;45;53;47;49;52] 4 [108;108;111;44]
  /\ (exists ct body, serve cfg_fixed true (Some [98;121;116;101;115;61;48;45;49;48;48;44;50;45;51])
                            ex_hello [116] [66] = SvMulti ct body)
  /\ serve cfg_fixed true (Some [98;121;116;101;115;61;50;48;45]) ex_hello [116] [66]
     = Sv416 [98;121;116;101;115;32;42;47;49;52]
  /\ header_invalid [98;121;116;101;115;61;97;98;99] = true
  /\ header_invalid [98;121;116;101;115] = true
  /\ header_invalid [98;121;116;101;115;61;49;45;50;120] = true
  /\ header_invalid [105;116;101;109;115;61;48;45;51] = true
  /\ header_invalid [98;121;116;101;115;61;50;45;53] = false.
Proof.
  split; [vm_compute; reflexivity|]. split; [eexists; eexists; vm_compute; reflexivity|].
  repeat split; vm_compute; reflexivity.
Qed.

Lemma ex_validators_nonvacuous :
  let etag := Some [34;118;49;34] in
  let lm := Some [83;117;110] in
  let inm := Some [34;120;34;44;32;34;118;49;34] in
  no_semicolon inm /\ no_semicolon None
  /\ matched_inm etag inm /\ ~ matched_ims lm (Some [77;111;110])
  /\ decide 0 etag lm None inm (Some [77;111;110]) None = D304
  /\ decide 2 etag lm None inm (Some [77;111;110]) None = D412
  /\ decide 0 etag lm (Some [34;120;34]) None None None = D412
  /\ decide 0 etag lm None None None None = DPass
  /\ o_status (respond cfg_fixed (PReq 0 true None None inm None None)
                 (PRes false true false ex_hello [116] [66] None etag [])) = 304.
Proof.
  cbv zeta. split; [reflexivity|]. split; [reflexivity|].
  split; [right; exists [34;118;49;34]; split; [reflexivity | vm_compute; tauto]|].
  split; [intros (l & [[= <-] _] & [=])|].
  repeat split; vm_compute; reflexivity.
Qed.
