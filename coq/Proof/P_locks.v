(** C13, part (a): reachability of the interleaving system, basic facts about the
    Z-indexed arrays / insertion-ordered dicts, and the part of the state the lock
    invariant depends on. *)
From Coq Require Import ZArith List Bool Lia.
From CV Require Import Lib.Sx Lib.ListZ LibP.ListZ_facts Model.M_locks.
Import ListNotations.
Open Scope Z_scope.

(* ------------------------------------------------------------------ *)
(** * Z-indexed access *)

Lemma nthZ_range {A} (l : list A) : forall w t, nthZ w l = Some t -> 0 <= w < lenZ l.
Proof.
  induction l as [|x r IH]; intros w t H; cbn [nthZ] in H; [discriminate|].
  rewrite lenZ_cons. pose proof (lenZ_nonneg r).
  destruct (w =? 0) eqn:E0; [apply Z.eqb_eq in E0; lia|].
  destruct (w <? 0) eqn:E1; [discriminate|].
  apply Z.eqb_neq in E0. apply Z.ltb_ge in E1. apply IH in H. lia.
Qed.

Lemma nthZ_updN_eq {A} (f : A -> A) (l : list A) : forall w,
  nthZ w (updN w f l) = option_map f (nthZ w l).
Proof.
  induction l as [|x r IH]; intros w; cbn [nthZ updN option_map]; [reflexivity|].
  destruct (w =? 0) eqn:E0; cbn [nthZ]; rewrite E0; [reflexivity|].
  destruct (w <? 0); [reflexivity|apply IH].
Qed.

Lemma nthZ_updN_neq {A} (f : A -> A) (l : list A) : forall w w', w <> w' ->
  nthZ w' (updN w f l) = nthZ w' l.
Proof.
  induction l as [|x r IH]; intros w w' N; cbn [nthZ updN]; [reflexivity|].
  destruct (w =? 0) eqn:E0; cbn [nthZ].
  - apply Z.eqb_eq in E0. destruct (w' =? 0) eqn:E1; [apply Z.eqb_eq in E1; lia|reflexivity].
  - destruct (w' =? 0); [reflexivity|]. destruct (w' <? 0); [reflexivity|]. apply IH. lia.
Qed.

Lemma lenZ_updN {A} (f : A -> A) (l : list A) : forall w, lenZ (updN w f l) = lenZ l.
Proof.
  induction l as [|x r IH]; intros w; cbn [updN]; [reflexivity|].
  destruct (w =? 0); rewrite !lenZ_cons; [reflexivity|]. rewrite IH. reflexivity.
Qed.

Lemma nthZ_app_l {A} (l l' : list A) : forall w t, nthZ w l = Some t -> nthZ w (l ++ l') = Some t.
Proof.
  induction l as [|x r IH]; intros w t H; cbn [nthZ app] in *; [discriminate|].
  destruct (w =? 0); [exact H|]. destruct (w <? 0); [discriminate|]. apply IH, H.
Qed.

Lemma nthZ_app_inv {A} (l : list A) (x : A) : forall w t,
  nthZ w (l ++ [x]) = Some t -> nthZ w l = Some t \/ (w = lenZ l /\ t = x).
Proof.
  induction l as [|y r IH]; intros w t H; cbn [nthZ app] in *.
  - destruct (w =? 0) eqn:E0.
    + apply Z.eqb_eq in E0. injection H as <-. right. split; [rewrite lenZ_nil; exact E0|reflexivity].
    + destruct (w <? 0); discriminate.
  - destruct (w =? 0) eqn:E0; [left; exact H|].
    destruct (w <? 0); [discriminate|].
    apply IH in H. destruct H as [H|[H1 H2]]; [left; exact H|right].
    split; [rewrite lenZ_cons; lia|exact H2].
Qed.

(** the elements of [updN w0 f l]: the one at w0 is [f] of the old one, the others are unchanged *)
Lemma updN_cases {A} (f : A -> A) (l : list A) w0 w t :
  nthZ w (updN w0 f l) = Some t ->
  (w = w0 /\ exists t0, nthZ w0 l = Some t0 /\ t = f t0) \/ (w <> w0 /\ nthZ w l = Some t).
Proof.
  intros H. destruct (Z.eq_dec w w0) as [->|N].
  - left. split; [reflexivity|]. rewrite nthZ_updN_eq in H.
    destruct (nthZ w0 l) as [t0|]; [|discriminate]. cbn in H. injection H as <-. eauto.
  - right. split; [exact N|]. rewrite nthZ_updN_neq in H by congruence. exact H.
Qed.

(* ------------------------------------------------------------------ *)
(** * insertion-ordered dicts *)

Lemma aget_app_some {A} (l l' : list (Z * A)) k v : aget k l = Some v -> aget k (l ++ l') = Some v.
Proof.
  induction l as [|[k' v'] r IH]; cbn [aget app]; [discriminate|].
  destruct (k' =? k); auto.
Qed.

Lemma aget_app_none {A} (l l' : list (Z * A)) k : aget k l = None -> aget k (l ++ l') = aget k l'.
Proof.
  induction l as [|[k' v'] r IH]; cbn [aget app]; [reflexivity|].
  destruct (k' =? k); [discriminate|auto].
Qed.

Lemma aget_adel_eq {A} (l : list (Z * A)) k : aget k (adel k l) = None.
Proof.
  induction l as [|[k' v'] r IH]; cbn [aget adel]; [reflexivity|].
  destruct (k' =? k) eqn:E; [exact IH|]. cbn [aget]. rewrite E. exact IH.
Qed.

Lemma aget_adel_neq {A} (l : list (Z * A)) k k' : k <> k' -> aget k' (adel k l) = aget k' l.
Proof.
  intros N. induction l as [|[k0 v0] r IH]; cbn [aget adel]; [reflexivity|].
  destruct (k0 =? k) eqn:E.
  - apply Z.eqb_eq in E. subst k0. destruct (k =? k') eqn:E'; [apply Z.eqb_eq in E'; congruence|exact IH].
  - cbn [aget]. destruct (k0 =? k'); [reflexivity|exact IH].
Qed.

(* ------------------------------------------------------------------ *)
(** * reachability: every schedule, any number of steps *)

Inductive reach (cf : cfg) (s0 : st) : st -> Prop :=
| reach_init : reach cf s0 s0
| reach_step : forall s tid lab s', reach cf s0 s -> step cf tid s = Some (lab, s') -> reach cf s0 s'.

Lemma replay_reach cf s0 : forall sched cur s tr cur' s' tr',
  reach cf s0 s -> replay cf sched cur s tr = (cur', s', tr') -> reach cf s0 s'.
Proof.
  induction sched as [|x r IH]; intros cur s tr cur' s' tr' R H; cbn [replay] in H.
  - injection H as _ <- _. exact R.
  - destruct (step cf x s) as [[lab s1]|] eqn:E.
    + eapply IH; [|exact H]. eapply reach_step; eauto.
    + eapply IH; eauto.
Qed.

Lemma tail_reach cf s0 : forall fuel cur s tr ok s' tr',
  reach cf s0 s -> tail cf fuel cur s tr = (ok, s', tr') -> reach cf s0 s'.
Proof.
  induction fuel as [|f IH]; intros cur s tr ok s' tr' R H; cbn [tail] in H.
  - injection H as _ <- _. exact R.
  - destruct (enabled cf s) as [|e0 en]; [injection H as _ <- _; exact R|].
    match type of H with context [step cf ?x s] => destruct (step cf x s) as [[lab s1]|] eqn:E end.
    + eapply IH; [|exact H]. eapply reach_step; eauto.
    + injection H as _ <- _. exact R.
Qed.

(** what [run_C13] computes for a schedule is a reachable state *)
Lemma run_locks_reach cf s0 sched ok s tr :
  run_locks cf s0 sched = (ok, s, tr) -> reach cf s0 s.
Proof.
  unfold run_locks. destruct (replay cf sched None s0 []) as [[cur s1] tr1] eqn:E. intros H.
  eapply tail_reach; [|exact H]. eapply replay_reach; [apply reach_init|exact E].
Qed.

(* ------------------------------------------------------------------ *)
(** * the invariant of the repaired system *)

(** per program counter: what the thread's ghost fields and its [locked] flag are *)
Definition pc_ok (t : rthread) : Prop :=
  match r_pc t with
  | RBegin | RExists _ => r_own t = None /\ r_cs t = false
  | RSetdef | RAcquire _ => r_own t = None /\ r_cs t = false /\ r_locked t = true
  | RCheck l | RUndo l => r_own t = Some l /\ r_cs t = false /\ r_locked t = true
  | RLoad | RDelete | RSave | RRelLook _ => r_cs t = true /\ r_locked t = true
  | RRelease l _ => r_cs t = true /\ r_locked t = true /\ r_own t = Some l
  | RDone => r_own t = None /\ r_cs t = false /\ r_locked t = false
  end.

(** a thread that has acquired a lock object owns it; a thread in its critical section owns
    the lock object that is in the table under its session id NOW *)
Definition thr_ok (s : st) (tid : Z) (t : rthread) : Prop :=
  (forall l, r_own t = Some l -> exists o, nthZ l (objs s) = Some o /\ l_owner o = Some tid) /\
  (r_cs t = true -> exists l, r_own t = Some l /\ aget (r_sid t) (table s) = Some l) /\
  pc_ok t.

Definition sw_owns (w : sweeper) (l : Z) : Prop :=
  match s_pc w with
  | SPop1 _ l' | SPop2 _ l' | SRel1 l' | SRel2 l' => l' = l
  | _ => False
  end.

(** every owned lock object is accounted for by exactly the thread that acquired it, once *)
Definition lock_ok (s : st) (l : Z) (o : lockobj) : Prop :=
  match l_owner o with
  | None => l_count o = 0
  | Some x => l_count o = 1 /\
              ((exists t, nthZ x (reqs s) = Some t /\ r_own t = Some l) \/
               (x = lenZ (reqs s) /\ sw_owns (sw s) l))
  end.

(** the sweep pops only the lock object it has acquired, and that is the one in the table *)
Definition sw_ok (s : st) : Prop :=
  match s_pc (sw s) with
  | STry1 id l | STry2 id l => aget id (table s) = Some l
  | SPop1 id l | SPop2 id l =>
    aget id (table s) = Some l /\ exists o, nthZ l (objs s) = Some o /\ l_owner o = Some (lenZ (reqs s))
  | SRel1 l | SRel2 l => exists o, nthZ l (objs s) = Some o /\ l_owner o = Some (lenZ (reqs s))
  | _ => True
  end.

Definition Inv (s : st) : Prop :=
  (forall tid t, nthZ tid (reqs s) = Some t -> thr_ok s tid t) /\
  (forall l o, nthZ l (objs s) = Some o -> lock_ok s l o) /\
  sw_ok s.

(** the invariant reads only the lock table, the lock objects and the threads *)
Definition lk (s : st) := (table s, objs s, reqs s, sw s).

Lemma Inv_lk s s' : lk s = lk s' -> Inv s -> Inv s'.
Proof.
  unfold lk. intros E. injection E as E1 E2 E3 E4.
  unfold Inv, thr_ok, lock_ok, sw_ok. rewrite E1, E2, E3, E4. auto.
Qed.

Lemma lk_emit e s : lk (emit e s) = lk s. Proof. reflexivity. Qed.
Lemma lk_set_cache c s : lk (set_cache c s) = lk s. Proof. reflexivity. Qed.
Lemma lk_set_heap h s : lk (set_heap h s) = lk s. Proof. reflexivity. Qed.

Lemma Inv_init kinds sweeps pre : Inv (init kinds sweeps pre).
Proof.
  assert (T : forall tid t, nthZ tid (map new_thread kinds) = Some t ->
                            r_own t = None /\ r_cs t = false /\ r_pc t = RBegin).
  { induction kinds as [|k r IH]; intros tid t H; cbn [map nthZ] in H; [discriminate|].
    destruct (tid =? 0); [injection H as <-; cbn; auto|].
    destruct (tid <? 0); [discriminate|]. eapply IH; eauto. }
  unfold init. destruct pre as [[[[id n0] ex] pl]|].
  - split; [|split].
    + intros tid t H. cbn [reqs] in H. destruct (T tid t H) as (O & C & P).
      unfold thr_ok, pc_ok. rewrite O, C, P. repeat split; intros; try discriminate; auto.
    + intros l o H. cbn [objs] in H. destruct pl; cbn [nthZ] in H; [|discriminate].
      destruct (l =? 0); [injection H as <-; reflexivity|]. destruct (l <? 0); discriminate.
    + unfold sw_ok. cbn [sw s_pc]. destruct (0 <? sweeps); exact Logic.I.
  - split; [|split].
    + intros tid t H. cbn [reqs] in H. destruct (T tid t H) as (O & C & P).
      unfold thr_ok, pc_ok. rewrite O, C, P. repeat split; intros; try discriminate; auto.
    + intros l o H. cbn in H. discriminate.
    + unfold sw_ok. cbn [sw s_pc]. destruct (0 <? sweeps); exact Logic.I.
Qed.
