(** The statements Props/C02.v exports, proved from P_dispatch. *)
From Coq Require Import ZArith List Bool Lia Sorted Permutation.
From CV Require Import Lib.Sx Lib.ListZ LibP.ListZ_facts Model.M_dispatch Proof.P_dispatch.
Import ListNotations.
Open Scope Z_scope.

(** the non-empty segments of the path (what fullpath holds before the hidden index token) *)
Definition segments (path : str) : list str := filter nonempty (split_on 47 (strip 47 path)).

Lemma fullpath_segments path : fullpath_of path = segments path ++ [s_index].
Proof. reflexivity. Qed.

(** The declarative resolver: walk the trail, then take the DEEPEST entry that
    offers a handler; an entry offers its exposed [default] before itself. *)
Definition resolve_spec (na : attrs) (root : node) (aconf : appconf) (path : str) : fh :=
  let fullpath := fullpath_of path in
  let flen := lenZ fullpath in
  match trail_of na root aconf path with
  | WOk trail =>
    found_of trail fullpath flen (ends_slash path) (lenZ trail - 1) (deepest trail)
  | WAdded => FHAdded
  | WRaise => FHRaise
  | WMiss => FHMiss
  | WFuel => FHFuel
  end.

Lemma thm_spec na root aconf path :
  find_handler na root aconf path = resolve_spec na root aconf path.
Proof.
  unfold find_handler, resolve_spec.
  destruct (trail_of na root aconf path); try reflexivity. apply scan_all.
Qed.

Lemma trail_of_cases na root aconf path :
  (exists t, trail_of na root aconf path
             = WOk (Entry s_root (Some root) (root_conf root aconf) (lenZ (fullpath_of path)) :: t)
             /\ walk (S (length (fullpath_of path))) na aconf (fullpath_of path)
                     (lenZ (fullpath_of path)) (Some root) (fullpath_of path) = WOk t)
  \/ trail_of na root aconf path = WAdded
  \/ trail_of na root aconf path = WRaise
  \/ trail_of na root aconf path = WMiss.
Proof.
  unfold trail_of.
  pose proof (walk_fuel (S (length (fullpath_of path))) na aconf (fullpath_of path)
                        (lenZ (fullpath_of path)) (Some root) (fullpath_of path)) as Hf.
  destruct (walk _ na aconf _ _ (Some root) _) as [t| | | |].
  - left. exists t. split; reflexivity.
  - right; left; reflexivity.
  - right; right; left; reflexivity.
  - right; right; right; reflexivity.
  - exfalso. apply Hf; [lia | reflexivity].
Qed.

(** find_handler never runs out of fuel (the explicit out-of-fuel result is unreachable) *)
Lemma thm_total na root aconf path : find_handler na root aconf path <> FHFuel.
Proof.
  rewrite thm_spec. unfold resolve_spec.
  destruct (trail_of_cases na root aconf path) as [(t & -> & _)|[->|[->| ->]]]; try congruence.
  unfold found_of. destruct (deepest _) as [[[[i e] h] vd]|]; [destruct vd|]; congruence.
Qed.

(* ---------- only exposed ---------- *)

Lemma found_of_exposed trail fp flen slash numc d h v ii i vd t' :
  found_of trail fp flen slash numc d = FHFound h v ii i vd t' ->
  (d = deepest trail -> n_exposed h = true).
Proof.
  intros H Hd. subst d. unfold found_of in H.
  destruct (deepest trail) as [[[[i0 e0] h0] vd0]|] eqn:E; [|discriminate].
  apply deepest_some in E. destruct E as (_ & Hp & _).
  apply offer_exposed in Hp.
  destruct vd0; injection H as <- _ _ _ _ _; exact Hp.
Qed.

Lemma thm_only_exposed_fh na root aconf path h v ii i vd t' :
  find_handler na root aconf path = FHFound h v ii i vd t' -> n_exposed h = true.
Proof.
  rewrite thm_spec. unfold resolve_spec.
  destruct (trail_of na root aconf path); try discriminate.
  intros H. eapply found_of_exposed; [exact H | reflexivity].
Qed.

Lemma thm_only_exposed na root aconf gconf path f args ii cfg allow :
  dispatch_default na root aconf gconf path = DRes (HPage f args) ii cfg allow ->
  n_exposed f = true.
Proof.
  unfold dispatch_default.
  destruct (find_handler na root aconf path) as [h v i0 i vd t'|t'| | | |] eqn:E; try discriminate.
  destruct (n_truthy h); [|discriminate]. intros H; injection H as <- _ _ _ _.
  eapply thm_only_exposed_fh; exact E.
Qed.

(** an un-exposed tree answers NotFound: nothing on the trail offers a handler *)
Lemma thm_404 na root aconf gconf path trail :
  trail_of na root aconf path = WOk trail ->
  (forall e, In e trail -> pick e = None) ->
  exists cfg, dispatch_default na root aconf gconf path = DRes HNotFound None cfg None.
Proof.
  intros Ht Hall. unfold dispatch_default. rewrite thm_spec. unfold resolve_spec. rewrite Ht.
  destruct (deepest trail) as [[[[i e] h] vd]|] eqn:E.
  - apply deepest_some in E. destruct E as (Hn & Hp & _).
    apply nthZ_In in Hn. rewrite (Hall _ Hn) in Hp. discriminate.
  - cbn [found_of]. eexists; reflexivity.
Qed.

(* ---------- most specific ---------- *)

Lemma nthZ_last {A} (l : list A) d : l <> [] -> nthZ (lenZ l - 1) l = Some (last l d).
Proof.
  induction l as [|x r IH]; intros H; [congruence|].
  destruct r as [|y r'].
  - reflexivity.
  - rewrite lenZ_cons. pose proof (lenZ_nonneg (y :: r')) as Hnn.
    assert (0 < lenZ (y :: r')) by (rewrite lenZ_cons; pose proof (lenZ_nonneg r'); lia).
    rewrite nthZ_cons_pos by lia.
    replace (1 + lenZ (y :: r') - 1 - 1) with (lenZ (y :: r') - 1) by lia.
    rewrite IH by congruence. reflexivity.
Qed.

Lemma fullpath_nonnil path : fullpath_of path <> [].
Proof. rewrite fullpath_segments. destruct (segments path); cbn [app]; congruence. Qed.

(** segleft of every trail entry is within [0, len fullpath]; the last entry has 0 *)
Lemma trail_segleft na root aconf path trail :
  trail_of na root aconf path = WOk trail ->
  Forall (fun e => 0 <= e_segleft e <= lenZ (fullpath_of path)) trail /\
  (forall e, nthZ (lenZ trail - 1) trail = Some e -> e_segleft e = 0).
Proof.
  intros Ht.
  destruct (trail_of_cases na root aconf path) as [(t & Ht' & Hw)|[H|[H|H]]];
    try (rewrite H in Ht; discriminate).
  rewrite Ht' in Ht. injection Ht as <-.
  apply walk_inv in Hw. destruct Hw as [[Hi _]|(_ & Hne & Hall & Hlast)].
  { exfalso. exact (fullpath_nonnil path Hi). }
  pose proof (lenZ_nonneg (fullpath_of path)) as Hnn.
  split.
  - constructor; [cbn [e_segleft]; lia|].
    eapply Forall_impl; [|exact Hall]. cbn beta. intros e He. lia.
  - intros e He. rewrite (nthZ_last _ dflt_entry) in He by congruence.
    injection He as <-. destruct t as [|e0 t0]; [congruence|]. exact Hlast.
Qed.

Lemma thm_most_specific na root aconf path trail :
  trail_of na root aconf path = WOk trail ->
  match find_handler na root aconf path with
  | FHFound h v ii i vd _ =>
    exists e, nthZ i trail = Some e /\ pick e = Some (h, vd)
      /\ (forall j e', i < j -> nthZ j trail = Some e' -> pick e' = None)
      /\ (vd = true -> ii = ends_slash path)
      /\ (vd = false -> ii = (i =? lenZ trail - 1))
      /\ (vd = false -> i = lenZ trail - 1 -> v = [])
  | FHNone t => t = trail /\ forall e, In e trail -> pick e = None
  | _ => False
  end.
Proof.
  intros Ht. rewrite thm_spec. unfold resolve_spec. rewrite Ht.
  destruct (deepest trail) as [[[[i e] h] vd]|] eqn:E.
  - pose proof (deepest_some _ _ _ _ _ E) as (Hn & Hp & Hj).
    cbn [found_of]. destruct vd.
    + exists e. repeat split; auto; intros; congruence.
    + exists e. repeat split; auto; try (intros; congruence).
      intros _ Hi. subst i.
      destruct (trail_segleft _ _ _ _ _ Ht) as (_ & Hlast).
      rewrite (Hlast _ Hn). unfold sliceZ. apply takeZ_nonpos. lia.
  - cbn [found_of]. split; [reflexivity|]. apply deepest_none. exact E.
Qed.

(* ---------- vpath ---------- *)

Lemma thm_vpath na root aconf path trail h v ii i vd t' e :
  trail_of na root aconf path = WOk trail ->
  find_handler na root aconf path = FHFound h v ii i vd t' ->
  nthZ i trail = Some e ->
  0 <= e_segleft e <= lenZ (segments path) + 1 /\
  v = dropZ (lenZ (segments path) + 1 - e_segleft e) (segments path).
Proof.
  intros Ht Hf Hn.
  destruct (trail_segleft _ _ _ _ _ Ht) as (Hall & _).
  rewrite Forall_forall in Hall. specialize (Hall _ (nthZ_In _ _ _ Hn)). cbn beta in Hall.
  rewrite fullpath_segments, lenZ_app in Hall. change (lenZ [s_index]) with 1 in Hall.
  split; [exact Hall|].
  rewrite thm_spec in Hf. unfold resolve_spec in Hf. rewrite Ht in Hf.
  destruct (deepest trail) as [[[[i0 e0] h0] vd0]|] eqn:E; [|discriminate].
  pose proof (deepest_some _ _ _ _ _ E) as (Hn0 & _ & _).
  cbn [found_of] in Hf.
  assert (Hv : v = sliceZ (lenZ (fullpath_of path) - e_segleft e0) (lenZ (fullpath_of path) - 1)
                          (fullpath_of path) /\ i = i0).
  { destruct vd0; injection Hf as _ <- _ <- _ _; split; reflexivity. }
  destruct Hv as [-> ->]. rewrite Hn in Hn0. injection Hn0 as <-.
  rewrite fullpath_segments.
  replace (lenZ (segments path ++ [s_index]) - e_segleft e)
    with (lenZ (segments path) + 1 - e_segleft e)
    by (rewrite lenZ_app; change (lenZ [s_index]) with 1; lia).
  apply slice_segs. lia.
Qed.

(* ---------- the fully declarative resolver for paths without _cp_dispatch ---------- *)

Definition static_path (na : attrs) (root : node) (path : str) : Prop :=
  quiet na (Some root) /\ Forall (quiet na) (chain na (Some root) (segments path ++ [s_index])).

(** objects named by the prefixes of the path (root first, the index attribute of the
    last one last); the deepest one that offers a handler gets the unmatched segments *)
Definition resolve_static (na : attrs) (root : node) (path : str) : option (node * list str) :=
  let segs := segments path in
  match deepest_obj (Some root :: chain na (Some root) (segs ++ [s_index])) with
  | Some (j, h, _) => Some (h, map restore (dropZ j segs))
  | None => None
  end.

Lemma static_trail_length na aconf fp flen : forall iter o,
  length (static_trail na aconf fp flen o iter) = length iter.
Proof. induction iter as [|n r IH]; intros o; cbn [static_trail length]; [reflexivity | now rewrite IH]. Qed.

Lemma thm_spec_static na root aconf gconf path :
  static_path na root path ->
  exists ii cfg,
    dispatch_default na root aconf gconf path
    = DRes (match resolve_static na root path with
            | Some (h, args) => if n_truthy h then HPage h args else HNotFound
            | None => HNotFound
            end) ii cfg None.
Proof.
  intros [Hq Hall]. unfold dispatch_default. rewrite thm_spec. unfold resolve_spec, trail_of.
  rewrite fullpath_segments in *.
  set (segs := segments path) in *. set (fp := segs ++ [s_index]) in *.
  rewrite (walk_static na aconf fp (lenZ fp) (S (length fp)) (Some root) fp) by (auto; lia).
  set (t := static_trail na aconf fp (lenZ fp) (Some root) fp).
  set (trail := Entry s_root (Some root) (root_conf root aconf) (lenZ fp) :: t).
  unfold resolve_static. fold segs. fold fp.
  assert (Hmap : Some root :: chain na (Some root) fp = map e_node trail).
  { unfold trail, t. cbn [map e_node]. now rewrite static_trail_nodes. }
  rewrite Hmap, deepest_obj_map.
  destruct (deepest trail) as [[[[i e] h] vd]|] eqn:E.
  2:{ cbn [found_of]. eexists; eexists; reflexivity. }
  pose proof (deepest_some _ _ _ _ _ E) as (Hn & _ & _).
  pose proof (nthZ_range _ _ _ Hn) as Hr.
  assert (Hlen : lenZ trail = lenZ segs + 2).
  { unfold trail, t. rewrite lenZ_cons, lenZ_spec, static_trail_length.
    unfold fp. rewrite app_length, Nat2Z.inj_add, <- lenZ_spec. cbn [length]. lia. }
  assert (Hfl : lenZ fp = lenZ segs + 1).
  { unfold fp. rewrite lenZ_app. reflexivity. }
  assert (Hseg : e_segleft e = lenZ fp - i).
  { destruct (Z.eq_dec i 0) as [->|Hne].
    - unfold trail in Hn. cbn in Hn. injection Hn as <-. cbn [e_segleft]. lia.
    - unfold trail in Hn. rewrite nthZ_cons_pos in Hn by lia.
      apply static_trail_segleft in Hn. lia. }
  assert (Hv : sliceZ (lenZ fp - e_segleft e) (lenZ fp - 1) fp = dropZ i segs).
  { rewrite Hseg. replace (lenZ fp - (lenZ fp - i)) with i by lia.
    unfold fp. apply slice_segs. lia. }
  cbn [found_of]. rewrite Hv.
  destruct vd; eexists; eexists; reflexivity.
Qed.

(** in the static case the entry at trail index i has segleft = len fullpath - i:
    the positional arguments are exactly the segments after the matched prefix *)

(* ---------- method dispatch ---------- *)

Definition sle (a b : str) : Prop := str_leb a b = true.

Lemma str_leb_total a : forall b, str_leb a b = false -> str_leb b a = true.
Proof.
  induction a as [|x a IH]; intros b H; cbn [str_leb] in *.
  - discriminate.
  - destruct b as [|y b]; [reflexivity|]. cbn [str_leb].
    destruct (x <? y) eqn:E1; [discriminate|].
    destruct (y <? x) eqn:E2; [reflexivity|]. apply IH. exact H.
Qed.

Lemma insert_sorted_sorted x l : Sorted sle l -> Sorted sle (insert_sorted x l).
Proof.
  induction l as [|y r IH]; intros H; cbn [insert_sorted].
  - repeat constructor.
  - destruct (str_leb x y) eqn:E.
    + constructor; [exact H | constructor; exact E].
    + inversion H as [|? ? Hs Hh]; subst. constructor; [apply IH; exact Hs|].
      destruct r as [|z r']; cbn [insert_sorted].
      * constructor. apply str_leb_total; exact E.
      * destruct (str_leb x z) eqn:E2; constructor.
        -- apply str_leb_total; exact E.
        -- inversion Hh; subst; assumption.
Qed.

Lemma sort_strs_sorted l : Sorted sle (sort_strs l).
Proof.
  induction l as [|x l IH]; cbn [sort_strs fold_right]; [constructor|].
  apply insert_sorted_sorted. exact IH.
Qed.

Lemma insert_sorted_perm x l : Permutation (insert_sorted x l) (x :: l).
Proof.
  induction l as [|y r IH]; cbn [insert_sorted]; [reflexivity|].
  destruct (str_leb x y); [reflexivity|].
  rewrite IH. apply perm_swap.
Qed.

Lemma sort_strs_perm l : Permutation (sort_strs l) l.
Proof.
  induction l as [|x l IH]; cbn [sort_strs fold_right]; [reflexivity|].
  rewrite insert_sorted_perm. now constructor.
Qed.

Lemma eqbZs_eq a : forall b, eqbZs a b = true <-> a = b.
Proof.
  unfold eqbZs. induction a as [|x a IH]; intros b; destruct b as [|y b]; cbn.
  - tauto.
  - split; discriminate.
  - split; discriminate.
  - rewrite andb_true_iff, Z.eqb_eq, IH. split; [intros [-> ->]; reflexivity|].
    intros H; injection H as -> ->; auto.
Qed.

Lemma mem_str_In x l : mem_str x l = true <-> In x l.
Proof.
  unfold mem_str. rewrite existsb_exists. split.
  - intros (y & Hin & He). apply eqbZs_eq in He. now subst.
  - intros H. exists x. split; [exact H | now apply eqbZs_eq].
Qed.

Lemma allow_sorted r : Sorted sle (allow_of r).
Proof. unfold allow_of. apply sort_strs_sorted. Qed.

Lemma allow_members r m :
  In m (allow_of r) <-> In m (n_verbs r) \/ (m = s_HEAD /\ In s_GET (n_verbs r)).
Proof.
  unfold allow_of.
  destruct (mem_str s_GET (n_verbs r)) eqn:Eg; destruct (mem_str s_HEAD (n_verbs r)) eqn:Eh;
    cbn [andb negb];
    (split; [intros H; apply (Permutation_in _ (sort_strs_perm _)) in H
            | intros H; apply (Permutation_in _ (Permutation_sym (sort_strs_perm _)))]).
  - now left.
  - destruct H as [H|[-> _]]; [exact H | now apply mem_str_In].
  - apply in_app_or in H. destruct H as [H|[<-|[]]]; [now left|].
    right. split; [reflexivity | now apply mem_str_In].
  - apply in_or_app. destruct H as [H|[-> _]]; [now left | right; now left].
  - now left.
  - destruct H as [H|[-> H]]; [exact H | now apply mem_str_In].
  - now left.
  - destruct H as [H|[_ H]]; [exact H|]. apply mem_str_In in H. congruence.
Qed.

(** the verb method the method dispatcher calls, if any *)
Definition verb_handler (r : node) (m : str) : option node :=
  match verb_lookup r m with
  | Some f => if n_truthy f then Some f else None
  | None => None
  end.

Lemma thm_method na root aconf gconf path method :
  match find_handler na root aconf path with
  | FHFound r v ii _ _ _ =>
    n_exposed r = true /\
    exists cfg,
      dispatch_method na root aconf gconf path method =
      if n_truthy r then
        DRes (match verb_handler r (upper method) with
              | Some f => HPage f (map restore v)
              | None => H405
              end) (Some ii) cfg (Some (join [44;32] (allow_of r)))
      else DRes HNotFound (Some ii) cfg None
  | FHNone _ => exists cfg, dispatch_method na root aconf gconf path method = DRes HNotFound None cfg None
  | _ => True
  end.
Proof.
  destruct (find_handler na root aconf path) as [r v ii i vd t'|t'| | | |] eqn:E; try exact Logic.I.
  - split; [eapply thm_only_exposed_fh; exact E|].
    unfold dispatch_method, verb_handler. rewrite E.
    destruct (n_truthy r); [|eexists; reflexivity].
    destruct (verb_lookup r (upper method)) as [f|]; [|eexists; reflexivity].
    destruct (n_truthy f); eexists; reflexivity.
  - unfold dispatch_method. rewrite E. eexists; reflexivity.
Qed.

(** HEAD is answered by GET exactly when the resource has no HEAD attribute *)
Lemma verb_lookup_head r :
  verb_lookup r s_HEAD = match getattr r s_HEAD with
                         | Some f => Some f
                         | None => getattr r s_GET
                         end.
Proof. unfold verb_lookup. destruct (getattr r s_HEAD); reflexivity. Qed.

Lemma verb_lookup_other r m :
  m <> s_HEAD -> verb_lookup r m = getattr r m.
Proof.
  intros H. unfold verb_lookup. destruct (getattr r m); [reflexivity|].
  destruct (eqbZs m s_HEAD) eqn:E; [apply eqbZs_eq in E; congruence | reflexivity].
Qed.

(* ---------- vpath of the page handler ---------- *)

Lemma find_handler_trail na root aconf path h v ii i vd t' :
  find_handler na root aconf path = FHFound h v ii i vd t' ->
  exists trail, trail_of na root aconf path = WOk trail.
Proof.
  unfold find_handler. destruct (trail_of na root aconf path) as [trail| | | |]; try discriminate.
  intros _. now exists trail.
Qed.

Lemma thm_vpath_args na root aconf gconf path f args ii cfg allow :
  dispatch_default na root aconf gconf path = DRes (HPage f args) ii cfg allow ->
  exists trail i e vd,
    trail_of na root aconf path = WOk trail /\ nthZ i trail = Some e /\ pick e = Some (f, vd) /\
    0 <= e_segleft e <= lenZ (segments path) + 1 /\
    args = map restore (dropZ (lenZ (segments path) + 1 - e_segleft e) (segments path)).
Proof.
  unfold dispatch_default.
  destruct (find_handler na root aconf path) as [h v i0 i vd t'|t'| | | |] eqn:E; try discriminate.
  destruct (n_truthy h); [|discriminate]. intros H; injection H as <- <- _ _ _.
  destruct (find_handler_trail _ _ _ _ _ _ _ _ _ _ E) as [trail Ht].
  pose proof (thm_most_specific _ _ _ _ _ Ht) as Hm. rewrite E in Hm.
  destruct Hm as (e & Hn & Hp & _).
  destruct (thm_vpath _ _ _ _ _ _ _ _ _ _ _ _ Ht E Hn) as (Hr & ->).
  exists trail, i, e, vd. repeat split; auto; lia.
Qed.

(* ---------- concrete trees (non-vacuity) ---------- *)

Definition ex_fn (id : Z) (ex : bool) : node := Node id ex true true [] [] [] [].
(** /a : an un-exposed object with an exposed default and an un-exposed method "s" *)
Definition ex_sub : node :=
  Node 3 false false true [] [] [(s_default, ex_fn 4 true); ([115], ex_fn 5 false)] [].
Definition ex_root : node :=
  Node 1 false false true [] [] [(s_index, ex_fn 2 true); ([97], ex_sub)] [].
(** "/a/x%2Fy/z" *)
Definition ex_path : str := [47;97;47;120;37;50;70;121;47;122].

Lemma ex_static :
  static_path [] ex_root ex_path /\
  (exists trail, trail_of [] ex_root [] ex_path = WOk trail /\ length trail = 5%nat) /\
  dispatch_default [] ex_root [] [] ex_path
  = DRes (HPage (ex_fn 4 true) [[120;47;121]; [122]]) (Some false) [] None /\
  (* the un-exposed method is not reachable: /a/s goes to the default handler with "s" *)
  dispatch_default [] ex_root [] [] [47;97;47;115]
  = DRes (HPage (ex_fn 4 true) [[115]]) (Some false) [] None /\
  (* exact match of the root: index, no arguments *)
  dispatch_default [] ex_root [] [] [47]
  = DRes (HPage (ex_fn 2 true) []) (Some true) [] None /\
  (* nothing exposed above /zz except nothing: 404 *)
  dispatch_default [] ex_root [] [] [47;122;122]
  = DRes HNotFound None [] None.
Proof.
  split; [split; [exact Logic.I | vm_compute; repeat constructor]|].
  split; [eexists; split; vm_compute; reflexivity|].
  repeat split; vm_compute; reflexivity.
Qed.

(** a _cp_dispatch that pops two segments and returns an exposed callable object *)
Definition ex_target : node := Node 7 true true true [] [] [] [].
Definition ex_disp : node :=
  Node 0 false true true [] [] []
       [([[120];[121];[122]], Some (Some ex_target, [[122]]))].
Definition ex_dynroot : node := Node 1 false false true [] [] [(s_cp_dispatch, ex_disp)] [].

Lemma ex_dynamic :
  dispatch_default [] ex_dynroot [] [] [47;120;47;121;47;122]
  = DRes (HPage ex_target [[122]]) (Some false) [] None.
Proof. vm_compute. reflexivity. Qed.

(** a REST resource: exposed, GET and PUT *)
Definition ex_res : node :=
  Node 1 true false true [] [[71;69;84]; [80;85;84]]
       [(s_GET, ex_fn 2 false); ([80;85;84], ex_fn 3 false)] [].

Lemma ex_method :
  (* HEAD is served by GET; Allow: "GET, HEAD, PUT" *)
  dispatch_method [] ex_res [] [] [47] s_HEAD
  = DRes (HPage (ex_fn 2 false) []) (Some false) []
         (Some [71;69;84;44;32;72;69;65;68;44;32;80;85;84]) /\
  (* "post" -> POST: the resource exists without the verb: 405 *)
  dispatch_method [] ex_res [] [] [47] [112;111;115;116]
  = DRes H405 (Some false) [] (Some [71;69;84;44;32;72;69;65;68;44;32;80;85;84]) /\
  (* no resource: 404 *)
  (exists ii cfg, dispatch_method [] (ex_fn 9 false) [] [] [47] s_GET = DRes HNotFound ii cfg None).
Proof.
  repeat split; try (vm_compute; reflexivity).
  eexists; eexists; vm_compute; reflexivity.
Qed.
