(** Z-indexed list primitives that never build a unary [nat] from data. *)
From Coq Require Import ZArith List Bool.
Import ListNotations.
Open Scope Z_scope.

Fixpoint lenZ_acc {A} (l : list A) (acc : Z) : Z :=
  match l with [] => acc | _ :: r => lenZ_acc r (acc + 1) end.
Definition lenZ {A} (l : list A) : Z := lenZ_acc l 0.

Fixpoint takeZ {A} (n : Z) (l : list A) : list A :=
  match l with
  | [] => []
  | x :: r => if 0 <? n then x :: takeZ (n - 1) r else []
  end.

Fixpoint dropZ {A} (n : Z) (l : list A) : list A :=
  match l with
  | [] => []
  | x :: r => if 0 <? n then dropZ (n - 1) r else l
  end.

(** Python slice l[a:b] for 0 <= a, 0 <= b *)
Definition sliceZ {A} (a b : Z) (l : list A) : list A := takeZ (b - a) (dropZ a l).

Fixpoint nthZ {A} (n : Z) (l : list A) : option A :=
  match l with
  | [] => None
  | x :: r => if n =? 0 then Some x else if n <? 0 then None else nthZ (n - 1) r
  end.

Definition eqbZs (a b : list Z) : bool :=
  (fix go a b := match a, b with
                 | [], [] => true
                 | x :: a', y :: b' => (x =? y) && go a' b'
                 | _, _ => false
                 end) a b.
