(** S-expressions: the only data that crosses the model/harness boundary.
    Integers stay Coq [Z]; byte strings and code-point strings are [L] of [I]. *)
From Coq Require Import ZArith List.
Import ListNotations.
Open Scope Z_scope.

Inductive sx : Type :=
| I (z : Z)
| L (l : list sx).

Definition sx_Z (s : sx) : Z := match s with I z => z | L _ => 0 end.
Definition sx_list (s : sx) : list sx := match s with L l => l | I _ => [] end.
Definition sx_Zs (s : sx) : list Z := map sx_Z (sx_list s).
Definition sx_bool (s : sx) : bool := negb (Z.eqb (sx_Z s) 0).
(* option: () = None, (x) = Some x *)
Definition sx_optZ (s : sx) : option Z :=
  match s with L (x :: _) => Some (sx_Z x) | _ => None end.
Definition sx_opt (s : sx) : option sx :=
  match s with L (x :: _) => Some x | _ => None end.

Definition of_Zs (l : list Z) : sx := L (map I l).
Definition of_bool (b : bool) : sx := I (if b then 1 else 0).
Definition of_optZ (o : option Z) : sx :=
  match o with Some z => L [I z] | None => L [] end.
Definition of_nat (n : nat) : sx := I (Z.of_nat n).

Definition nth_sx (n : nat) (s : sx) : sx := nth n (sx_list s) (L []).
