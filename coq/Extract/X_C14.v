From CV Require Import Lib.Sx Model.M_session.
Require Import ExtrOcamlBasic.
Extraction "x_c14.ml" run_C14.
