From CV Require Import Lib.Sx Model.M_multipart.
Require Import ExtrOcamlBasic.
Extraction "x_c04.ml" run_C04.
