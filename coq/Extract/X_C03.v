From CV Require Import Lib.Sx Model.M_params.
Require Import ExtrOcamlBasic.
Extraction "x_c03.ml" run_C03.
