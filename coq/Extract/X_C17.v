From CV Require Import Lib.Sx Model.M_gzipframe Model.M_negotiate.
Require Import ExtrOcamlBasic.
Extraction "x_c17.ml" run_C17.
