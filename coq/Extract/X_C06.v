From CV Require Import Lib.Sx Model.M_framing.
Require Import ExtrOcamlBasic.
Extraction "x_c06.ml" run_C06.
