From CV Require Import Lib.Sx Model.M_ranges Model.M_validators.
Require Import ExtrOcamlBasic.
Extraction "x_c16.ml" run_C16.
