From CV Require Import Lib.Sx Model.M_headers.
Require Import ExtrOcamlBasic.
Extraction "x_c12.ml" run_C12.
