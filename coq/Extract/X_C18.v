From CV Require Import Lib.Sx Model.M_bus.
Require Import ExtrOcamlBasic.
Extraction "x_c18.ml" run_C18.
