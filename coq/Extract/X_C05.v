From CV Require Import Lib.Sx Model.M_reader.
Require Import ExtrOcamlBasic.
Extraction "x_c05.ml" run_C05.
