From CV Require Import Lib.Sx Model.M_auth.
Require Import ExtrOcamlBasic.
Extraction "x_c19.ml" run_C19.
