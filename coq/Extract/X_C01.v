From CV Require Import Lib.Sx Model.M_flowrun.
Require Import ExtrOcamlBasic.
Extraction "x_c01.ml" run_C01.
