From CV Require Import Lib.Sx Model.M_monitor.
Require Import ExtrOcamlBasic.
Extraction "x_c20.ml" run_C20.
