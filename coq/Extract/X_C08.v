From CV Require Import Lib.Sx Model.M_config.
Require Import ExtrOcamlBasic.
Extraction "x_c08.ml" run_C08.
