From CV Require Import Lib.Sx Model.M_flowrun.
Require Import ExtrOcamlBasic.
Extraction "x_c09.ml" run_C09.
