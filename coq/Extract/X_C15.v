From CV Require Import Lib.Sx Model.M_cache.
Require Import ExtrOcamlBasic.
Extraction "x_c15.ml" run_C15.
