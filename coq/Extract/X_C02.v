From CV Require Import Lib.Sx Model.M_dispatch.
Require Import ExtrOcamlBasic.
Extraction "x_c02.ml" run_C02.
