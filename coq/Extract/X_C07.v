From CV Require Import Lib.Sx Model.M_malformed.
Require Import ExtrOcamlBasic.
Extraction "x_c07.ml" run_C07.
