From CV Require Import Lib.Sx Model.M_isolation.
Require Import ExtrOcamlBasic.
Extraction "x_c10.ml" run_C10.
