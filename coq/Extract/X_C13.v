From CV Require Import Lib.Sx Model.M_locks.
Require Import ExtrOcamlBasic.
Extraction "x_c13.ml" run_C13.
