From CV Require Import Lib.Sx Model.M_paths.
Require Import ExtrOcamlBasic.
Extraction "x_c11.ml" run_C11.
